//! C10 harness-side SVS producer: a one-connection TCP front that frames with the
//! independent `crate::frames` codec and answers every request by calling the
//! REAL `/_svs/open|next|cancel` handlers of a `repe::Router` (real producer
//! thread, real bounded channel, real lookahead), with a fault script applied on
//! the transport: cut the connection after the k-th response / on the k-th
//! request, replace the k-th `next` answer by an error, clear the `last` flag
//! and close on the following request. Everything it sent is logged so the
//! oracle knows exactly which bytes reached the puller.

use crate::frames::{self, Frame, Hdr};
use repe::{Message, Router};
use serde::{Deserialize, Serialize};
use std::io::{Read, Write};
use std::net::{Shutdown, TcpListener, TcpStream};
use std::path::PathBuf;
use std::sync::atomic::{AtomicBool, Ordering};
use std::sync::{Arc, Mutex};
use std::time::{Duration, Instant};

#[derive(Clone, Debug, Default, Serialize, Deserialize, PartialEq)]
pub struct Script {
    /// close the socket right after the k-th response was written (1 = the open response)
    pub cut_after_response: Option<usize>,
    /// read the k-th request (notifies not counted) and close without answering
    pub cut_on_request: Option<usize>,
    /// answer the k-th `next` request (1-based) with an error frame instead of asking the producer
    pub next_error_at: Option<usize>,
    /// never send `last`: the flag of the final chunk is cleared, and the request after it is answered by EOF
    pub strip_last: bool,
}

#[derive(Clone, Debug, Default)]
pub struct Log {
    pub accepted: bool,
    pub requests: usize,
    pub notifies: usize,
    pub responses: usize,
    pub open_ok: bool,
    pub open_err: bool,
    /// chunk bodies actually written to the socket, with the `last` flag as sent
    pub chunks: Vec<(Vec<u8>, bool)>,
    pub next_errors: usize,
    /// size of the temp sibling observed when each request arrived (None = absent)
    pub temp_at_request: Vec<Option<u64>>,
    pub cut: bool,
    pub ended: String,
}

impl Log {
    pub fn delivered(&self) -> Vec<u8> {
        self.chunks.iter().flat_map(|(b, _)| b.iter().copied()).collect()
    }
    pub fn last_sent(&self) -> bool {
        self.chunks.last().map(|c| c.1).unwrap_or(false)
    }
    pub fn data_chunks(&self) -> usize {
        self.chunks.iter().filter(|c| !c.0.is_empty()).count()
    }
}

pub struct Handle {
    pub port: u16,
    stop: Arc<AtomicBool>,
    /// the harness cut the connection while the puller was idle (`cut_now`)
    forced: AtomicBool,
    conn: Arc<Mutex<Option<TcpStream>>>,
    th: Option<std::thread::JoinHandle<Log>>,
}

impl Handle {
    /// Stop accepting / serving, join the server thread and return its log.
    pub fn finish(mut self) -> Log {
        self.stop.store(true, Ordering::SeqCst);
        if let Some(s) = self.conn.lock().unwrap().as_ref() {
            let _ = s.shutdown(Shutdown::Both);
        }
        let forced = self.forced.load(Ordering::SeqCst);
        match self.th.take().unwrap().join() {
            Ok(mut l) => {
                if forced {
                    l.cut = true;
                    l.ended = "cut while the puller was idle".into();
                }
                l
            }
            Err(_) => Log { ended: "server thread panicked".into(), ..Default::default() },
        }
    }
    /// Cut the accepted connection NOW, whatever the server is doing (normally: blocked
    /// reading the next request of a puller whose consumer is parked). Returns false when
    /// no connection was accepted yet.
    pub fn cut_now(&self) -> bool {
        self.forced.store(true, Ordering::SeqCst);
        match self.conn.lock().unwrap().as_ref() {
            Some(s) => {
                let _ = s.shutdown(Shutdown::Both);
                true
            }
            None => false,
        }
    }
    /// Wait (bounded) until the server thread has ended (it ends right after a cut).
    pub fn wait_ended(&self, within: Duration) -> bool {
        let deadline = Instant::now() + within;
        loop {
            if self.th.as_ref().map(|t| t.is_finished()).unwrap_or(true) {
                return true;
            }
            if Instant::now() > deadline {
                return false;
            }
            std::thread::sleep(Duration::from_micros(200));
        }
    }
}

fn read_frame(s: &mut TcpStream, buf: &mut Vec<u8>) -> Result<Option<Frame>, String> {
    loop {
        match frames::parse_one(buf) {
            Err(e) => return Err(e),
            Ok(Some((f, n))) => {
                buf.drain(..n);
                return Ok(Some(f));
            }
            Ok(None) => {}
        }
        let mut tmp = [0u8; 4096];
        match s.read(&mut tmp) {
            Ok(0) => return Ok(None),
            Ok(n) => buf.extend_from_slice(&tmp[..n]),
            Err(e) if e.kind() == std::io::ErrorKind::Interrupted => continue,
            Err(_) => return Ok(None),
        }
    }
}

pub fn to_message(f: &Frame) -> Message {
    Message::builder()
        .id(f.h.id)
        .notify(f.h.notify != 0)
        .query_bytes(f.query.clone())
        .query_format_code(f.h.query_format)
        .body_bytes(f.body.clone())
        .body_format_code(f.h.body_format)
        .build()
}

pub fn error_frame(id: u64, query: &[u8], ec: u32, msg: &str) -> Frame {
    let h = Hdr { version: 1, id, query_format: 1, body_format: 3, ec, ..Default::default() };
    Frame::new(h, query, msg.as_bytes())
}

/// A loopback listener that is reused for many one-connection servers (binding a
/// fresh ephemeral port per case exhausts the port range through TIME_WAIT).
pub fn new_listener() -> std::io::Result<TcpListener> {
    let l = TcpListener::bind("127.0.0.1:0")?;
    l.set_nonblocking(true)?;
    Ok(l)
}

/// Serve exactly one connection arriving on `shared` (a connection left in the
/// backlog by an earlier case is discarded first).
pub fn start(shared: &TcpListener, router: Router, script: Script, temp_path: Option<PathBuf>) -> std::io::Result<Handle> {
    let listener = shared.try_clone()?;
    listener.set_nonblocking(true)?;
    let port = listener.local_addr()?.port();
    while let Ok((stale, _)) = listener.accept() {
        let _ = stale.shutdown(Shutdown::Both);
    }
    let stop = Arc::new(AtomicBool::new(false));
    let conn: Arc<Mutex<Option<TcpStream>>> = Arc::new(Mutex::new(None));
    let (stop2, conn2) = (stop.clone(), conn.clone());
    let th = std::thread::Builder::new().name("c10-srv".into()).spawn(move || {
        let mut log = Log::default();
        let deadline = Instant::now() + Duration::from_secs(60);
        let mut stream = loop {
            match listener.accept() {
                Ok((s, _)) => break s,
                Err(e) if e.kind() == std::io::ErrorKind::WouldBlock => {
                    if stop2.load(Ordering::SeqCst) || Instant::now() > deadline {
                        log.ended = "no connection".into();
                        return log;
                    }
                    std::thread::sleep(Duration::from_micros(100));
                }
                Err(e) => {
                    log.ended = format!("accept: {e}");
                    return log;
                }
            }
        };
        drop(listener);
        let _ = stream.set_nonblocking(false);
        let _ = stream.set_nodelay(true);
        log.accepted = true;
        *conn2.lock().unwrap() = stream.try_clone().ok();
        if stop2.load(Ordering::SeqCst) {
            let _ = stream.shutdown(Shutdown::Both);
        }
        serve(&mut stream, &router, &script, temp_path.as_deref(), &mut log);
        let _ = stream.shutdown(Shutdown::Both);
        drop(router); // releases the session table: a parked producer thread unblocks and ends
        log
    })?;
    Ok(Handle { port, stop, forced: AtomicBool::new(false), conn, th: Some(th) })
}

fn serve(
    stream: &mut TcpStream,
    router: &Router,
    script: &Script,
    temp_path: Option<&std::path::Path>,
    log: &mut Log,
) {
    let mut buf = Vec::new();
    let mut nexts = 0usize;
    let mut eof_on_next_request = false;
    loop {
        let f = match read_frame(stream, &mut buf) {
            Ok(Some(f)) => f,
            Ok(None) => {
                log.ended = "peer closed".into();
                return;
            }
            Err(e) => {
                log.ended = format!("malformed request: {e}");
                return;
            }
        };
        let path = String::from_utf8_lossy(&f.query).to_string();
        let req = to_message(&f);
        if f.h.notify != 0 {
            log.notifies += 1;
            if let Some(h) = router.get(&path) {
                let _ = h.handle(&req);
            }
            continue;
        }
        log.requests += 1;
        log.temp_at_request.push(temp_path.and_then(|p| std::fs::metadata(p).ok()).map(|m| m.len()));
        if eof_on_next_request || script.cut_on_request == Some(log.requests) {
            log.cut = true;
            log.ended = "cut on request".into();
            return;
        }
        let is_next = path == repe::value_stream::ROUTE_NEXT;
        let is_open = path == repe::value_stream::ROUTE_OPEN;
        if is_next {
            nexts += 1;
        }
        let mut out: Frame = if is_next && script.next_error_at == Some(nexts) {
            error_frame(f.h.id, &f.query, repe::ErrorCode::InternalError as u32, "scripted producer failure")
        } else {
            match router.get(&path) {
                None => error_frame(f.h.id, &f.query, repe::ErrorCode::MethodNotFound as u32, "no such route"),
                Some(h) => match h.handle(&req) {
                    Ok(m) => {
                        let hdr = Hdr {
                            version: 1,
                            id: m.header.id,
                            query_format: m.header.query_format,
                            body_format: m.header.body_format,
                            ec: m.header.ec,
                            ..Default::default()
                        };
                        // the dispatch layer echoes the request query when the handler left it empty
                        let q: &[u8] = if m.query.is_empty() { &f.query } else { &m.query };
                        Frame::new(hdr, q, &m.body)
                    }
                    Err(e) => error_frame(f.h.id, &f.query, repe::ErrorCode::InternalError as u32, &e.to_string()),
                },
            }
        };
        let is_chunk = is_next && out.h.ec == 0;
        if is_chunk && script.strip_last && out.query.first() == Some(&1) {
            out = Frame::new(out.h, &[0u8], &out.body);
            eof_on_next_request = true;
        }
        if stream.write_all(&out.to_bytes()).is_err() || stream.flush().is_err() {
            log.ended = "write failed".into();
            return;
        }
        log.responses += 1;
        if is_open {
            if out.h.ec == 0 {
                log.open_ok = true;
            } else {
                log.open_err = true;
            }
        } else if is_chunk {
            log.chunks.push((out.body.clone(), out.query.first() == Some(&1)));
        } else if is_next {
            log.next_errors += 1;
        }
        if script.cut_after_response == Some(log.responses) {
            log.cut = true;
            log.ended = "cut after response".into();
            return;
        }
    }
}
