//! C10 part 4 — SLOW / GATED CONSUMERS.
//!
//! In parts 1–3 every consumer of a pull (file sink, caller-supplied digest, caller-supplied
//! verifier, consume closure) is instantaneous, so a pull never fails while its consumer is
//! still busy. Here the consumer is parked on a harness gate:
//!
//!  * family A — a gated `Digest` (its `write` parks at the k-th call) for the verified and
//!    trailer-verified file pullers; while it is parked the pull loop fails (producer failure,
//!    connection cut, error answer to `next`). The directory is sampled AT THE MOMENT THE PULL
//!    FUNCTION RETURNS, again ≥ 300 ms after the gate was opened, after the consumer finished
//!    and after the runtime (and with it every blocking thread) was joined. The gate is held
//!    for `HOLD` (7 s) of real time after the failure; all these scenarios run concurrently.
//!  * family B — immediately after the failed pull returned (gate open or not) a RETRY of the
//!    same resource, now healthy and with new content, to the SAME destination.
//!  * family C — a gated VERIFIER: while it is parked the destination must not be published.
//!  * family D — `pull_consume_async` / `pull_consume` whose closure is still reading when the
//!    failure arrives: an error, never a value built from a truncated stream.
//!  * family E — no fault at all, only back-pressure: the consumer is parked at its first call
//!    for the whole hold while a stream of more chunks than the pull loop may buffer arrives.
//!
//! AsyncClient and WebSocketClient run IN PROCESS over `memstream` (through the
//! `repe::verif_io` seam) against an async port of the `c10_srv` front (real `/_svs/*`
//! handlers); the blocking `Client` pullers run over loopback TCP against `c10_srv` itself.

use super::srv;
use super::{CaseDir, DEST_NAME, DestKind, Entry, VerifySeen, checksum, hex, show_entry, snapshot_dir, snapshot_path, temp_sibling};
use crate::ctx::{Ctx, Samples, Tier};
use crate::frames::{self, Frame, Hdr};
use crate::memstream::{self, End};
use futures_util::{FutureExt, SinkExt, StreamExt};
use repe::value_stream::{self as vs, AsyncSvsClient, Compression, RouterValueStreamExt, StreamOpts};
use repe::{AsyncClient, BodyFormat, Client, RepeError, Router, WebSocketClient};
use serde::{Deserialize, Serialize};
use serde_json::{Value, json};
use std::collections::{BTreeMap, BTreeSet};
use std::io::{Read, Write};
use std::path::{Path, PathBuf};
use std::sync::atomic::{AtomicU64, AtomicUsize, Ordering};
use std::sync::{Arc, Condvar, Mutex};
use std::time::{Duration, Instant};
use tokio::io::{AsyncReadExt, AsyncWriteExt};
use tokio_tungstenite::WebSocketStream;
use tokio_tungstenite::tungstenite::Message as WsMessage;

// ------------------------------------------------------------------ case space

#[derive(Clone, Copy, Debug, PartialEq, Eq, PartialOrd, Ord, Serialize, Deserialize)]
pub enum Kind {
    Async,
    Ws,
    Blocking,
}

#[derive(Clone, Copy, Debug, PartialEq, Eq, PartialOrd, Ord, Serialize, Deserialize)]
pub enum GP {
    Verified,
    Trailer,
    Consume,
}

#[derive(Clone, Debug, PartialEq, Eq, PartialOrd, Ord, Serialize, Deserialize)]
pub struct GCfg {
    pub kind: Kind,
    pub gp: GP,
    pub zstd: bool,
    /// logical stream length (payload + trailer for the trailer-verified pullers)
    pub n: usize,
    /// the producer writes the content in pieces of this many bytes, flushing after each
    /// (with zstd every flush closes a block, so the consumer's decoder makes progress)
    pub piece: usize,
    /// `StreamOpts::chunk_bytes` (size of a wire chunk)
    pub chunk: usize,
    pub trailer: usize,
}

impl GCfg {
    pub fn puller_name(&self) -> &'static str {
        match (self.kind, self.gp) {
            (Kind::Blocking, GP::Trailer) => "pull_to_file_trailer_verified",
            (Kind::Blocking, GP::Consume) => "pull_consume",
            (Kind::Blocking, GP::Verified) => "(no blocking verified puller)",
            (_, GP::Verified) => "pull_to_file_verified_async",
            (_, GP::Trailer) => "pull_to_file_trailer_verified_async",
            (_, GP::Consume) => "pull_consume_async",
        }
    }
    pub fn client_name(&self) -> &'static str {
        match self.kind {
            Kind::Async => "AsyncClient",
            Kind::Ws => "WebSocketClient",
            Kind::Blocking => "Client",
        }
    }
    fn name(&self) -> String {
        format!("{}/{}", self.client_name(), self.puller_name())
    }
    fn is_file(&self) -> bool {
        self.gp != GP::Consume
    }
}

#[derive(Clone, Debug, PartialEq, Eq, PartialOrd, Ord, Serialize, Deserialize)]
pub enum GFault {
    None,
    /// the producer's writer fails after `p` logical bytes
    ProducerFail { p: usize },
    /// the connection is cut right after the k-th response (1 = the answer to `open`)
    CutAfterResponse { k: usize },
    /// the k-th `next` is answered by an error frame
    NextError { k: usize },
    /// blocking pullers: the harness cuts the connection while the consumer is parked
    CutWhileParked,
}

impl GFault {
    fn class(&self) -> &'static str {
        match self {
            GFault::None => "none",
            GFault::ProducerFail { .. } => "producer-fail",
            GFault::CutAfterResponse { .. } => "cut-after-response",
            GFault::NextError { .. } => "next-error",
            GFault::CutWhileParked => "cut-while-parked",
        }
    }
}

#[derive(Clone, Debug, PartialEq, Eq, PartialOrd, Ord, Serialize, Deserialize)]
pub enum GateAt {
    None,
    /// the caller-supplied digest parks inside its `call`-th `write` (1-based)
    Digest { call: usize },
    /// the consume closure parks after its `call`-th non-empty read
    Read { call: usize },
    /// the caller-supplied verifier parks; when released it accepts (honest comparison) or rejects
    Verifier { accept: bool },
}

impl GateAt {
    fn class(&self) -> &'static str {
        match self {
            GateAt::None => "ungated",
            GateAt::Digest { .. } => "gated-digest",
            GateAt::Read { .. } => "gated-consume",
            GateAt::Verifier { accept: true } => "gated-verifier-accept",
            GateAt::Verifier { accept: false } => "gated-verifier-reject",
        }
    }
}

#[derive(Clone, Debug, PartialEq, Eq, PartialOrd, Ord, Serialize, Deserialize)]
pub enum Post {
    None,
    /// a healthy pull of the same resource (new content) to the same destination, started the
    /// moment the failed pull returned
    RetryPlain,
    /// the same, with the retry's own digest parked at its `call`-th write until the consumer
    /// of the failed pull has finished
    RetryGated { call: usize },
}

#[derive(Clone, Debug, PartialEq, Eq, PartialOrd, Ord, Serialize, Deserialize)]
pub struct GCase {
    pub cfg: GCfg,
    pub dest: DestKind,
    pub fault: GFault,
    pub gate: GateAt,
    pub post: Post,
}

impl GCase {
    fn family(&self) -> &'static str {
        match (&self.gate, &self.fault, &self.post) {
            (GateAt::None, _, _) => "ungated",
            (GateAt::Verifier { .. }, _, _) => "C:gated-verifier",
            (GateAt::Read { .. }, GFault::None, _) => "E:back-pressure",
            (GateAt::Read { .. }, _, _) => "D:gated-consume+fault",
            (GateAt::Digest { .. }, GFault::None, _) => "E:back-pressure",
            (GateAt::Digest { .. }, _, Post::None) => "A:gated-digest+fault",
            (GateAt::Digest { .. }, _, _) => "B:gated-digest+fault+retry",
        }
    }
}

// ------------------------------------------------------------------ content

fn payload(n: usize, generation: u32) -> Vec<u8> {
    let mut x: u32 = 0x2545_F491;
    (0..n)
        .map(|_| {
            x = x.wrapping_mul(1_664_525).wrapping_add(1_013_904_223);
            let b = (x >> 24) as u8;
            // generation 2 (the healthy retry) differs from generation 1 in EVERY byte
            if generation == 2 { !b } else { b }
        })
        .collect()
}

/// The logical stream of the resource in the given generation.
pub fn content(cfg: &GCfg, generation: u32) -> Vec<u8> {
    if cfg.gp == GP::Trailer {
        let mut p = payload(cfg.n - cfg.trailer, generation);
        let t = checksum(&p, cfg.trailer);
        p.extend_from_slice(&t);
        p
    } else {
        payload(cfg.n, generation)
    }
}

/// What a successful pull of that stream publishes (verified trailer stripped).
fn published(cfg: &GCfg, generation: u32) -> Vec<u8> {
    let c = content(cfg, generation);
    if cfg.gp == GP::Trailer { c[..c.len() - cfg.trailer].to_vec() } else { c }
}

fn router(cfg: &GCfg, generation: u32, fail_after: Option<usize>) -> Router {
    let content = content(cfg, generation);
    let piece = cfg.piece.max(1);
    let opts = StreamOpts {
        chunk_bytes: cfg.chunk,
        compression: if cfg.zstd { Compression::Zstd } else { Compression::None },
        zstd_level: 3,
        session_depth: 2,
    };
    Router::new().with_writer_stream(
        BodyFormat::RawBinary,
        move |res: &str| {
            if res != "r" {
                return None;
            }
            let content = content.clone();
            Some(move |w: &mut dyn Write| -> std::io::Result<()> {
                let end = fail_after.unwrap_or(content.len()).min(content.len());
                let mut at = 0;
                while at < end {
                    let to = (at + piece).min(end);
                    w.write_all(&content[at..to])?;
                    w.flush()?;
                    at = to;
                }
                if fail_after.is_some() { Err(std::io::Error::other("c10 producer failure")) } else { Ok(()) }
            })
        },
        opts,
    )
}

fn script_of(f: &GFault) -> (srv::Script, Option<usize>) {
    let mut s = srv::Script::default();
    let mut fail = None;
    match f {
        GFault::None | GFault::CutWhileParked => {}
        GFault::ProducerFail { p } => fail = Some(*p),
        GFault::CutAfterResponse { k } => s.cut_after_response = Some(*k),
        GFault::NextError { k } => s.next_error_at = Some(*k),
    }
    (s, fail)
}

// ------------------------------------------------------------------ events and gates

/// Real time the gate stays closed after the failure (the deliberate hold of families A–E).
pub fn hold() -> Duration {
    Duration::from_millis(std::env::var("VERIF_C10_HOLD_MS").ok().and_then(|s| s.parse().ok()).unwrap_or(7000))
}
/// watchdog for every wait on a predicted positive event
const WATCHDOG: Duration = Duration::from_secs(60);
/// a parked consumer gives up after this long (harness bug guard; reported as machinery)
const GATE_WATCHDOG: Duration = Duration::from_secs(150);
const AFTER_OPEN: Duration = Duration::from_millis(300);

#[derive(Default)]
struct Flags {
    parked: [bool; 2],
    open: [bool; 2],
    opened_at: [Option<Instant>; 2],
    /// the consumer of pull i has finished (its digest / closure state was dropped)
    done: [bool; 2],
    returned: [bool; 2],
    fault: bool,
    finished: bool,
    gate_timeout: bool,
}

#[derive(Default)]
pub struct Ev {
    m: Mutex<Flags>,
    cv: Condvar,
}

impl Ev {
    fn set(&self, f: impl FnOnce(&mut Flags)) {
        let mut g = self.m.lock().unwrap_or_else(|e| e.into_inner());
        f(&mut g);
        self.cv.notify_all();
    }
    fn get<T>(&self, f: impl FnOnce(&Flags) -> T) -> T {
        f(&self.m.lock().unwrap_or_else(|e| e.into_inner()))
    }
    fn wait(&self, pred: impl Fn(&Flags) -> bool, within: Duration) -> bool {
        let deadline = Instant::now() + within;
        let mut g = self.m.lock().unwrap_or_else(|e| e.into_inner());
        loop {
            if pred(&g) {
                return true;
            }
            let now = Instant::now();
            if now >= deadline {
                return false;
            }
            g = self.cv.wait_timeout(g, deadline - now).unwrap_or_else(|e| e.into_inner()).0;
        }
    }
    fn open(&self, i: usize) {
        self.set(|f| {
            if !f.open[i] {
                f.open[i] = true;
                f.opened_at[i] = Some(Instant::now());
            }
        });
    }
    fn park(&self, i: usize) {
        self.set(|f| f.parked[i] = true);
        if !self.wait(|f| f.open[i], GATE_WATCHDOG) {
            self.set(|f| f.gate_timeout = true);
        }
    }
}

/// The caller-supplied digest: records what it is fed, parks at its `park`-th call.
struct GDigest {
    ev: Arc<Ev>,
    id: usize,
    park: Option<usize>,
    n: usize,
    buf: Arc<Mutex<Vec<u8>>>,
    calls: Arc<AtomicUsize>,
}

impl Write for GDigest {
    fn write(&mut self, b: &[u8]) -> std::io::Result<usize> {
        if b.is_empty() {
            return Ok(0);
        }
        self.n += 1;
        self.buf.lock().unwrap().extend_from_slice(b);
        self.calls.store(self.n, Ordering::SeqCst);
        if Some(self.n) == self.park {
            self.ev.park(self.id);
        }
        Ok(b.len())
    }
    fn flush(&mut self) -> std::io::Result<()> {
        Ok(())
    }
}

impl Drop for GDigest {
    fn drop(&mut self) {
        let id = self.id;
        self.ev.set(|f| f.done[id] = true);
    }
}

struct DoneGuard(Arc<Ev>, usize);
impl Drop for DoneGuard {
    fn drop(&mut self) {
        let id = self.1;
        self.0.set(|f| f.done[id] = true);
    }
}

/// Everything the hooks of ONE pull need.
#[derive(Clone)]
struct Hooks {
    ev: Arc<Ev>,
    id: usize,
    digest_park: Option<usize>,
    read_park: Option<usize>,
    verifier_gate: bool,
    reject: bool,
    seen: Arc<Mutex<VerifySeen>>,
    buf: Arc<Mutex<Vec<u8>>>,
    calls: Arc<AtomicUsize>,
    dest: PathBuf,
    /// the logical stream the producer really serves (for the honest whole-stream verifier)
    expected: Vec<u8>,
    trailer: usize,
}

impl Hooks {
    fn new(ev: &Arc<Ev>, id: usize, case: &GCase, generation: u32, dest: &Path) -> Hooks {
        let mut h = Hooks {
            ev: ev.clone(),
            id,
            digest_park: None,
            read_park: None,
            verifier_gate: false,
            reject: false,
            seen: Arc::new(Mutex::new(VerifySeen::default())),
            buf: Arc::new(Mutex::new(Vec::new())),
            calls: Arc::new(AtomicUsize::new(0)),
            dest: dest.to_path_buf(),
            expected: content(&case.cfg, generation),
            trailer: case.cfg.trailer,
        };
        if id == 0 {
            match case.gate {
                GateAt::None => {}
                GateAt::Digest { call } => h.digest_park = Some(call),
                GateAt::Read { call } => h.read_park = Some(call),
                GateAt::Verifier { accept } => {
                    h.verifier_gate = true;
                    h.reject = !accept;
                }
            }
        } else if let Post::RetryGated { call } = case.post {
            h.digest_park = Some(call);
        }
        h
    }
    fn digest(&self) -> GDigest {
        GDigest { ev: self.ev.clone(), id: self.id, park: self.digest_park, n: 0, buf: self.buf.clone(), calls: self.calls.clone() }
    }
    /// the caller-supplied verifier (whole-stream comparison, or trailer == checksum(payload))
    fn verify(&self, gp: GP, d: GDigest, trailer: &[u8]) -> Result<(), RepeError> {
        let got = d.buf.lock().unwrap().clone();
        {
            let mut s = self.seen.lock().unwrap();
            s.calls += 1;
            s.digest = got.clone();
            s.trailer = trailer.to_vec();
            s.dest_at_verify = snapshot_path(&self.dest);
        }
        if self.verifier_gate {
            self.ev.park(self.id);
        }
        let honest = match gp {
            GP::Trailer => checksum(&got, self.trailer) == trailer,
            _ => got == self.expected,
        };
        drop(d);
        if self.reject || !honest {
            Err(RepeError::Io(std::io::Error::new(std::io::ErrorKind::InvalidData, "c10 verifier: digest mismatch")))
        } else {
            Ok(())
        }
    }
    /// the consume closure of `pull_consume[_async]`: a strict reader (errors are propagated,
    /// EOF ends the value) that parks after its `read_park`-th non-empty read
    fn consume(&self, r: &mut dyn Read, _finished: DoneGuard) -> Result<Vec<u8>, RepeError> {
        let mut out = Vec::new();
        let mut b = [0u8; 64];
        let mut reads = 0usize;
        loop {
            let n = r.read(&mut b)?;
            if n == 0 {
                return Ok(out);
            }
            out.extend_from_slice(&b[..n]);
            reads += 1;
            self.calls.store(reads, Ordering::SeqCst);
            if Some(reads) == self.read_park {
                self.ev.park(self.id);
            }
        }
    }
}

#[derive(Clone, Debug, PartialEq)]
pub enum GRes {
    Ok,
    OkBytes(Vec<u8>),
    Err(String),
    Panic(String),
}

impl GRes {
    fn is_ok(&self) -> bool {
        matches!(self, GRes::Ok | GRes::OkBytes(_))
    }
    fn class(&self) -> &'static str {
        match self {
            GRes::Ok => "ok",
            GRes::OkBytes(_) => "ok-value",
            GRes::Err(_) => "err",
            GRes::Panic(_) => "panic",
        }
    }
}

fn panic_text(p: Box<dyn std::any::Any + Send>) -> String {
    p.downcast_ref::<String>().cloned().or_else(|| p.downcast_ref::<&str>().map(|s| s.to_string())).unwrap_or_else(|| "panic".into())
}

// ------------------------------------------------------------------ in-memory transport + server front

enum Tr {
    Raw { end: End, buf: Vec<u8> },
    Ws(Box<WebSocketStream<End>>),
}

impl Tr {
    async fn recv(&mut self) -> Option<Frame> {
        match self {
            Tr::Raw { end, buf } => loop {
                match frames::parse_one(buf) {
                    Err(_) => return None,
                    Ok(Some((f, n))) => {
                        buf.drain(..n);
                        return Some(f);
                    }
                    Ok(None) => {}
                }
                let mut tmp = [0u8; 4096];
                match end.read(&mut tmp).await {
                    Ok(0) | Err(_) => return None,
                    Ok(n) => buf.extend_from_slice(&tmp[..n]),
                }
            },
            Tr::Ws(ws) => loop {
                match ws.next().await {
                    None | Some(Err(_)) => return None,
                    Some(Ok(WsMessage::Binary(b))) => match frames::parse_one(&b) {
                        Ok(Some((f, n))) if n == b.len() => return Some(f),
                        _ => return None,
                    },
                    Some(Ok(WsMessage::Close(_))) => return None,
                    Some(Ok(_)) => {}
                }
            },
        }
    }
    async fn send(&mut self, f: &Frame) -> bool {
        match self {
            Tr::Raw { end, .. } => end.write_all(&f.to_bytes()).await.is_ok() && end.flush().await.is_ok(),
            Tr::Ws(ws) => ws.send(WsMessage::Binary(f.to_bytes())).await.is_ok(),
        }
    }
}

/// Async port of `c10_srv::serve`: every request is answered by the REAL `/_svs/*` handler of
/// `router`; the script is applied on the transport; everything sent is logged.
async fn serve_mem(mut tr: Tr, router: Router, script: srv::Script, log: Arc<Mutex<srv::Log>>, ev: Arc<Ev>, signal: bool) {
    let mut nexts = 0usize;
    let fault = |ev: &Arc<Ev>| {
        if signal {
            ev.set(|f| f.fault = true);
        }
    };
    log.lock().unwrap().accepted = true;
    loop {
        let f = match tr.recv().await {
            Some(f) => f,
            None => {
                log.lock().unwrap().ended = "peer closed".into();
                return;
            }
        };
        let path = String::from_utf8_lossy(&f.query).to_string();
        let req = srv::to_message(&f);
        if f.h.notify != 0 {
            log.lock().unwrap().notifies += 1;
            if let Some(h) = router.get(&path) {
                let _ = h.handle(&req);
            }
            continue;
        }
        let requests = {
            let mut l = log.lock().unwrap();
            l.requests += 1;
            l.requests
        };
        if script.cut_on_request == Some(requests) {
            {
                let mut l = log.lock().unwrap();
                l.cut = true;
                l.ended = "cut on request".into();
            }
            drop(tr);
            fault(&ev);
            return;
        }
        let is_next = path == vs::ROUTE_NEXT;
        let is_open = path == vs::ROUTE_OPEN;
        if is_next {
            nexts += 1;
        }
        let out: Frame = if is_next && script.next_error_at == Some(nexts) {
            srv::error_frame(f.h.id, &f.query, repe::ErrorCode::InternalError as u32, "scripted producer failure")
        } else {
            match router.get(&path) {
                None => srv::error_frame(f.h.id, &f.query, repe::ErrorCode::MethodNotFound as u32, "no such route"),
                Some(h) => match h.handle(&req) {
                    Ok(m) => {
                        let hdr = Hdr {
                            version: 1,
                            id: m.header.id,
                            query_format: m.header.query_format,
                            body_format: m.header.body_format,
                            ec: m.header.ec,
                            ..Default::default()
                        };
                        let q: &[u8] = if m.query.is_empty() { &f.query } else { &m.query };
                        Frame::new(hdr, q, &m.body)
                    }
                    Err(e) => srv::error_frame(f.h.id, &f.query, repe::ErrorCode::InternalError as u32, &e.to_string()),
                },
            }
        };
        let is_chunk = is_next && out.h.ec == 0;
        if !tr.send(&out).await {
            log.lock().unwrap().ended = "write failed".into();
            return;
        }
        let responses = {
            let mut l = log.lock().unwrap();
            l.responses += 1;
            if is_open {
                if out.h.ec == 0 {
                    l.open_ok = true;
                } else {
                    l.open_err = true;
                }
            } else if is_chunk {
                l.chunks.push((out.body.clone(), out.query.first() == Some(&1)));
            } else if is_next {
                l.next_errors += 1;
            }
            l.responses
        };
        if is_next && !is_chunk {
            fault(&ev);
        }
        if script.cut_after_response == Some(responses) {
            {
                let mut l = log.lock().unwrap();
                l.cut = true;
                l.ended = "cut after response".into();
            }
            drop(tr);
            fault(&ev);
            return;
        }
    }
}

static SLOT: AtomicU64 = AtomicU64::new(0);
fn slot() -> u16 {
    (1000 + SLOT.fetch_add(1, Ordering::SeqCst) % 60000) as u16
}

/// Keeps the client, the server task and its router alive until the scenario ends.
#[allow(dead_code)]
enum Keep {
    Async(AsyncClient, tokio::task::JoinHandle<()>),
    Ws(WebSocketClient, tokio::task::JoinHandle<()>),
}

async fn gpull<C: AsyncSvsClient>(client: &C, cfg: &GCfg, dest: &Path, h: &Hooks) -> GRes {
    let to_res = |r: Result<Result<(), RepeError>, Box<dyn std::any::Any + Send>>| match r {
        Ok(Ok(())) => GRes::Ok,
        Ok(Err(e)) => GRes::Err(e.to_string()),
        Err(p) => GRes::Panic(panic_text(p)),
    };
    match cfg.gp {
        GP::Verified => {
            let fut = vs::pull_to_file_verified_async(client, "r", dest, h.digest(), |d: GDigest| h.verify(GP::Verified, d, &[]));
            to_res(std::panic::AssertUnwindSafe(fut).catch_unwind().await)
        }
        GP::Trailer => {
            let fut = vs::pull_to_file_trailer_verified_async(client, "r", dest, cfg.trailer, h.digest(), |d: GDigest, t: &[u8]| {
                h.verify(GP::Trailer, d, t)
            });
            to_res(std::panic::AssertUnwindSafe(fut).catch_unwind().await)
        }
        GP::Consume => {
            let h2 = h.clone();
            // (dropped with the closure even if the closure is never called)
            let g = DoneGuard(h.ev.clone(), h.id);
            let fut = vs::pull_consume_async(client, "r", move |mut r: Box<dyn Read>| h2.consume(&mut *r, g));
            match std::panic::AssertUnwindSafe(fut).catch_unwind().await {
                Ok(Ok(v)) => GRes::OkBytes(v),
                Ok(Err(e)) => GRes::Err(e.to_string()),
                Err(p) => GRes::Panic(panic_text(p)),
            }
        }
    }
}

/// One in-memory pull: fresh connection, fresh server front over the real handlers.
async fn one_pull_mem(case: &GCase, generation: u32, fault: &GFault, h: &Hooks, dest: &Path) -> Result<(GRes, Arc<Mutex<srv::Log>>, Keep), String> {
    let cfg = &case.cfg;
    let (script, fail) = script_of(fault);
    let router = router(cfg, generation, fail);
    let log = Arc::new(Mutex::new(srv::Log::default()));
    let s = slot();
    let (client_end, server_end, _ctl) = memstream::pair();
    repe::verif_io::register_stream(s, client_end);
    let signal = h.id == 0;
    match cfg.kind {
        Kind::Async => {
            let client = AsyncClient::connect(("127.254.77.1", s)).await.map_err(|e| format!("AsyncClient over the seam: {e}"))?;
            let task = tokio::spawn(serve_mem(Tr::Raw { end: server_end, buf: Vec::new() }, router, script, log.clone(), h.ev.clone(), signal));
            let r = gpull(&client, cfg, dest, h).await;
            Ok((r, log, Keep::Async(client, task)))
        }
        Kind::Ws => {
            let url = format!("ws://127.254.77.1:{s}/");
            let (c, ws) = tokio::join!(WebSocketClient::connect(&url), tokio_tungstenite::accept_async(server_end));
            let client = c.map_err(|e| format!("WebSocketClient over the seam: {e}"))?;
            let ws = ws.map_err(|e| format!("websocket accept: {e}"))?;
            let task = tokio::spawn(serve_mem(Tr::Ws(Box::new(ws)), router, script, log.clone(), h.ev.clone(), signal));
            let r = gpull(&client, cfg, dest, h).await;
            Ok((r, log, Keep::Ws(client, task)))
        }
        Kind::Blocking => Err("blocking kind on the in-memory path".into()),
    }
}

// ------------------------------------------------------------------ one scenario

#[derive(Clone, Debug)]
pub struct Sample {
    pub label: &'static str,
    pub dir: BTreeMap<String, Entry>,
}

#[derive(Default)]
struct Shared {
    r1: Option<GRes>,
    r2: Option<GRes>,
    samples: Vec<Sample>,
    log1: Option<srv::Log>,
    log2: Option<srv::Log>,
    /// pull 1 returned while its gate was still closed
    returned_while_parked: bool,
    machinery: Vec<String>,
}

pub struct Outcome {
    pub before: BTreeMap<String, Entry>,
    pub r1: GRes,
    pub r2: Option<GRes>,
    pub samples: Vec<Sample>,
    pub log1: srv::Log,
    pub log2: Option<srv::Log>,
    pub seen1: VerifySeen,
    pub seen2: VerifySeen,
    pub calls1: usize,
    pub calls2: usize,
    pub parked: bool,
    /// the retry's own gate really parked its consumer
    pub parked2: bool,
    pub fault_seen: bool,
    pub returned_while_parked: bool,
    /// measured real time between (consumer parked and failure applied) and the gate opening
    pub held: Option<Duration>,
    pub machinery: Vec<String>,
}

fn sample(sh: &Arc<Mutex<Shared>>, label: &'static str, work: &Path) {
    let dir = snapshot_dir(work);
    sh.lock().unwrap().samples.push(Sample { label, dir });
}

/// The pull thread of an in-memory scenario (owns the runtime, so joining it joins every
/// blocking consumer thread).
fn t1_mem(case: GCase, dest: PathBuf, work: PathBuf, ev: Arc<Ev>, sh: Arc<Mutex<Shared>>, h1: Hooks, h2: Hooks) {
    let rt = match tokio::runtime::Builder::new_current_thread().enable_all().build() {
        Ok(rt) => rt,
        Err(e) => {
            sh.lock().unwrap().machinery.push(format!("runtime: {e}"));
            ev.set(|f| {
                f.returned = [true; 2];
                f.finished = true
            });
            return;
        }
    };
    let gated = case.gate != GateAt::None;
    rt.block_on(async {
        let first = one_pull_mem(&case, 1, &case.fault, &h1, &dest).await;
        // ---- the moment the pull function returned
        let dir = snapshot_dir(&work);
        let open_now = ev.get(|f| f.open[0]);
        let keep1 = match first {
            Ok((r, log, keep)) => {
                let mut s = sh.lock().unwrap();
                s.samples.push(Sample { label: "at-return", dir });
                s.r1 = Some(r);
                s.returned_while_parked = gated && !open_now;
                drop(s);
                Some((log, keep))
            }
            Err(e) => {
                sh.lock().unwrap().machinery.push(e);
                None
            }
        };
        ev.set(|f| f.returned[0] = true);
        let mut keep2 = None;
        if keep1.is_some() {
            match case.post {
                Post::None => {
                    if !ev.wait(|f| f.open[0], WATCHDOG + hold()) {
                        sh.lock().unwrap().machinery.push("the gate was never opened".into());
                    }
                    if gated {
                        let t_open = ev.get(|f| f.opened_at[0]).unwrap_or_else(Instant::now);
                        let due = t_open + AFTER_OPEN;
                        let now = Instant::now();
                        if due > now {
                            std::thread::sleep(due - now);
                        }
                        sample(&sh, "300ms-after-gate-open", &work);
                    }
                }
                Post::RetryPlain | Post::RetryGated { .. } => {
                    match one_pull_mem(&case, 2, &GFault::None, &h2, &dest).await {
                        Ok((r, log, keep)) => {
                            let dir = snapshot_dir(&work);
                            let mut s = sh.lock().unwrap();
                            s.samples.push(Sample { label: "retry-at-return", dir });
                            s.r2 = Some(r);
                            drop(s);
                            keep2 = Some((log, keep));
                        }
                        Err(e) => sh.lock().unwrap().machinery.push(format!("retry: {e}")),
                    }
                    ev.set(|f| f.returned[1] = true);
                    if !ev.wait(|f| f.open[0], WATCHDOG + hold()) {
                        sh.lock().unwrap().machinery.push("the gate was never opened".into());
                    }
                }
            }
            // every consumer of the failed pull (and of the retry) has finished
            let need2 = keep2.is_some();
            if !ev.wait(|f| f.done[0] && (!need2 || f.done[1]), WATCHDOG) {
                sh.lock().unwrap().machinery.push("watchdog: a consumer never finished after its gate was opened".into());
            } else {
                sample(&sh, "consumer-finished", &work);
            }
        }
        let mut s = sh.lock().unwrap();
        s.log1 = keep1.as_ref().map(|(l, _)| l.lock().unwrap().clone());
        s.log2 = keep2.as_ref().map(|(l, _)| l.lock().unwrap().clone());
        drop(s);
        drop(keep2);
        drop(keep1);
    });
    drop(rt);
    sample(&sh, "joined", &work);
    ev.set(|f| f.finished = true);
}

fn new_ev(case: &GCase) -> Arc<Ev> {
    let ev = Arc::new(Ev::default());
    let gated = case.gate != GateAt::None;
    let retry_gated = matches!(case.post, Post::RetryGated { .. });
    ev.set(|f| {
        f.open[0] = !gated;
        f.open[1] = !retry_gated;
        if !gated {
            f.opened_at[0] = Some(Instant::now());
        }
    });
    ev
}

fn collect(case: &GCase, before: BTreeMap<String, Entry>, ev: &Arc<Ev>, sh: &Arc<Mutex<Shared>>, h1: &Hooks, h2: &Hooks, held: Option<Duration>, mut mach: Vec<String>) -> Outcome {
    let mut s = sh.lock().unwrap();
    mach.append(&mut s.machinery);
    if ev.get(|f| f.gate_timeout) {
        mach.push("a parked consumer gave up waiting for its gate".into());
    }
    let _ = case;
    Outcome {
        before,
        r1: s.r1.clone().unwrap_or_else(|| GRes::Err("(the pull did not run)".into())),
        r2: s.r2.clone(),
        samples: s.samples.clone(),
        log1: s.log1.clone().unwrap_or_default(),
        log2: s.log2.clone(),
        seen1: h1.seen.lock().unwrap().clone(),
        seen2: h2.seen.lock().unwrap().clone(),
        calls1: h1.calls.load(Ordering::SeqCst),
        calls2: h2.calls.load(Ordering::SeqCst),
        parked: ev.get(|f| f.parked[0]),
        parked2: ev.get(|f| f.parked[1]),
        fault_seen: ev.get(|f| f.fault),
        returned_while_parked: s.returned_while_parked,
        held,
        machinery: mach,
    }
}

/// Run one AsyncClient / WebSocketClient scenario (this thread is the controller).
pub fn run_mem_case(case: &GCase) -> Result<Outcome, String> {
    let dir = CaseDir::new().map_err(|e| format!("case dir: {e}"))?;
    let dest = dir.setup_dest(case.dest).map_err(|e| format!("dest setup: {e}"))?;
    let work = dir.work();
    let before = snapshot_dir(&work);
    let ev = new_ev(case);
    let sh = Arc::new(Mutex::new(Shared::default()));
    let h1 = Hooks::new(&ev, 0, case, 1, &dest);
    let h2 = Hooks::new(&ev, 1, case, 2, &dest);
    let th = {
        let (case, dest, work, ev, sh, h1, h2) = (case.clone(), dest.clone(), work.clone(), ev.clone(), sh.clone(), h1.clone(), h2.clone());
        std::thread::Builder::new()
            .name("c10-gate-pull".into())
            .stack_size(1 << 20)
            .spawn(move || t1_mem(case, dest, work, ev, sh, h1, h2))
            .map_err(|e| format!("spawn: {e}"))?
    };
    let mut mach = Vec::new();
    let mut held = None;
    let gated = case.gate != GateAt::None;
    if gated {
        let need_fault = case.fault != GFault::None;
        // predicted positive event: the consumer is parked and (fault rows) the failure was applied
        if !ev.wait(|f| (f.parked[0] && (!need_fault || f.fault)) || f.returned[0], WATCHDOG) {
            mach.push(format!(
                "watchdog: consumer parked={} failure applied={} (expected both)",
                ev.get(|f| f.parked[0]),
                ev.get(|f| f.fault)
            ));
        }
        let t_fail = Instant::now();
        let verifier = matches!(case.gate, GateAt::Verifier { .. });
        if verifier && ev.get(|f| f.parked[0] && !f.returned[0]) {
            sample(&sh, "verifier-parked", &work);
        }
        // THE deliberate hold: the gate stays closed for `hold()` of real time after the failure
        // (it ends early only if the pull function returns although its consumer is parked)
        let early = ev.wait(|f| f.returned[0], hold());
        if verifier && !early {
            sample(&sh, "verifier-parked-end-of-hold", &work);
        }
        match case.post {
            Post::None => {}
            Post::RetryPlain => {
                if early {
                    // the retry runs to completion while the old consumer is still parked
                    let _ = ev.wait(|f| f.returned[1] || f.finished, WATCHDOG);
                }
            }
            Post::RetryGated { .. } => {
                if early {
                    let _ = ev.wait(|f| f.parked[1] || f.returned[1] || f.finished, WATCHDOG);
                }
            }
        }
        held = Some(t_fail.elapsed());
        ev.open(0);
        if let Post::RetryGated { .. } = case.post {
            // the retry is parked in its last digest call; the consumer of the failed pull finishes first
            if !ev.wait(|f| f.parked[1] || f.returned[1] || f.finished, WATCHDOG) {
                mach.push("watchdog: the retry never reached its gate".into());
            }
            if !ev.wait(|f| f.done[0] || f.finished, WATCHDOG) {
                mach.push("watchdog: the consumer of the failed pull never finished".into());
            }
            ev.open(1);
        }
    }
    if !ev.wait(|f| f.finished, WATCHDOG + WATCHDOG) {
        mach.push("watchdog: the pull thread never finished".into());
        ev.open(0);
        ev.open(1);
    } else {
        let _ = th.join();
    }
    Ok(collect(case, before, &ev, &sh, &h1, &h2, held, mach))
}

// ------------------------------------------------------------------ blocking pullers (loopback TCP)

fn blocking_pull(cfg: &GCfg, port: u16, dest: &Path, h: &Hooks) -> GRes {
    let r = std::panic::catch_unwind(std::panic::AssertUnwindSafe(|| {
        let client = match Client::connect(("127.0.0.1", port)) {
            Ok(c) => c,
            Err(e) => return GRes::Err(format!("connect: {e}")),
        };
        match cfg.gp {
            GP::Trailer => match vs::pull_to_file_trailer_verified(&client, "r", dest, cfg.trailer, h.digest(), |d: GDigest, t: &[u8]| {
                h.verify(GP::Trailer, d, t)
            }) {
                Ok(()) => GRes::Ok,
                Err(e) => GRes::Err(e.to_string()),
            },
            GP::Consume => match vs::pull_consume(&client, "r", {
                let g = DoneGuard(h.ev.clone(), h.id);
                move |r: &mut dyn Read| h.consume(r, g)
            }) {
                Ok(v) => GRes::OkBytes(v),
                Err(e) => GRes::Err(e.to_string()),
            },
            GP::Verified => GRes::Err("no blocking verified puller".into()),
        }
    }));
    r.unwrap_or_else(|p| GRes::Panic(panic_text(p)))
}

/// Run one blocking-`Client` scenario over loopback TCP (this thread is the controller).
pub fn run_blocking_case(case: &GCase, listener: &std::net::TcpListener) -> Result<Outcome, String> {
    let dir = CaseDir::new().map_err(|e| format!("case dir: {e}"))?;
    let dest = dir.setup_dest(case.dest).map_err(|e| format!("dest setup: {e}"))?;
    let work = dir.work();
    let before = snapshot_dir(&work);
    let ev = new_ev(case);
    let sh = Arc::new(Mutex::new(Shared::default()));
    let h1 = Hooks::new(&ev, 0, case, 1, &dest);
    let h2 = Hooks::new(&ev, 1, case, 2, &dest);
    let mut mach = Vec::new();
    let (script, fail) = script_of(&case.fault);
    let server = srv::start(listener, router(&case.cfg, 1, fail), script, Some(temp_sibling(&dest))).map_err(|e| format!("server: {e}"))?;
    let port = server.port;
    let th = {
        let (cfg, dest, work, ev, sh, h1) = (case.cfg.clone(), dest.clone(), work.clone(), ev.clone(), sh.clone(), h1.clone());
        let gated = case.gate != GateAt::None;
        std::thread::Builder::new()
            .name("c10-gate-bpull".into())
            .spawn(move || {
                let r = blocking_pull(&cfg, port, &dest, &h1);
                let dir = snapshot_dir(&work);
                let open_now = ev.get(|f| f.open[0]);
                let mut s = sh.lock().unwrap();
                s.samples.push(Sample { label: "at-return", dir });
                s.r1 = Some(r);
                s.returned_while_parked = gated && !open_now;
                drop(s);
                ev.set(|f| f.returned[0] = true);
            })
            .map_err(|e| format!("spawn: {e}"))?
    };
    let mut held = None;
    if case.gate != GateAt::None {
        if !ev.wait(|f| f.parked[0] || f.returned[0], WATCHDOG) {
            mach.push("watchdog: the consumer never parked".into());
        }
        let t0 = Instant::now();
        if ev.get(|f| f.parked[0] && !f.returned[0]) {
            if case.fault == GFault::CutWhileParked {
                if !server.cut_now() || !server.wait_ended(WATCHDOG) {
                    mach.push("the connection could not be cut while the consumer was parked".into());
                }
                ev.set(|f| f.fault = true);
            }
            if matches!(case.gate, GateAt::Verifier { .. }) {
                sample(&sh, "verifier-parked", &work);
                // short deliberate hold (the 7 s hold is exercised by the in-memory rows)
                let _ = ev.wait(|f| f.returned[0], AFTER_OPEN);
                if !ev.get(|f| f.returned[0]) {
                    sample(&sh, "verifier-parked-end-of-hold", &work);
                }
            }
        }
        held = Some(t0.elapsed());
        ev.open(0);
    }
    if !ev.wait(|f| f.returned[0], WATCHDOG) {
        mach.push("watchdog: the blocking pull never returned".into());
        ev.open(0);
        let log = server.finish();
        sh.lock().unwrap().log1 = Some(log);
        return Ok(collect(case, before, &ev, &sh, &h1, &h2, held, mach));
    }
    let _ = th.join();
    let log1 = server.finish();
    sh.lock().unwrap().log1 = Some(log1);
    if case.post != Post::None {
        // the blocking consumer ran inline: nothing of the failed pull is left running; the
        // retry is simply the next pull of the same destination in the same process
        let server2 = srv::start(listener, router(&case.cfg, 2, None), srv::Script::default(), Some(temp_sibling(&dest))).map_err(|e| format!("server: {e}"))?;
        let r2 = blocking_pull(&case.cfg, server2.port, &dest, &h2);
        sample(&sh, "retry-at-return", &work);
        let log2 = server2.finish();
        let mut s = sh.lock().unwrap();
        s.r2 = Some(r2);
        s.log2 = Some(log2);
    }
    sample(&sh, "joined", &work);
    Ok(collect(case, before, &ev, &sh, &h1, &h2, held, mach))
}

pub fn run_case(case: &GCase, listener: Option<&std::net::TcpListener>) -> Result<Outcome, String> {
    match case.cfg.kind {
        Kind::Blocking => match listener {
            Some(l) => run_blocking_case(case, l),
            None => {
                let l = srv::new_listener().map_err(|e| format!("cannot bind a loopback listener: {e}"))?;
                run_blocking_case(case, &l)
            }
        },
        _ => run_mem_case(case),
    }
}

// ------------------------------------------------------------------ oracle

pub struct Bad {
    /// empty = a remark outside the property
    pub key: String,
    pub what: String,
}

fn describe(case: &GCase, o: &Outcome) -> String {
    let c = &case.cfg;
    format!(
        "{} zstd={} n={} piece={} chunk={} trailer={} dest={:?} fault={:?} gate={:?} post={:?}: result={:?}{}; producer sent {} chunk(s), last={}; consumer parked={} failure-while-parked={} returned-while-parked={}",
        c.name(),
        c.zstd,
        c.n,
        c.piece,
        c.chunk,
        c.trailer,
        case.dest,
        case.fault,
        case.gate,
        case.post,
        o.r1,
        o.r2.as_ref().map(|r| format!(" retry={r:?}")).unwrap_or_default(),
        o.log1.chunks.len(),
        o.log1.last_sent(),
        o.parked,
        o.fault_seen,
        o.returned_while_parked
    )
}

/// Every clause is a sentence of the property statement (see the comments).
pub fn judge(case: &GCase, o: &Outcome) -> Vec<Bad> {
    let mut bad = Vec::new();
    let cfg = &case.cfg;
    let p = cfg.name();
    let fc = case.fault.class();
    let gc = case.gate.class();
    let dest_name = DEST_NAME.to_string();
    let complete1 = o.log1.last_sent();
    let content_ok1 = !matches!(case.gate, GateAt::Verifier { accept: false });
    let file1 = published(cfg, 1);
    let file2 = published(cfg, 2);
    let ctx = || describe(case, o);
    // ---- the value / verdict of the first pull
    match &o.r1 {
        GRes::OkBytes(v) => {
            // "a value-decoding pull returns an error rather than a value built from a truncated stream"
            let full = content(cfg, 1);
            if !complete1 {
                bad.push(Bad { key: format!("C10:gate:value-from-truncated-stream:{fc}:{gc}:{p}"), what: ctx() });
            } else if *v != full {
                if v.len() < full.len() && full.starts_with(v) {
                    bad.push(Bad {
                        key: format!("C10:gate:value-from-truncated-stream:{fc}:{gc}:{p}"),
                        what: format!("{} ; the value is the first {} of {} bytes of a stream that was delivered completely", ctx(), v.len(), full.len()),
                    });
                } else {
                    bad.push(Bad { key: String::new(), what: format!("note: the consumed bytes differ although the whole stream arrived: {}", ctx()) });
                }
            }
        }
        GRes::Ok => {
            // "publishes the destination only after the whole stream arrived, passed any caller-supplied verification"
            if !(complete1 && content_ok1) {
                let why = if !complete1 { "incomplete-stream" } else { "verification-must-reject" };
                bad.push(Bad { key: format!("C10:gate:ok-on-failed-pull:{why}:{fc}:{gc}:{p}"), what: ctx() });
            }
        }
        _ => {}
    }
    // ---- the directory at every sampling point
    let before_dest = o.before.get(&dest_name);
    let r1_ok = o.r1.is_ok();
    let mut reported: BTreeSet<String> = BTreeSet::new();
    for s in &o.samples {
        let now_dest = s.dir.get(&dest_name);
        let when = match s.label {
            "at-return" => "at-return",
            "verifier-parked" | "verifier-parked-end-of-hold" => "verifier-parked",
            "retry-at-return" => "retry-at-return",
            _ => "after-return",
        };
        let post_retry = o.r2.is_some() && matches!(s.label, "retry-at-return" | "consumer-finished" | "joined");
        if when == "verifier-parked" {
            // "publishes the destination only after the whole stream arrived, passed any caller-supplied
            //  verification": the verifier has not answered yet (the temp sibling may of course exist)
            if now_dest != before_dest {
                let key = format!("C10:gate:published-while-verifier-parked:{p}");
                if reported.insert(key.clone()) {
                    bad.push(Bad {
                        key,
                        what: format!("{} ; at '{}' the destination was {} although it was {} before the pull", ctx(), s.label, show_entry(now_dest), show_entry(before_dest)),
                    });
                }
            }
            continue;
        }
        if post_retry {
            let r2_ok = o.r2.as_ref().map(|r| r.is_ok()).unwrap_or(false);
            if r2_ok {
                // "the destination then holds exactly the complete content" — and keeps holding it
                // once every consumer of the earlier, failed pull has finished
                if cfg.is_file() && now_dest != Some(&Entry::File(file2.clone())) {
                    let key = format!("C10:gate:retry-content-wrong:{when}:{fc}:{p}");
                    if reported.insert(key.clone()) {
                        bad.push(Bad {
                            key,
                            what: format!(
                                "{} ; at '{}' the destination is {} but the retry's complete content is file[{}]{}",
                                ctx(),
                                s.label,
                                show_entry(now_dest),
                                file2.len(),
                                hex(&file2[..file2.len().min(24)])
                            ),
                        });
                    }
                }
            } else {
                // the retry failed: its own failure must leave the destination as the first pull left it
                let want = if r1_ok { Some(Entry::File(file1.clone())) } else { before_dest.cloned() };
                if cfg.is_file() && now_dest != want.as_ref() {
                    let key = format!("C10:gate:dest-changed-on-failure:{when}:{fc}:{p}");
                    if reported.insert(key.clone()) {
                        bad.push(Bad { key, what: format!("{} ; at '{}' the destination is {}", ctx(), s.label, show_entry(now_dest)) });
                    }
                }
            }
            continue;
        }
        if r1_ok {
            if cfg.is_file() {
                // "the destination then holds exactly the complete content (with a verified trailer stripped)"
                if now_dest != Some(&Entry::File(file1.clone())) {
                    let key = format!("C10:gate:published-content-wrong:{when}:{fc}:{gc}:{p}");
                    if reported.insert(key.clone()) {
                        bad.push(Bad {
                            key,
                            what: format!(
                                "{} ; at '{}' the destination is {} but the complete content is file[{}]{}",
                                ctx(),
                                s.label,
                                show_entry(now_dest),
                                file1.len(),
                                hex(&file1[..file1.len().min(24)])
                            ),
                        });
                    }
                } else {
                    let mut want = o.before.clone();
                    want.insert(dest_name.clone(), Entry::File(file1.clone()));
                    if s.dir != want && reported.insert("stray".into()) {
                        bad.push(Bad { key: String::new(), what: format!("note: stray file after a successful pull: {} ; directory holds {:?}", ctx(), s.dir.keys().collect::<Vec<_>>()) });
                    }
                }
            }
        } else {
            // "the destination path is left exactly as it was (absent, or its previous content)"
            if now_dest != before_dest {
                let key = format!("C10:gate:dest-changed-on-failure:{when}:{fc}:{gc}:{p}");
                if reported.insert(key.clone()) {
                    bad.push(Bad {
                        key,
                        what: format!("{} ; at '{}' the destination was {} and is now {}", ctx(), s.label, show_entry(before_dest), show_entry(now_dest)),
                    });
                }
            } else if s.dir != o.before {
                // "a failed in-process pull leaves no temporary file": from the moment it returned
                let extra: Vec<_> = s.dir.iter().filter(|(k, v)| o.before.get(*k) != Some(v)).map(|(k, _)| k.clone()).collect();
                let key = format!("C10:gate:temp-left-on-failure:{when}:{fc}:{gc}:{p}");
                if reported.insert(key.clone()) {
                    bad.push(Bad { key, what: format!("{} ; at '{}' the directory holds {:?}", ctx(), s.label, extra) });
                }
            }
        }
    }
    // ---- the retry itself
    if let Some(r2) = &o.r2 {
        let complete2 = o.log2.as_ref().map(|l| l.last_sent()).unwrap_or(false);
        match r2 {
            GRes::Ok | GRes::OkBytes(_) => {}
            _ if complete2 => {
                // the healthy stream arrived completely and passed verification, and yet the pull
                // did not publish it: "the destination then holds exactly the complete content"
                bad.push(Bad { key: format!("C10:gate:retry-not-published:{fc}:{p}"), what: ctx() });
            }
            _ => bad.push(Bad { key: String::new(), what: format!("note: the retry failed before its stream was delivered: {}", ctx()) }),
        }
    }
    // ---- what was verified is what was published; the verifier ran before publication
    if cfg.is_file() {
        let l = content(cfg, 1);
        let t = if cfg.gp == GP::Trailer { cfg.trailer } else { 0 };
        if o.r1 == GRes::Ok && (o.seen1.calls != 1 || o.seen1.digest != file1 || o.seen1.trailer != l[l.len() - t..]) {
            bad.push(Bad {
                key: format!("C10:gate:verify-inputs-differ-from-published:{p}"),
                what: format!("{} ; verify calls={} digest saw [{}]{} trailer {}", ctx(), o.seen1.calls, o.seen1.digest.len(), hex(&o.seen1.digest[..o.seen1.digest.len().min(24)]), hex(&o.seen1.trailer)),
            });
        }
        if o.seen1.calls > 0 && o.seen1.dest_at_verify.as_ref() != before_dest {
            bad.push(Bad {
                key: format!("C10:gate:published-before-verify:{p}"),
                what: format!("{} ; when verify ran the destination already was {}", ctx(), show_entry(o.seen1.dest_at_verify.as_ref())),
            });
        }
        if o.r2 == Some(GRes::Ok) {
            let l2 = content(cfg, 2);
            if o.seen2.calls != 1 || o.seen2.digest != file2 || o.seen2.trailer != l2[l2.len() - t..] {
                bad.push(Bad {
                    key: format!("C10:gate:verify-inputs-differ-from-published:retry:{p}"),
                    what: format!("{} ; retry verify calls={} digest saw [{}]{}", ctx(), o.seen2.calls, o.seen2.digest.len(), hex(&o.seen2.digest[..o.seen2.digest.len().min(24)])),
                });
            }
            let want = if r1_ok { Some(Entry::File(file1.clone())) } else { before_dest.cloned() };
            if o.seen2.calls > 0 && o.seen2.dest_at_verify != want {
                bad.push(Bad {
                    key: format!("C10:gate:published-before-verify:retry:{p}"),
                    what: format!("{} ; when the retry's verify ran the destination was {}", ctx(), show_entry(o.seen2.dest_at_verify.as_ref())),
                });
            }
        }
    }
    bad
}

// ------------------------------------------------------------------ enumeration

#[derive(Default)]
pub struct GStats {
    pub rows: u64,
    pub pulls: u64,
    pub by_family: BTreeMap<String, u64>,
    pub by_client: BTreeMap<String, u64>,
    pub by_puller: BTreeMap<String, u64>,
    pub by_fault: BTreeMap<String, u64>,
    pub ok_rows: u64,
    pub err_rows: u64,
    pub panics: u64,
    /// gated rows whose consumer really parked
    pub parked_rows: u64,
    /// gated fault rows where the failure was applied while the consumer was parked
    pub failed_while_parked: u64,
    /// of those: the pull function returned only after the gate was opened (the unchanged code)
    pub returned_after_gate_open: u64,
    /// the pull function returned while its consumer was still parked
    pub returned_while_parked: u64,
    pub held_full_hold: u64,
    pub samples_taken: u64,
    pub samples_at_return: u64,
    pub samples_after_open: u64,
    pub samples_joined: u64,
    pub retries_ok: u64,
    pub retries_gated_parked: u64,
    pub verifier_parked_samples: u64,
    pub verifier_parked_with_complete_temp: u64,
    pub verifier_accepts: u64,
    pub verifier_rejects: u64,
    pub consume_errs_while_reading: u64,
    pub consume_ok_complete: u64,
    pub backpressure_rows_ok: u64,
    pub backpressure_max_chunks: u64,
    pub compressed_rows: u64,
    pub max_digest_calls: u64,
    pub nontrivial: BTreeSet<String>,
    pub machinery: Vec<String>,
    pub remarks: Vec<String>,
    pub expected_ok_failed: Vec<String>,
    pub waves: u64,
    pub max_concurrent: u64,
    pub sample_candidates: BTreeMap<(u64, u64), Value>,
}

fn base_cfgs(tier: Tier, big: bool) -> Vec<GCfg> {
    let mut v = Vec::new();
    let shapes: Vec<(usize, usize)> = if big {
        // (n, trailer) of the healthy streams pulled by a consumer parked at its first call: more wire
        // chunks than the pull loop may buffer ahead of its consumer (the loop is back-pressured for the
        // whole hold), and few enough that the loop has finished and gone while the consumer is parked
        tier.pick(vec![(33, 3), (17, 3)], vec![(33, 3), (61, 5), (17, 3), (9, 3)])
    } else {
        tier.pick(vec![(21, 3)], vec![(21, 3), (21, 1), (14, 3)])
    };
    for kind in [Kind::Async, Kind::Ws, Kind::Blocking] {
        for gp in [GP::Verified, GP::Trailer, GP::Consume] {
            if kind == Kind::Blocking && gp == GP::Verified {
                continue;
            }
            for zstd in [false, true] {
                for &(n, trailer) in &shapes {
                    // (the trailer length only matters to the trailer puller: duplicates are removed below)
                    v.push(GCfg { kind, gp, zstd, n, piece: 4, chunk: if zstd { 8 } else { 4 }, trailer: if gp == GP::Trailer { trailer } else { 0 } });
                }
            }
        }
    }
    v.sort();
    v.dedup();
    v
}

fn positions(u: usize, tier: Tier) -> Vec<usize> {
    if u == 0 {
        return Vec::new();
    }
    let mut v = match tier {
        Tier::Quick => vec![1, u.div_ceil(2), u],
        _ => (1..=u).collect(),
    };
    v.sort();
    v.dedup();
    v
}

/// The fault rows of one configuration, from its MEASURED fault-free shape: at most 4 chunks
/// are delivered before the failure, so the pull loop reaches the failure whatever the parked
/// consumer has already taken (the loop may buffer a few chunks ahead of its consumer).
fn faults_for(cfg: &GCfg, nexts: usize, tier: Tier) -> Vec<GFault> {
    let mut v = Vec::new();
    let dmax = 4.min(nexts.saturating_sub(1));
    let ds: Vec<usize> = match tier {
        Tier::Quick => vec![dmax],
        _ => (1..=dmax).collect(),
    };
    for &d in &ds {
        if d == 0 {
            continue;
        }
        v.push(GFault::CutAfterResponse { k: 1 + d });
        v.push(GFault::NextError { k: d + 1 });
    }
    let ps: Vec<usize> = match tier {
        Tier::Quick => vec![4 * cfg.piece + 1],
        _ => vec![2 * cfg.piece + 1, 3 * cfg.piece, 4 * cfg.piece + 1],
    };
    for p in ps {
        if p < cfg.n {
            v.push(GFault::ProducerFail { p });
        }
    }
    v
}

struct Probe {
    case: GCase,
    calls: usize,
    delivered: usize,
    nexts: usize,
}

fn record(ctx: &Ctx, stats: &Mutex<GStats>, samples: &Samples, case: &GCase, o: &Outcome, offer: Option<(u64, u64)>) {
    let bad = judge(case, o);
    let case_json = json!({"part": "gate", "case": serde_json::to_value(case).unwrap()});
    let mut remarks = Vec::new();
    for b in &bad {
        if b.key.is_empty() {
            remarks.push(b.what.clone());
        } else {
            ctx.violation(b.key.clone(), b.what.clone(), case_json.clone());
        }
    }
    let mut s = stats.lock().unwrap();
    s.remarks.extend(remarks);
    for m in &o.machinery {
        s.machinery.push(format!("{m} :: {}", describe(case, o)));
    }
    s.rows += 1;
    s.pulls += 1 + o.r2.is_some() as u64;
    *s.by_family.entry(case.family().to_string()).or_default() += 1;
    *s.by_client.entry(case.cfg.client_name().to_string()).or_default() += 1;
    *s.by_puller.entry(case.cfg.puller_name().to_string()).or_default() += 1;
    *s.by_fault.entry(case.fault.class().to_string()).or_default() += 1;
    match &o.r1 {
        r if r.is_ok() => s.ok_rows += 1,
        GRes::Panic(_) => {
            s.panics += 1;
            s.err_rows += 1;
        }
        _ => s.err_rows += 1,
    }
    if case.cfg.zstd {
        s.compressed_rows += 1;
    }
    s.max_digest_calls = s.max_digest_calls.max(o.calls1 as u64);
    let gated = case.gate != GateAt::None;
    if gated && o.parked {
        s.parked_rows += 1;
    }
    let fault = case.fault != GFault::None;
    if gated && fault && o.parked && o.fault_seen {
        s.failed_while_parked += 1;
        if !o.returned_while_parked {
            s.returned_after_gate_open += 1;
        }
    }
    if o.returned_while_parked {
        s.returned_while_parked += 1;
    }
    if case.cfg.kind != Kind::Blocking && gated && o.held.map(|h| h >= hold()).unwrap_or(false) {
        s.held_full_hold += 1;
    }
    s.samples_taken += o.samples.len() as u64;
    for sm in &o.samples {
        match sm.label {
            "at-return" => s.samples_at_return += 1,
            "300ms-after-gate-open" => s.samples_after_open += 1,
            "joined" => s.samples_joined += 1,
            "verifier-parked" | "verifier-parked-end-of-hold" => {
                s.verifier_parked_samples += 1;
                let temp = super::temp_name().to_string();
                if sm.dir.get(&temp) == Some(&Entry::File(published(&case.cfg, 1))) {
                    s.verifier_parked_with_complete_temp += 1;
                }
            }
            _ => {}
        }
    }
    if let Some(r2) = &o.r2 {
        if r2.is_ok() {
            s.retries_ok += 1;
        }
        if matches!(case.post, Post::RetryGated { .. }) && o.parked2 {
            s.retries_gated_parked += 1;
        }
    }
    if let GateAt::Verifier { accept } = case.gate {
        if o.seen1.calls > 0 {
            if accept && o.r1.is_ok() {
                s.verifier_accepts += 1;
            }
            if !accept && !o.r1.is_ok() {
                s.verifier_rejects += 1;
            }
        }
    }
    if case.cfg.gp == GP::Consume {
        if fault && gated && o.parked && !o.r1.is_ok() {
            s.consume_errs_while_reading += 1;
        }
        if matches!(&o.r1, GRes::OkBytes(v) if *v == content(&case.cfg, 1)) {
            s.consume_ok_complete += 1;
        }
    }
    if case.family() == "E:back-pressure" && o.r1.is_ok() && o.parked {
        s.backpressure_rows_ok += 1;
        s.backpressure_max_chunks = s.backpressure_max_chunks.max(o.log1.chunks.len() as u64);
    }
    // a healthy stream with an accepting verifier must be pulled successfully (else the harness is broken)
    let must_succeed = !fault && !matches!(case.gate, GateAt::Verifier { accept: false });
    if must_succeed && !o.r1.is_ok() {
        s.expected_ok_failed.push(format!("{case:?} -> {:?}", o.r1));
    }
    s.nontrivial.insert(format!(
        "{}|{}|{}|{}|{:?}|{}|{}",
        case.cfg.name(),
        case.fault.class(),
        case.gate.class(),
        match case.post {
            Post::None => "no-retry",
            Post::RetryPlain => "retry",
            Post::RetryGated { .. } => "retry-gated",
        },
        case.dest,
        o.r1.class(),
        o.r2.as_ref().map(|r| r.class()).unwrap_or("-")
    ));
    drop(s);
    let _ = samples;
    let Some((idx, total)) = offer else { return };
    let stride = total.div_ceil(3).max(1);
    if idx % stride == 0 {
        // (chosen by index and emitted in index order at the end: the evidence does not depend on
        // which scenario thread finishes first)
        let phase = (case.cfg.kind != Kind::Blocking) as u64;
        let v = (|| {
            json!({"part": "gate", "case": serde_json::to_value(case).unwrap(), "family": case.family(), "result": o.r1.class(),
                   "retry": o.r2.as_ref().map(|r| r.class()), "consumer_parked": o.parked, "failure_applied_while_parked": o.fault_seen && o.parked,
                   "pull_returned_while_parked": o.returned_while_parked, "chunks_sent": o.log1.chunks.len(),
                   "sampling_points": o.samples.iter().map(|s| json!({"at": s.label, "dir": s.dir.keys().collect::<Vec<_>>()})).collect::<Vec<_>>()})
        })();
        stats.lock().unwrap().sample_candidates.insert((phase, idx), v);
    }
}

fn nofile_limit() -> u64 {
    let mut r = libc::rlimit { rlim_cur: 0, rlim_max: 0 };
    // SAFETY: plain getrlimit call on a local struct
    if unsafe { libc::getrlimit(libc::RLIMIT_NOFILE, &mut r) } == 0 { r.rlim_cur as u64 } else { 1024 }
}

pub fn run_gate(ctx: &Ctx, tier: Tier, samples: &Samples) -> (GStats, Value) {
    let stats = Mutex::new(GStats::default());
    let mk = |_w: usize| match srv::new_listener() {
        Ok(l) => l,
        Err(e) => ctx.machinery(format!("cannot bind a loopback listener: {e}")),
    };
    // ---- phase 1: ungated probes (they are rows of their own: both clients, every fault) that
    //      MEASURE how often the consumer's hook is called and how many chunks are delivered
    let mut probes: Vec<GCase> = Vec::new();
    for cfg in base_cfgs(tier, false).into_iter().chain(base_cfgs(tier, true)) {
        let dest = DestKind::Absent;
        probes.push(GCase { cfg, dest, fault: GFault::None, gate: GateAt::None, post: Post::None });
    }
    let run_probes = |cases: &[GCase]| -> Vec<Probe> {
        let out: Vec<Mutex<Option<Probe>>> = cases.iter().map(|_| Mutex::new(None)).collect();
        crate::par::for_each_index(cases.len() as u64, 1, mk, |l, i| {
            let case = &cases[i as usize];
            match run_case(case, Some(l)) {
                Ok(o) => {
                    record(ctx, &stats, samples, case, &o, None);
                    *out[i as usize].lock().unwrap() =
                        Some(Probe { case: case.clone(), calls: o.calls1, delivered: o.log1.chunks.len(), nexts: o.log1.chunks.len() + o.log1.next_errors });
                }
                Err(e) => stats.lock().unwrap().machinery.push(e),
            }
        });
        out.into_iter().filter_map(|m| m.into_inner().unwrap()).collect()
    };
    let free = run_probes(&probes);
    let healthy_ns: BTreeSet<usize> = base_cfgs(tier, true).iter().map(|c| c.n).collect();
    let mut fault_probes: Vec<GCase> = Vec::new();
    for p in &free {
        if p.case.cfg.kind == Kind::Blocking || healthy_ns.contains(&p.case.cfg.n) {
            continue;
        }
        for f in faults_for(&p.case.cfg, p.nexts, tier) {
            fault_probes.push(GCase { fault: f, ..p.case.clone() });
        }
    }
    let faulted = run_probes(&fault_probes);
    if std::env::var("VERIF_C10_DEBUG").is_ok() {
        for p in free.iter().chain(faulted.iter()) {
            eprintln!("[C10 gate probe] {} zstd={} n={} trailer={} fault={:?}: hook calls={} chunks delivered={}", p.case.cfg.name(), p.case.cfg.zstd, p.case.cfg.n, p.case.cfg.trailer, p.case.fault, p.calls, p.delivered);
        }
    }
    // ---- phase 2: the gated rows
    let mut mem_rows: Vec<GCase> = Vec::new();
    let mut blk_rows: Vec<GCase> = Vec::new();
    let u_full: BTreeMap<GCfg, usize> = free.iter().map(|p| (p.case.cfg.clone(), p.calls)).collect();
    for p in &faulted {
        let cfg = &p.case.cfg;
        if p.delivered > 4 {
            stats.lock().unwrap().machinery.push(format!("harness assumption: {} chunks delivered before {:?} of {cfg:?}", p.delivered, p.case.fault));
            continue;
        }
        let full = *u_full.get(cfg).unwrap_or(&0);
        for k in positions(p.calls, tier) {
            if cfg.gp == GP::Consume {
                // family D
                mem_rows.push(GCase { gate: GateAt::Read { call: k }, ..p.case.clone() });
                continue;
            }
            // families A and B (reduced product of destination x retry mode)
            let combos: Vec<(DestKind, Post)> = match tier {
                Tier::Quick => vec![
                    (DestKind::Absent, Post::None),
                    (DestKind::Existing, Post::None),
                    (DestKind::Existing, Post::RetryPlain),
                    (DestKind::Absent, Post::RetryGated { call: full }),
                ],
                _ => vec![
                    (DestKind::Absent, Post::None),
                    (DestKind::Existing, Post::None),
                    (DestKind::Absent, Post::RetryPlain),
                    (DestKind::Existing, Post::RetryPlain),
                    (DestKind::Absent, Post::RetryGated { call: full }),
                    (DestKind::Existing, Post::RetryGated { call: full }),
                ],
            };
            for (dest, post) in combos {
                mem_rows.push(GCase { dest, post, gate: GateAt::Digest { call: k }, ..p.case.clone() });
            }
        }
    }
    for p in &free {
        let cfg = &p.case.cfg;
        let big = healthy_ns.contains(&cfg.n);
        if cfg.kind == Kind::Blocking {
            if big {
                continue;
            }
            for k in positions(p.calls, tier) {
                if cfg.gp == GP::Consume {
                    blk_rows.push(GCase { fault: GFault::CutWhileParked, gate: GateAt::Read { call: k }, ..p.case.clone() });
                } else {
                    for (dest, post) in [(DestKind::Absent, Post::None), (DestKind::Existing, Post::None), (DestKind::Existing, Post::RetryPlain), (DestKind::Absent, Post::RetryPlain)] {
                        blk_rows.push(GCase { dest, post, fault: GFault::CutWhileParked, gate: GateAt::Digest { call: k }, ..p.case.clone() });
                    }
                }
            }
            if cfg.gp == GP::Trailer {
                for dest in [DestKind::Absent, DestKind::Existing] {
                    for accept in [true, false] {
                        blk_rows.push(GCase { dest, gate: GateAt::Verifier { accept }, ..p.case.clone() });
                    }
                }
            }
            continue;
        }
        if big {
            // family E: parked at the very first call while the whole (healthy) stream arrives
            if p.calls >= 1 {
                let gate = if cfg.gp == GP::Consume { GateAt::Read { call: 1 } } else { GateAt::Digest { call: 1 } };
                mem_rows.push(GCase { gate, ..p.case.clone() });
            }
        } else if cfg.gp != GP::Consume {
            // family C
            for dest in [DestKind::Absent, DestKind::Existing] {
                for accept in [true, false] {
                    mem_rows.push(GCase { dest, gate: GateAt::Verifier { accept }, ..p.case.clone() });
                }
            }
        }
    }
    mem_rows.sort();
    mem_rows.dedup();
    blk_rows.sort();
    blk_rows.dedup();
    // ---- phase 3a: blocking rows, worker pool
    let nb = blk_rows.len() as u64;
    crate::par::for_each_index(nb, 1, mk, |l, i| {
        let case = &blk_rows[i as usize];
        match run_case(case, Some(l)) {
            Ok(o) => record(ctx, &stats, samples, case, &o, Some((i, nb))),
            Err(e) => stats.lock().unwrap().machinery.push(e),
        }
    });
    // ---- phase 3b: in-memory rows, ALL CONCURRENTLY (one controller thread + one pull thread
    //      with its own runtime each), in waves bounded by the descriptor limit
    let cap = (nofile_limit().saturating_sub(256) / 10).clamp(16, tier.pick(1024, 768)) as usize;
    let total = mem_rows.len() as u64;
    let mut done = 0u64;
    for wave in mem_rows.chunks(cap.max(1)) {
        {
            let mut s = stats.lock().unwrap();
            s.waves += 1;
            s.max_concurrent = s.max_concurrent.max(wave.len() as u64);
        }
        std::thread::scope(|scope| {
            for (j, case) in wave.iter().enumerate() {
                let stats = &stats;
                let idx = done + j as u64;
                let spawned = std::thread::Builder::new().name("c10-gate-ctl".into()).stack_size(1 << 20).spawn_scoped(scope, move || match run_mem_case(case) {
                    Ok(o) => record(ctx, stats, samples, case, &o, Some((idx, total))),
                    Err(e) => stats.lock().unwrap().machinery.push(e),
                });
                if let Err(e) = spawned {
                    stats.lock().unwrap().machinery.push(format!("spawn: {e}"));
                }
            }
        });
        done += wave.len() as u64;
    }
    let mut s = stats.into_inner().unwrap();
    for (_, v) in std::mem::take(&mut s.sample_candidates) {
        samples.offer(|| v);
    }
    let cov = json!({
        "rows": s.rows,
        "pulls_executed": s.pulls,
        "rows_by_family": s.by_family,
        "rows_by_client": s.by_client,
        "rows_by_puller": s.by_puller,
        "rows_by_fault": s.by_fault,
        "compressed_rows": s.compressed_rows,
        "ok_rows": s.ok_rows,
        "err_rows": s.err_rows,
        "panics": s.panics,
        "gated_rows_with_consumer_really_parked": s.parked_rows,
        "failure_applied_while_consumer_parked": s.failed_while_parked,
        "of_those_pull_returned_only_after_the_gate_opened": s.returned_after_gate_open,
        "pull_returned_while_its_consumer_was_parked": s.returned_while_parked,
        "in_memory_gated_rows_held_for_the_full_hold": s.held_full_hold,
        "hold_ms": hold().as_millis() as u64,
        "directory_samples": s.samples_taken,
        "samples_at_the_moment_the_pull_returned": s.samples_at_return,
        "samples_300ms_after_gate_open": s.samples_after_open,
        "samples_after_joining_every_consumer_thread": s.samples_joined,
        "retries_published": s.retries_ok,
        "gated_retries_that_parked": s.retries_gated_parked,
        "samples_while_verifier_parked": s.verifier_parked_samples,
        "of_those_with_the_complete_temp_sibling_present": s.verifier_parked_with_complete_temp,
        "gated_verifier_accepted_and_published": s.verifier_accepts,
        "gated_verifier_rejected_and_failed": s.verifier_rejects,
        "consume_pulls_failed_while_the_closure_was_reading": s.consume_errs_while_reading,
        "consume_pulls_complete_value": s.consume_ok_complete,
        "back_pressure_rows_ok": s.backpressure_rows_ok,
        "back_pressure_max_chunks_in_a_stream": s.backpressure_max_chunks,
        "max_hook_calls_in_one_pull": s.max_digest_calls,
        "concurrent_waves": s.waves,
        "max_concurrent_scenarios": s.max_concurrent,
    });
    (s, cov)
}

impl GStats {
    pub fn vacuity(&self) -> Option<String> {
        let fam = |f: &str| self.by_family.get(f).copied().unwrap_or(0);
        let cl = |f: &str| self.by_client.get(f).copied().unwrap_or(0);
        let checks: [(&str, bool); 16] = [
            ("no family A row", fam("A:gated-digest+fault") == 0),
            ("no family B row", fam("B:gated-digest+fault+retry") == 0),
            ("no family C row", fam("C:gated-verifier") == 0),
            ("no family D row", fam("D:gated-consume+fault") == 0),
            ("no family E row", fam("E:back-pressure") == 0),
            ("no WebSocketClient row", cl("WebSocketClient") == 0),
            ("no AsyncClient row", cl("AsyncClient") == 0),
            ("no blocking row", cl("Client") == 0),
            ("no failure was applied while a consumer was parked", self.failed_while_parked == 0),
            ("no gated row was held for the full hold", self.held_full_hold == 0),
            ("no retry published", self.retries_ok == 0),
            ("no gated retry parked", self.retries_gated_parked == 0),
            ("the verifier was never sampled while parked with the complete temp file present", self.verifier_parked_with_complete_temp == 0),
            ("no gated verifier accepted / rejected", self.verifier_accepts == 0 || self.verifier_rejects == 0),
            ("no consume pull failed while reading", self.consume_errs_while_reading == 0),
            ("no back-pressure row", self.backpressure_rows_ok == 0 || self.backpressure_max_chunks < 6),
        ];
        checks.iter().find(|c| c.1).map(|c| c.0.to_string())
    }
}

pub fn replay(case: &Value) -> Result<(), String> {
    let c: GCase = serde_json::from_value(case["case"].clone()).map_err(|e| e.to_string())?;
    let o = run_case(&c, None)?;
    if !o.machinery.is_empty() {
        return Err(format!("machinery: {}", o.machinery.join("; ")));
    }
    let bad: Vec<_> = judge(&c, &o).into_iter().filter(|b| !b.key.is_empty()).collect();
    if bad.is_empty() { Ok(()) } else { Err(bad.iter().map(|b| format!("{} :: {}", b.key, b.what)).collect::<Vec<_>>().join("\n")) }
}
