//! C02, second phase: a selection of hostile headers sent over real loopback TCP
//! to `repe::Server` and `repe::AsyncServer` (as a request) and to `repe::Client`
//! and `repe::AsyncClient` (as the response to a pending call).
//!
//! Third group of endpoints: the same hostile bytes (plus WebSocket-only ones: a valid
//! frame with trailing bytes, a frame cut short) sent as ONE binary
//! WebSocket message to a real `WebSocketServer` connection and to
//! `proxy_connection_with_limits`, and as the response to a pending `WebSocketClient`
//! call, over in-memory streams on a paused clock (a WebSocket message is a complete
//! unit, so no hostile payload may be treated as a parsed frame: no non-error answer, nothing
//! forwarded upstream, no Ok for the pending call, no panic, fresh connections still served.
//! What the endpoint does *instead* (end the connection, answer with an error, or skip the
//! message) is not C02's business: "left open" outcomes are counted, not judged).
//!
//! Runs inside a worker process (`mc C02 --worker net <from> <to>`): the servers
//! live in this process, so an abort kills only the worker and the parent blames
//! the announced scenario.
//!
//! Oracle per scenario (only *predicted positive events* are waited for, 10 s):
//!  * no thread of the process panics (global panic hook) and the process survives;
//!  * server: after the hostile bytes the connection is closed by the server or
//!    answered with an error frame, and a fresh connection is still served;
//!  * client: the pending call returns an error (it neither hangs nor returns Ok).

use crate::frames::{HEADER, Hdr, SPEC};
use serde_json::{Value, json};
use std::io::{Read, Write};
use std::net::{Shutdown, TcpListener, TcpStream};
use std::sync::Mutex;
use std::sync::atomic::{AtomicU64, Ordering};
use std::time::Duration;

const WAIT: Duration = Duration::from_secs(10);
pub const ENDPOINTS: [&str; 7] = ["Server", "AsyncServer", "Client", "AsyncClient", "WebSocketServer", "WebSocketProxy", "WebSocketClient"];
pub const TCP_ENDPOINTS: usize = 4;

pub struct Hostile {
    pub name: String,
    pub bytes: Vec<u8>,
    /// true: the endpoint has to react to these bytes by itself (the header can never become
    /// a frame); false: the bytes are a truncated but so far consistent frame, the harness
    /// closes its sending side after them
    pub rejectable: bool,
    /// only meaningful as one WebSocket binary message (on a byte stream the same bytes are
    /// a valid frame followed by the beginning of another)
    pub ws_only: bool,
    /// sent as a text message instead of a binary one (WebSocket endpoints only)
    pub text: bool,
}

pub fn applicable(ep: usize, h: &Hostile) -> bool {
    ep >= TCP_ENDPOINTS || !h.ws_only
}

pub fn applicable_counts() -> (usize, usize) {
    let hs = hostiles();
    let tcp = hs.iter().filter(|h| !h.ws_only).count();
    (tcp, hs.len())
}

pub fn hostiles() -> Vec<Hostile> {
    let mx = u64::MAX;
    let base = Hdr { spec: SPEC, version: 1, id: 1, query_format: 1, body_format: 2, ..Default::default() };
    let mut v = Vec::new();
    let mut add = |name: &str, length: u64, spec: u16, q: u64, b: u64, payload: usize| {
        let h = Hdr { length, spec, query_length: q, body_length: b, ..base };
        let mut bytes = h.encode().to_vec();
        bytes.extend((0..payload).map(|i| b'a' + (i % 26) as u8));
        let consistent_small = h.consistent_total().is_some_and(|t| t <= (1 << 24));
        v.push(Hostile { name: name.to_string(), bytes, rejectable: !consistent_small, ws_only: false, text: false });
    };
    // magic
    add("spec=0", 48, 0, 0, 0, 0);
    add("spec=0x0715", 48, 0x0715, 0, 0, 0);
    add("spec=0x1506,q=3,b=4", 55, 0x1506, 3, 4, 7);
    // length disagrees with the parts
    add("length=47", 47, SPEC, 0, 0, 0);
    add("length=49", 49, SPEC, 0, 0, 1);
    add("length=0", 0, SPEC, 0, 0, 0);
    add("length=2^64-1,q=b=0", mx, SPEC, 0, 0, 0);
    add("length=54,q=3,b=4", 54, SPEC, 3, 4, 7);
    add("length=56,q=3,b=4", 56, SPEC, 3, 4, 8);
    add("length=2^62,q=b=0", 1 << 62, SPEC, 0, 0, 0);
    // sums that overflow u64 (D1)
    add("q=2^64-48,length=0 (wraps to length)", 0, SPEC, mx - 47, 0, 0);
    add("q=2^64-47,length=1 (wraps to length)", 1, SPEC, mx - 46, 0, 1);
    add("q=b=2^64-1,length=46 (wraps to length)", 46, SPEC, mx, mx, 0);
    add("q=b=2^63,length=48 (wraps to length)", 48, SPEC, 1 << 63, 1 << 63, 0);
    add("q=1,b=2^64-1,length=48 (wraps to length)", 48, SPEC, 1, mx, 5);
    add("q=2^64-1,b=8,length=55 (wraps to length)", 55, SPEC, mx, 8, 7);
    add("q=b=2^64-1,length=2^64-1 (overflow, mismatch)", mx, SPEC, mx, mx, 0);
    // consistent but never allocatable (D2)
    add("consistent q=2^62-48", 1 << 62, SPEC, (1 << 62) - 48, 0, 0);
    add("consistent b=2^62-48", 1 << 62, SPEC, 0, (1 << 62) - 48, 3);
    add("consistent q=b=2^62", (1 << 63) + 48, SPEC, 1 << 62, 1 << 62, 0);
    add("consistent q=2^63-48", 1 << 63, SPEC, (1 << 63) - 48, 0, 0);
    add("consistent b=2^63", (1 << 63) + 48, SPEC, 0, 1 << 63, 0);
    add("consistent q=2^64-49", mx, SPEC, mx - 48, 0, 9);
    add("consistent q=2^63,b=2^63-49", mx, SPEC, 1 << 63, (1 << 63) - 49, 0);
    // truncated consistent frames (harness then closes its sending side)
    add("truncated q=3,b=4 after 2 payload bytes", 55, SPEC, 3, 4, 2);
    add("truncated b=65536 after 0 payload bytes", 48 + 65536, SPEC, 0, 65536, 0);
    add("truncated q=16MiB-48 after 10 payload bytes", 16 << 20, SPEC, (16 << 20) - 48, 0, 10);
    // truncated headers
    let whole = Hdr { length: 48, ..base }.encode();
    v.push(Hostile { name: "47 header bytes".into(), bytes: whole[..47].to_vec(), rejectable: false, ws_only: false, text: false });
    v.push(Hostile { name: "9 header bytes".into(), bytes: whole[..9].to_vec(), rejectable: false, ws_only: false, text: false });
    v.push(Hostile { name: "0 bytes".into(), bytes: Vec::new(), rejectable: false, ws_only: false, text: false });
    // one WebSocket message = exactly one frame
    let ok = valid_request(1);
    let mut plus1 = ok.clone();
    plus1.push(0);
    let mut plus48 = ok.clone();
    plus48.extend_from_slice(&whole);
    let mut two = ok.clone();
    two.extend_from_slice(&ok);
    for (name, bytes, text) in [
        ("ws: valid frame + 1 trailing byte", plus1, false),
        ("ws: valid frame + a second empty frame", plus48, false),
        ("ws: two valid frames in one message", two, false),
        ("ws: valid frame minus its last byte", ok[..ok.len() - 1].to_vec(), false),
        ("ws: valid frame minus its whole body", ok[..HEADER + 5].to_vec(), false),
    ] {
        v.push(Hostile { name: name.into(), bytes, rejectable: true, ws_only: true, text });
    }
    v
}

// --------------------------------------------------------------- panic record

static PANICS: AtomicU64 = AtomicU64::new(0);
static LAST_PANIC: Mutex<String> = Mutex::new(String::new());

fn install_hook() {
    let main = std::thread::current().id();
    std::panic::set_hook(Box::new(move |info| {
        let payload = info.payload();
        let msg = payload
            .downcast_ref::<&str>()
            .map(|s| s.to_string())
            .or_else(|| payload.downcast_ref::<String>().cloned())
            .unwrap_or_else(|| "<non-string panic payload>".into());
        let loc = info.location().map(|l| format!(" at {}:{}", l.file(), l.line())).unwrap_or_default();
        if std::thread::current().id() == main {
            // the scenario driver itself: never a verdict
            println!("H{}{}", msg.replace('\n', " "), loc);
            std::process::exit(2);
        }
        *LAST_PANIC.lock().unwrap_or_else(|e| e.into_inner()) = format!("{msg}{loc}");
        PANICS.fetch_add(1, Ordering::SeqCst);
    }));
}

fn panic_class(msg: &str) -> &'static str {
    let m = msg.to_ascii_lowercase();
    if m.contains("capacity overflow") {
        "capacity"
    } else if m.contains("overflow") {
        "overflow"
    } else if m.contains("out of range") || m.contains("out of bounds") || m.contains("index") {
        "slice-bounds"
    } else {
        "other"
    }
}

// ------------------------------------------------------------------- helpers

fn valid_request(id: u64) -> Vec<u8> {
    repe::Message::builder()
        .id(id)
        .query_str("/echo")
        .query_format(repe::QueryFormat::JsonPointer)
        .body_json(&json!({"a": id}))
        .expect("json body")
        .build()
        .to_vec()
}

/// Reads one frame with the independent oracle; Err on anything else.
fn read_frame(s: &mut TcpStream) -> Result<(Hdr, Vec<u8>), String> {
    let mut hb = [0u8; HEADER];
    s.read_exact(&mut hb).map_err(|e| format!("reading header: {e}"))?;
    let h = Hdr::decode_raw(&hb).unwrap();
    let total = h.consistent_total().ok_or_else(|| format!("peer sent an inconsistent header {h:?}"))?;
    if total > (1 << 20) {
        return Err(format!("peer sent a {total}-byte frame"));
    }
    let mut rest = vec![0u8; total as usize - HEADER];
    s.read_exact(&mut rest).map_err(|e| format!("reading payload: {e}"))?;
    Ok((h, rest))
}

/// valid request -> valid response on this connection (positive event)
fn echo_works(s: &mut TcpStream, id: u64) -> Result<(), String> {
    s.write_all(&valid_request(id)).map_err(|e| format!("writing request: {e}"))?;
    let (h, _) = read_frame(s)?;
    if h.id != id || h.ec != 0 {
        return Err(format!("unexpected response id={} ec={}", h.id, h.ec));
    }
    Ok(())
}

enum After {
    Closed,
    ErrorReply,
    OkReply,
    StillOpen,
}

/// What the server does after the hostile bytes.
fn drain(s: &mut TcpStream) -> After {
    let mut acc = Vec::new();
    let mut buf = [0u8; 4096];
    loop {
        match s.read(&mut buf) {
            Ok(0) => break,
            Ok(n) => acc.extend_from_slice(&buf[..n]),
            Err(e) if matches!(e.kind(), std::io::ErrorKind::WouldBlock | std::io::ErrorKind::TimedOut) => {
                return After::StillOpen;
            }
            Err(_) => {
                if acc.is_empty() {
                    return After::Closed; // reset by peer
                }
                break;
            }
        }
    }
    if acc.is_empty() {
        return After::Closed;
    }
    match crate::frames::parse_one(&acc) {
        Ok(Some((f, _))) if f.h.ec != 0 => After::ErrorReply,
        _ => After::OkReply,
    }
}

pub struct Finding {
    pub key: String,
    pub what: String,
}

#[derive(Default)]
pub struct NetStats {
    pub scenarios: u64,
    pub server_closed: u64,
    pub server_error_reply: u64,
    pub liveness_ok: u64,
    pub client_call_err: u64,
    pub ws_server_ended: u64,
    pub ws_server_liveness_ok: u64,
    pub ws_proxy_ended_nothing_forwarded: u64,
    pub ws_client_call_err: u64,
    pub ws_server_left_open: u64,
    pub ws_proxy_left_open: u64,
    pub ws_client_call_own_timeout: u64,
    pub ws_precondition_failed: u64,
}

struct Env {
    server_addr: std::net::SocketAddr,
    async_server_addr: std::net::SocketAddr,
    rt: tokio::runtime::Runtime,
    next_id: u64,
}

fn setup() -> Env {
    let router = || repe::server::Router::new().with_json("/echo", |v: Value| Ok(v));
    let server = repe::Server::new(router());
    let l = server.listen("127.0.0.1:0").expect("bind");
    let server_addr = l.local_addr().unwrap();
    std::thread::spawn(move || {
        let _ = server.serve(l);
    });
    let rt = tokio::runtime::Builder::new_multi_thread().worker_threads(2).enable_all().build().expect("runtime");
    let al = rt.block_on(repe::AsyncServer::listen("127.0.0.1:0")).expect("bind");
    let async_server_addr = al.local_addr().unwrap();
    rt.spawn(async move {
        let _ = repe::AsyncServer::new(router()).serve(al).await;
    });
    Env { server_addr, async_server_addr, rt, next_id: 100 }
}

fn server_scenario(env: &mut Env, endpoint: usize, h: &Hostile, wait: Duration, st: &mut NetStats) -> Result<Option<Finding>, String> {
    let addr = if endpoint == 0 { env.server_addr } else { env.async_server_addr };
    let ep = ENDPOINTS[endpoint];
    let mut s = TcpStream::connect(addr).map_err(|e| format!("connect: {e}"))?;
    s.set_read_timeout(Some(WAIT)).ok();
    s.set_nodelay(true).ok();
    env.next_id += 1;
    echo_works(&mut s, env.next_id).map_err(|e| format!("{ep} does not serve a valid request before the hostile bytes: {e}"))?;
    // a peer that resets the connection while we are still writing is a closed connection too
    let _ = s.write_all(&h.bytes);
    if !h.rejectable {
        let _ = s.shutdown(Shutdown::Write);
    }
    s.set_read_timeout(Some(wait)).ok();
    let after = drain(&mut s);
    let mut finding = None;
    match after {
        After::Closed => st.server_closed += 1,
        After::ErrorReply => st.server_error_reply += 1,
        After::OkReply => {
            finding = Some(Finding {
                key: format!("C02:net:{ep}:answers-hostile-frame"),
                what: format!("{ep} answered the hostile bytes [{}] with a non-error frame", h.name),
            })
        }
        After::StillOpen => {
            finding = Some(Finding {
                key: format!("C02:net:{ep}:connection-left-open"),
                what: format!("{ep} neither closed the connection nor answered after [{}] (waited up to {} s, confirmed by a second run of the scenario)", h.name, WAIT.as_secs()),
            })
        }
    }
    // the process and the accept loop are alive: a fresh connection is served
    let mut s2 = TcpStream::connect(addr).map_err(|e| format!("connect: {e}"))?;
    s2.set_read_timeout(Some(WAIT)).ok();
    env.next_id += 1;
    match echo_works(&mut s2, env.next_id) {
        Ok(()) => st.liveness_ok += 1,
        Err(e) => {
            finding.get_or_insert(Finding {
                key: format!("C02:net:{ep}:not-serving-after-hostile"),
                what: format!("{ep} no longer serves a fresh connection after [{}]: {e}", h.name),
            });
        }
    }
    Ok(finding)
}

fn patched(h: &Hostile, id: u64) -> Vec<u8> {
    let mut b = h.bytes.clone();
    if b.len() >= 24 {
        b[16..24].copy_from_slice(&id.to_le_bytes());
    }
    b
}

fn client_scenario(h: &Hostile, wait: Duration, st: &mut NetStats) -> Result<Option<Finding>, String> {
    let l = TcpListener::bind("127.0.0.1:0").map_err(|e| e.to_string())?;
    let addr = l.local_addr().unwrap();
    let client = repe::Client::connect(addr).map_err(|e| format!("Client::connect: {e}"))?;
    let (mut s, _) = l.accept().map_err(|e| e.to_string())?;
    s.set_read_timeout(Some(WAIT)).ok();
    let (tx, rx) = std::sync::mpsc::channel();
    std::thread::spawn(move || {
        let r = client.call_json_with_timeout("/x", &json!({"a": 1}), Duration::from_secs(120));
        let _ = tx.send(r.map_err(|e| e.to_string()));
    });
    let (req, _) = read_frame(&mut s).map_err(|e| format!("Client sent no valid request: {e}"))?;
    let _ = s.write_all(&patched(h, req.id));
    if !h.rejectable {
        let _ = s.shutdown(Shutdown::Write);
    }
    let out = wait_call(&rx, wait);
    Ok(judge_call("Client", h, out, st))
}

/// Waits for the call's result; gives up early once a thread of the process has panicked
/// (a dead reader thread explains the missing result and is reported as the panic).
fn wait_call(rx: &std::sync::mpsc::Receiver<Result<Value, String>>, wait: Duration) -> Result<Result<Value, String>, ()> {
    let begun = std::time::Instant::now();
    let panics = PANICS.load(Ordering::SeqCst);
    loop {
        match rx.recv_timeout(Duration::from_millis(20)) {
            Ok(r) => return Ok(r),
            Err(_) => {
                if begun.elapsed() > wait {
                    return Err(());
                }
                if PANICS.load(Ordering::SeqCst) != panics && begun.elapsed() > Duration::from_millis(300) {
                    return Err(());
                }
            }
        }
    }
}

fn judge_call(ep: &str, h: &Hostile, out: Result<Result<Value, String>, ()>, st: &mut NetStats) -> Option<Finding> {
    match out {
        Ok(Err(_)) => {
            st.client_call_err += 1;
            None
        }
        Ok(Ok(v)) => Some(Finding {
            key: format!("C02:net:{ep}:accepts-hostile-response"),
            what: format!("{ep}'s pending call returned Ok({v}) for the hostile response [{}]", h.name),
        }),
        Err(()) => Some(Finding {
            key: format!("C02:net:{ep}:pending-call-hangs"),
            what: format!("{ep}'s pending call did not return after the hostile response [{}] (waited up to {} s, confirmed by a second run of the scenario)", h.name, WAIT.as_secs()),
        }),
    }
}

fn async_client_scenario(env: &Env, h: &Hostile, wait: Duration, st: &mut NetStats) -> Result<Option<Finding>, String> {
    let l = TcpListener::bind("127.0.0.1:0").map_err(|e| e.to_string())?;
    let addr = l.local_addr().unwrap();
    let client = env.rt.block_on(repe::AsyncClient::connect(addr)).map_err(|e| format!("AsyncClient::connect: {e}"))?;
    let (mut s, _) = l.accept().map_err(|e| e.to_string())?;
    s.set_read_timeout(Some(WAIT)).ok();
    let (tx, rx) = std::sync::mpsc::channel();
    // the call runs on the runtime's worker threads, the scripted peer on this thread
    env.rt.spawn(async move {
        let r = client.call_json_with_timeout("/x", &json!({"a": 1}), Duration::from_secs(120)).await;
        let _ = tx.send(r.map_err(|e| e.to_string()));
    });
    let (req, _) = read_frame(&mut s).map_err(|e| format!("AsyncClient sent no valid request: {e}"))?;
    let _ = s.write_all(&patched(h, req.id));
    if !h.rejectable {
        let _ = s.shutdown(Shutdown::Write);
    }
    let out = wait_call(&rx, wait);
    Ok(judge_call("AsyncClient", h, out, st))
}

pub fn scenario_count() -> usize {
    ENDPOINTS.len() * hostiles().len()
}

pub fn scenario_name(k: usize) -> String {
    let hs = hostiles();
    format!("{} <- [{}]", ENDPOINTS[k / hs.len()], hs[k % hs.len()].name)
}

/// Worker entry: scenarios `from..to`, each announced with `@k` first.
pub fn worker(from: usize, to: usize, emit: &dyn Fn(&str)) {
    install_hook();
    unsafe {
        let none = libc::rlimit { rlim_cur: 0, rlim_max: 0 };
        libc::setrlimit(libc::RLIMIT_CORE, &none);
    }
    let hs = hostiles();
    let mut env = setup();
    let mut st = NetStats::default();
    let mut confirmed_expiry = [false; ENDPOINTS.len()];
    for k in from..to.min(ENDPOINTS.len() * hs.len()) {
        let (ep, h) = (k / hs.len(), &hs[k % hs.len()]);
        if !applicable(ep, h) {
            continue;
        }
        emit(&format!("@{k}"));
        let before = PANICS.load(Ordering::SeqCst);
        let mut attempt = 0;
        let res = loop {
            // once a watchdog expiry of this endpoint has been confirmed by a second run the verdict
            // is fixed (violation); later scenarios of the endpoint only wait 1 s and are not re-run
            let wait = if confirmed_expiry[ep] { Duration::from_secs(1) } else { WAIT };
            let r = match ep {
                0 | 1 => server_scenario(&mut env, ep, h, wait, &mut st),
                2 => client_scenario(h, wait, &mut st),
                3 => async_client_scenario(&env, h, wait, &mut st),
                _ => ws::scenario(ep, h, &mut st),
            };
            let timed = matches!(&r, Ok(Some(f)) if f.key.ends_with("connection-left-open") || f.key.ends_with("pending-call-hangs"));
            if timed && PANICS.load(Ordering::SeqCst) == before && !confirmed_expiry[ep] {
                // a watchdog expiry must reproduce to count
                if attempt == 0 {
                    attempt += 1;
                    continue;
                }
                confirmed_expiry[ep] = true;
            }
            if !timed && attempt == 1 {
                emit(&format!("Hwatchdog expiry in scenario {} did not reproduce", scenario_name(k)));
                std::process::exit(2);
            }
            break r;
        };
        st.scenarios += 1;
        let case = json!({"net": {"scenario": k, "endpoint": ENDPOINTS[ep], "hostile": h.name, "bytes_hex": super::cases::hex(&h.bytes)}});
        let panics = PANICS.load(Ordering::SeqCst) - before;
        if panics > 0 {
            let msg = LAST_PANIC.lock().unwrap_or_else(|e| e.into_inner()).clone();
            emit(&format!(
                "V{}",
                json!({"key": format!("C02:net:{}:panic:{}", ENDPOINTS[ep], panic_class(&msg)),
                       "what": format!("a thread of {} panicked on [{}]: {msg}", ENDPOINTS[ep], h.name), "case": case})
            ));
        }
        match res {
            Ok(None) => {}
            Ok(Some(f)) => {
                // a panicked reader thread explains a hang; report the hang only on its own
                if panics == 0 || !f.key.ends_with("pending-call-hangs") {
                    emit(&format!("V{}", json!({"key": f.key, "what": f.what, "case": case})));
                }
            }
            Err(e) => {
                if panics == 0 {
                    emit(&format!("H{} in scenario {}", e.replace('\n', " "), scenario_name(k)));
                    std::process::exit(2);
                }
            }
        }
    }
    emit(&format!(
        "D{}",
        json!({"scenarios": st.scenarios, "server_closed": st.server_closed, "server_error_reply": st.server_error_reply,
               "liveness_ok": st.liveness_ok, "client_call_err": st.client_call_err,
               "ws_server_ended": st.ws_server_ended, "ws_server_liveness_ok": st.ws_server_liveness_ok,
               "ws_proxy_ended_nothing_forwarded": st.ws_proxy_ended_nothing_forwarded, "ws_client_call_err": st.ws_client_call_err,
               "ws_server_left_open(not judged)": st.ws_server_left_open, "ws_proxy_left_open(not judged)": st.ws_proxy_left_open,
               "ws_client_call_own_timeout(not judged)": st.ws_client_call_own_timeout,
               "ws_valid_request_not_served(not judged)": st.ws_precondition_failed})
    ));
}

// ---------------------------------------------------------------- WebSocket endpoints

mod ws {
    use super::{Finding, Hostile, NetStats, valid_request};
    use crate::frames;
    use crate::memstream::{self, End};
    use futures_util::{SinkExt, StreamExt};
    use serde_json::{Value, json};
    use std::sync::atomic::{AtomicU64, Ordering};
    use std::time::Duration;
    use tokio_tungstenite::WebSocketStream;
    use tokio_tungstenite::tungstenite::Message as WsMessage;
    use tokio_tungstenite::tungstenite::protocol::Role;

    const HOUR: Duration = Duration::from_secs(3600);
    static SLOT: AtomicU64 = AtomicU64::new(0);
    fn slot() -> u16 {
        (62000 + SLOT.fetch_add(1, Ordering::SeqCst) % 3000) as u16
    }

    fn msg(h: &Hostile, id: Option<u64>) -> WsMessage {
        if h.text {
            return WsMessage::Text(String::from_utf8_lossy(&h.bytes).into_owned());
        }
        let mut b = h.bytes.clone();
        if let (Some(id), true) = (id, b.len() >= 24) {
            b[16..24].copy_from_slice(&id.to_le_bytes());
        }
        WsMessage::Binary(b)
    }

    enum Seen {
        /// close frame, end of stream or transport error
        Ended,
        ErrorFrame,
        OkFrame(u64),
        Other(String),
        Nothing,
    }

    async fn next(peer: &mut WebSocketStream<End>) -> Seen {
        loop {
            match tokio::time::timeout(HOUR, peer.next()).await {
                Err(_) => return Seen::Nothing,
                Ok(None) | Ok(Some(Err(_))) | Ok(Some(Ok(WsMessage::Close(_)))) => return Seen::Ended,
                Ok(Some(Ok(WsMessage::Binary(b)))) => {
                    return match frames::parse_one(&b) {
                        Ok(Some((f, n))) if n == b.len() && f.h.ec != 0 => Seen::ErrorFrame,
                        Ok(Some((f, n))) if n == b.len() => Seen::OkFrame(f.h.id),
                        _ => Seen::Other(format!("binary message of {} bytes that is not one frame", b.len())),
                    };
                }
                Ok(Some(Ok(WsMessage::Text(t)))) => return Seen::Other(format!("text message {t:?}")),
                Ok(Some(Ok(_))) => continue,
            }
        }
    }

    async fn echo(peer: &mut WebSocketStream<End>, id: u64) -> Result<(), String> {
        let mut req = valid_request(id);
        req[16..24].copy_from_slice(&id.to_le_bytes());
        peer.send(WsMessage::Binary(req)).await.map_err(|e| format!("sending a valid request: {e}"))?;
        match next(peer).await {
            Seen::OkFrame(got) if got == id => Ok(()),
            Seen::OkFrame(got) => Err(format!("response id {got} for request {id}")),
            Seen::ErrorFrame => Err("error response to a valid echo".into()),
            Seen::Ended => Err("connection ended instead of answering a valid echo".into()),
            Seen::Other(o) => Err(o),
            Seen::Nothing => Err("no response to a valid echo".into()),
        }
    }

    fn runtime() -> tokio::runtime::Runtime {
        tokio::runtime::Builder::new_current_thread().enable_time().start_paused(true).build().expect("runtime")
    }

    pub fn scenario(ep: usize, h: &Hostile, st: &mut NetStats) -> Result<Option<Finding>, String> {
        let rt = runtime();
        match ep {
            4 => rt.block_on(server(h, st)),
            5 => rt.block_on(proxy(h, st)),
            _ => rt.block_on(client(h, st)),
        }
    }

    async fn server(h: &Hostile, st: &mut NetStats) -> Result<Option<Finding>, String> {
        let router = repe::server::Router::new().with_json("/echo", |v: Value| Ok(v));
        let shared = repe::WebSocketServer::new(router).into_shared();
        let mut c = crate::wsh::connect(&shared, crate::wsh::Serve::Plain, None).await;
        // positive control; an endpoint that does not even serve a valid request (some other
        // property's business) cannot be judged here: counted, reported as a note by the parent
        if echo(&mut c.client, 7).await.is_err() {
            st.ws_precondition_failed += 1;
            return Ok(None);
        }
        let _ = c.client.send(msg(h, None)).await;
        let mut finding = None;
        match next(&mut c.client).await {
            Seen::Ended | Seen::ErrorFrame => st.ws_server_ended += 1,
            Seen::OkFrame(id) => {
                finding = Some(Finding {
                    key: "C02:net:WebSocketServer:answers-hostile-frame".into(),
                    what: format!("WebSocketServer answered the hostile message [{}] with a non-error frame (id {id})", h.name),
                })
            }
            Seen::Other(o) => {
                finding = Some(Finding {
                    key: "C02:net:WebSocketServer:answers-hostile-frame".into(),
                    what: format!("WebSocketServer answered the hostile message [{}] with a {o}", h.name),
                })
            }
            // skipping the message is not a parse success: counted, not judged
            Seen::Nothing => st.ws_server_left_open += 1,
        }
        // the connection task returns (an error or Ok) or keeps serving; it does not panic
        drop(c.client);
        match tokio::time::timeout(HOUR, &mut c.server).await {
            Ok(Err(e)) if e.is_panic() => {
                finding.get_or_insert(Finding {
                    key: "C02:net:WebSocketServer:panic:task".into(),
                    what: format!("the connection task panicked on [{}]: {e}", h.name),
                });
            }
            _ => {}
        }
        // the server still serves a fresh connection
        let mut c2 = crate::wsh::connect(&shared, crate::wsh::Serve::Plain, None).await;
        match echo(&mut c2.client, 8).await {
            Ok(()) => st.ws_server_liveness_ok += 1,
            Err(e) => {
                finding.get_or_insert(Finding {
                    key: "C02:net:WebSocketServer:not-serving-after-hostile".into(),
                    what: format!("WebSocketServer no longer serves a fresh connection after [{}]: {e}", h.name),
                });
            }
        }
        Ok(finding)
    }

    async fn proxy(h: &Hostile, st: &mut NetStats) -> Result<Option<Finding>, String> {
        let (down_srv, down_cli, _dctl) = memstream::pair();
        let (up_cli, up_srv, uctl) = memstream::pair();
        let _keep = up_srv;
        let s = slot();
        repe::verif_io::register_stream(s, up_cli);
        let upstream = repe::AsyncClient::connect(("127.254.77.1", s)).await.map_err(|e| format!("AsyncClient::connect over the seam: {e}"))?;
        let ws_srv = WebSocketStream::from_raw_socket(down_srv, Role::Server, None).await;
        let mut peer = WebSocketStream::from_raw_socket(down_cli, Role::Client, None).await;
        let mut task = tokio::spawn(repe::websocket_server::proxy_connection_with_limits(ws_srv, upstream, repe::WebSocketLimits::default()));
        // positive control: a valid request is forwarded and its response comes back
        let req = valid_request(9);
        peer.send(WsMessage::Binary(req.clone())).await.map_err(|e| format!("proxy: sending a valid request: {e}"))?;
        memstream::settle().await;
        let fwd = uctl.a_to_b.take();
        if fwd != req {
            st.ws_precondition_failed += 1;
            return Ok(None);
        }
        uctl.b_to_a.push(&req); // echo the request back as its response (same id, ec 0)
        match next(&mut peer).await {
            Seen::OkFrame(9) => {}
            _ => {
                st.ws_precondition_failed += 1;
                return Ok(None);
            }
        }
        let _ = peer.send(msg(h, None)).await;
        memstream::settle().await;
        let mut finding = None;
        let forwarded = uctl.a_to_b.take();
        if !forwarded.is_empty() {
            finding = Some(Finding {
                key: "C02:net:WebSocketProxy:forwards-hostile-frame".into(),
                what: format!("the proxy forwarded {} bytes upstream for the hostile message [{}]", forwarded.len(), h.name),
            });
        }
        match tokio::time::timeout(HOUR, &mut task).await {
            Ok(Err(e)) if e.is_panic() => {
                finding.get_or_insert(Finding {
                    key: "C02:net:WebSocketProxy:panic:task".into(),
                    what: format!("the proxy task panicked on [{}]: {e}", h.name),
                });
            }
            Ok(_) => {
                if finding.is_none() {
                    st.ws_proxy_ended_nothing_forwarded += 1;
                }
            }
            Err(_) => {
                if finding.is_none() {
                    st.ws_proxy_left_open += 1;
                }
            }
        }
        Ok(finding)
    }

    async fn client(h: &Hostile, st: &mut NetStats) -> Result<Option<Finding>, String> {
        let (client_end, server_end, _ctl) = memstream::pair();
        let s = slot();
        repe::verif_io::register_stream(s, client_end);
        let url = format!("ws://127.254.77.1:{s}/");
        let (c, ws) = tokio::join!(repe::WebSocketClient::connect(&url), tokio_tungstenite::accept_async(server_end));
        let c = c.map_err(|e| format!("WebSocketClient::connect over the seam: {e}"))?;
        let mut ws = ws.map_err(|e| format!("accept: {e}"))?;
        let call = tokio::spawn(async move { c.call_json_with_timeout("/x", &json!({"a": 1}), Duration::from_secs(120)).await });
        let id = loop {
            match tokio::time::timeout(HOUR, ws.next()).await {
                Ok(Some(Ok(WsMessage::Binary(b)))) => match frames::parse_one(&b) {
                    Ok(Some((f, n))) if n == b.len() => break f.h.id,
                    _ => return Err("WebSocketClient sent a malformed request".into()),
                },
                Ok(Some(Ok(_))) => continue,
                _ => return Err("WebSocketClient sent no request".into()),
            }
        };
        let _ = ws.send(msg(h, Some(id))).await;
        let out = tokio::time::timeout(HOUR, call).await;
        Ok(match out {
            // ignoring the message is not a parse success: counted, not judged
            Ok(Ok(Err(repe::RepeError::Io(e)))) if e.kind() == std::io::ErrorKind::TimedOut => {
                st.ws_client_call_own_timeout += 1;
                None
            }
            Ok(Ok(Err(_))) => {
                st.ws_client_call_err += 1;
                None
            }
            Ok(Ok(Ok(v))) => Some(Finding {
                key: "C02:net:WebSocketClient:accepts-hostile-response".into(),
                what: format!("WebSocketClient's pending call returned Ok({v}) for the hostile response [{}]", h.name),
            }),
            Ok(Err(e)) => Some(Finding {
                key: "C02:net:WebSocketClient:panic:task".into(),
                what: format!("the calling task failed on [{}]: {e}", h.name),
            }),
            Err(_) => Some(Finding {
                key: "C02:net:WebSocketClient:pending-call-hangs".into(),
                what: format!("WebSocketClient's pending call did not return after the hostile response [{}]", h.name),
            }),
        })
    }
}
