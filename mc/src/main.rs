//! `mc <property> <quick|thorough>` / `mc <property> --replay <file>`
//! One subcommand per property; see /verif/DESIGN.md.

mod c11_c13;
mod c18;
#[path = "../../common/ctx.rs"]
mod ctx;
mod explore;
mod par;
mod stream_sys;

use ctx::Tier;

fn usage() -> ! {
    eprintln!("usage: mc <Cxx> <quick|thorough> | mc <Cxx> --replay <file>");
    std::process::exit(2)
}

fn main() {
    let args: Vec<String> = std::env::args().collect();
    if args.len() < 3 {
        usage();
    }
    let prop = args[1].to_uppercase();
    if args[2] == "--replay" {
        let Some(path) = args.get(3) else { usage() };
        let doc: serde_json::Value = match std::fs::read(path)
            .map_err(|e| e.to_string())
            .and_then(|b| serde_json::from_slice(&b).map_err(|e| e.to_string()))
        {
            Ok(d) => d,
            Err(e) => {
                eprintln!("cannot read replay file: {e}");
                std::process::exit(2)
            }
        };
        let case = &doc["case"];
        let r = match prop.as_str() {
            "C11" => c11_c13::replay(stream_sys::Which::C11, case),
            "C13" => c11_c13::replay(stream_sys::Which::C13, case),
            "C18" => c18::replay(case),
            _ => {
                eprintln!("no replay for {prop}");
                std::process::exit(2)
            }
        };
        match r {
            Ok(()) => {
                println!("replay: property held on this case");
                std::process::exit(0)
            }
            Err(e) => {
                println!("replay: VIOLATION reproduced\n{e}");
                std::process::exit(1)
            }
        }
    }
    let tier = match args[2].as_str() {
        "quick" => Tier::Quick,
        "thorough" => Tier::Thorough,
        _ => usage(),
    };
    match prop.as_str() {
        "C11" => c11_c13::run(stream_sys::Which::C11, tier),
        "C13" => c11_c13::run(stream_sys::Which::C13, tier),
        "C18" => c18::run(tier),
        _ => {
            eprintln!("unknown property {prop}");
            std::process::exit(2)
        }
    }
}
