//! `mc <property> <quick|thorough>` / `mc <property> --replay <file>`
//! One module per property; see /verif/DESIGN.md.
//! A module may also accept `mc <property> --worker ...` for child-process work.

mod c01;
mod c02;
mod c03;
mod c04;
mod c05;
mod c06;
mod c07;
mod c08;
mod c09;
mod c10;
mod c11_c13;
mod c14;
mod c15;
mod c16;
mod c17;
mod c18;
mod c19;
mod clients;
#[path = "../../common/ctx.rs"]
mod ctx;
mod explore;
mod frames;
mod memstream;
mod selftest;
mod wsh;
mod par;
mod stream_sys;

use ctx::Tier;
use serde_json::Value;

fn usage() -> ! {
    eprintln!("usage: mc <Cxx> <quick|thorough> | mc <Cxx> --replay <file>");
    std::process::exit(2)
}

fn run(prop: &str, tier: Tier) -> ! {
    match prop {
        "C01" => c01::run(tier),
        "C02" => c02::run(tier),
        "C03" => c03::run(tier),
        "C04" => c04::run(tier),
        "C05" => c05::run(tier),
        "C06" => c06::run(tier),
        "C07" => c07::run(tier),
        "C08" => c08::run(tier),
        "C09" => c09::run(tier),
        "C10" => c10::run(tier),
        "C11" => c11_c13::run(stream_sys::Which::C11, tier),
        "C13" => c11_c13::run(stream_sys::Which::C13, tier),
        "C14" => c14::run(tier),
        "C15" => c15::run(tier),
        "C16" => c16::run(tier),
        "C17" => c17::run(tier),
        "C18" => c18::run(tier),
        "C19" => c19::run(tier),
        "SELFTEST" => selftest::run(),
        _ => {
            eprintln!("unknown property {prop}");
            std::process::exit(2)
        }
    }
}

fn replay(prop: &str, case: &Value) -> Result<(), String> {
    match prop {
        "C01" => c01::replay(case),
        "C02" => c02::replay(case),
        "C03" => c03::replay(case),
        "C04" => c04::replay(case),
        "C05" => c05::replay(case),
        "C06" => c06::replay(case),
        "C07" => c07::replay(case),
        "C08" => c08::replay(case),
        "C09" => c09::replay(case),
        "C10" => c10::replay(case),
        "C11" => c11_c13::replay(stream_sys::Which::C11, case),
        "C13" => c11_c13::replay(stream_sys::Which::C13, case),
        "C14" => c14::replay(case),
        "C15" => c15::replay(case),
        "C16" => c16::replay(case),
        "C17" => c17::replay(case),
        "C18" => c18::replay(case),
        "C19" => c19::replay(case),
        _ => Err(format!("unknown property {prop}")),
    }
}

/// Loopback sockets closed by an earlier check stay in TIME_WAIT for a minute and occupy
/// ephemeral ports. When several checks ran back to back (or in parallel) the range can be
/// nearly exhausted, and a `bind`/`connect` failing with EADDRINUSE would be a machinery
/// error of this run. Wait (bounded) for the backlog to expire before starting.
fn wait_for_port_headroom() {
    fn time_wait() -> Option<u64> {
        let s = std::fs::read_to_string("/proc/net/sockstat").ok()?;
        let line = s.lines().find(|l| l.starts_with("TCP:"))?;
        let mut it = line.split_whitespace();
        while let Some(w) = it.next() {
            if w == "tw" {
                return it.next()?.parse().ok();
            }
        }
        None
    }
    let begun = std::time::Instant::now();
    let mut said = false;
    while let Some(tw) = time_wait() {
        if tw < 12_000 || begun.elapsed() > std::time::Duration::from_secs(150) {
            break;
        }
        if !said {
            eprintln!("note: {tw} loopback sockets in TIME_WAIT from earlier runs; waiting for them to expire before starting");
            said = true;
        }
        std::thread::sleep(std::time::Duration::from_secs(2));
    }
}

fn main() {
    let args: Vec<String> = std::env::args().collect();
    if args.len() < 3 {
        usage();
    }
    let prop = args[1].to_uppercase();
    if args[2] == "--worker" {
        // child-process entry points (C02 batches, C10 pullers, ...)
        match prop.as_str() {
            "C02" => c02::worker(&args[3..]),
            "C10" => c10::worker(&args[3..]),
            _ => usage(),
        }
        return;
    }
    if args[2] == "--replay" {
        let Some(path) = args.get(3) else { usage() };
        let doc: Value = match std::fs::read(path)
            .map_err(|e| e.to_string())
            .and_then(|b| serde_json::from_slice(&b).map_err(|e| e.to_string()))
        {
            Ok(d) => d,
            Err(e) => {
                eprintln!("cannot read replay file: {e}");
                std::process::exit(2)
            }
        };
        match replay(&prop, &doc["case"]) {
            Ok(()) => {
                println!("replay: property held on this case");
                std::process::exit(0)
            }
            Err(e) => {
                println!("replay: VIOLATION reproduced\n{e}");
                std::process::exit(1)
            }
        }
    }
    let tier = match args[2].as_str() {
        "quick" => Tier::Quick,
        "thorough" => Tier::Thorough,
        _ => usage(),
    };
    wait_for_port_headroom();
    run(&prop, tier)
}
