//! C08 element alphabet: the scalar element types, their boundary value sets,
//! rotation-built slices, byte images and type dispatch by name.

use half::{bf16, f16};
use serde::Serialize;
use serde::de::DeserializeOwned;

pub trait Elem:
    beve::BeveTypedSlice + Serialize + DeserializeOwned + Copy + Send + Sync + 'static
{
    const NAME: &'static str;
    /// index in `SCALARS`
    const IDX: usize;
    fn boundary() -> Vec<Self>;
    /// little-endian byte image of one element, written without any pointer cast
    fn le(&self, out: &mut Vec<u8>);
}

pub const SCALARS: [&str; 12] =
    ["u8", "u16", "u32", "u64", "i8", "i16", "i32", "i64", "f32", "f64", "f16", "bf16"];
/// all type names counted in the evidence: scalars then complex pairs
pub const ALL_TYPES: [&str; 14] = [
    "u8", "u16", "u32", "u64", "i8", "i16", "i32", "i64", "f32", "f64", "f16", "bf16", "c32", "c64",
];

macro_rules! elem_uint {
    ($t:ty, $name:literal, $idx:literal, $pat:expr) => {
        impl Elem for $t {
            const NAME: &'static str = $name;
            const IDX: usize = $idx;
            fn boundary() -> Vec<Self> {
                vec![
                    0,
                    1,
                    <$t>::MAX,
                    2,
                    <$t>::MAX - 1,
                    <$t>::MAX / 2,
                    <$t>::MAX / 2 + 1,
                    $pat,
                    !($pat as $t),
                    <$t>::MAX / 3,
                    0x5C,
                ]
            }
            fn le(&self, out: &mut Vec<u8>) {
                out.extend_from_slice(&self.to_le_bytes());
            }
        }
    };
}
macro_rules! elem_sint {
    ($t:ty, $name:literal, $idx:literal, $pat:expr) => {
        impl Elem for $t {
            const NAME: &'static str = $name;
            const IDX: usize = $idx;
            fn boundary() -> Vec<Self> {
                vec![
                    0,
                    1,
                    -1,
                    <$t>::MIN,
                    <$t>::MAX,
                    <$t>::MIN + 1,
                    <$t>::MAX - 1,
                    $pat,
                    !($pat as $t),
                    -2,
                    0x5C,
                ]
            }
            fn le(&self, out: &mut Vec<u8>) {
                out.extend_from_slice(&self.to_le_bytes());
            }
        }
    };
}
elem_uint!(u8, "u8", 0, 0x12);
elem_uint!(u16, "u16", 1, 0x0102);
elem_uint!(u32, "u32", 2, 0x0102_0304);
elem_uint!(u64, "u64", 3, 0x0102_0304_0506_0708);
elem_sint!(i8, "i8", 4, 0x12);
elem_sint!(i16, "i16", 5, 0x0102);
elem_sint!(i32, "i32", 6, 0x0102_0304);
elem_sint!(i64, "i64", 7, 0x0102_0304_0506_0708);

impl Elem for f32 {
    const NAME: &'static str = "f32";
    const IDX: usize = 8;
    fn boundary() -> Vec<Self> {
        [
            0x0000_0000u32, // +0
            0x8000_0000,    // -0
            0x3f80_0000,    // 1
            0xbf80_0000,    // -1
            0x0000_0001,    // smallest subnormal
            0x807f_ffff,    // largest subnormal, negative
            0x0080_0000,    // smallest normal
            0x7f7f_ffff,    // MAX
            0xff7f_ffff,    // MIN
            0x7f80_0000,    // +inf
            0xff80_0000,    // -inf
            0x7fc0_0000,    // quiet NaN
            0x7fc1_2345,    // quiet NaN with payload
            0xffc0_0001,    // negative quiet NaN with payload
            0x7f80_0001,    // signalling NaN
            0x7fa1_2345,    // signalling NaN with payload
            0xffa0_0001,    // negative signalling NaN
            0x0102_0304,    // byte-order pattern
        ]
        .iter()
        .map(|b| f32::from_bits(*b))
        .collect()
    }
    fn le(&self, out: &mut Vec<u8>) {
        out.extend_from_slice(&self.to_bits().to_le_bytes());
    }
}
impl Elem for f64 {
    const NAME: &'static str = "f64";
    const IDX: usize = 9;
    fn boundary() -> Vec<Self> {
        [
            0x0000_0000_0000_0000u64,
            0x8000_0000_0000_0000,
            0x3ff0_0000_0000_0000,
            0xbff0_0000_0000_0000,
            0x0000_0000_0000_0001,
            0x800f_ffff_ffff_ffff,
            0x0010_0000_0000_0000,
            0x7fef_ffff_ffff_ffff,
            0xffef_ffff_ffff_ffff,
            0x7ff0_0000_0000_0000,
            0xfff0_0000_0000_0000,
            0x7ff8_0000_0000_0000,
            0x7ff8_1234_5678_9abc,
            0xfff8_0000_0000_0001,
            0x7ff0_0000_0000_0001,
            0x7ff4_1234_5678_9abc,
            0xfff4_0000_0000_0001,
            0x0102_0304_0506_0708,
        ]
        .iter()
        .map(|b| f64::from_bits(*b))
        .collect()
    }
    fn le(&self, out: &mut Vec<u8>) {
        out.extend_from_slice(&self.to_bits().to_le_bytes());
    }
}
impl Elem for f16 {
    const NAME: &'static str = "f16";
    const IDX: usize = 10;
    fn boundary() -> Vec<Self> {
        [
            0x0000u16, 0x8000, 0x3c00, 0xbc00, 0x0001, 0x83ff, 0x0400, 0x7bff, 0xfbff, 0x7c00, 0xfc00,
            0x7e00, 0x7e55, 0xfe01, 0x7c01, 0x7d55, 0xfd01, 0x0102,
        ]
        .iter()
        .map(|b| f16::from_bits(*b))
        .collect()
    }
    fn le(&self, out: &mut Vec<u8>) {
        out.extend_from_slice(&self.to_bits().to_le_bytes());
    }
}
impl Elem for bf16 {
    const NAME: &'static str = "bf16";
    const IDX: usize = 11;
    fn boundary() -> Vec<Self> {
        [
            0x0000u16, 0x8000, 0x3f80, 0xbf80, 0x0001, 0x807f, 0x0080, 0x7f7f, 0xff7f, 0x7f80, 0xff80,
            0x7fc0, 0x7fd5, 0xffc1, 0x7f81, 0x7fa5, 0xffa1, 0x0102,
        ]
        .iter()
        .map(|b| bf16::from_bits(*b))
        .collect()
    }
    fn le(&self, out: &mut Vec<u8>) {
        out.extend_from_slice(&self.to_bits().to_le_bytes());
    }
}

/// Slice of length `n`: rotation `rot` of the boundary set, repeated.
pub fn make<T: Elem>(n: usize, rot: usize) -> Vec<T> {
    let b = T::boundary();
    (0..n).map(|i| b[(i + rot) % b.len()]).collect()
}

pub fn rotations<T: Elem>() -> usize {
    T::boundary().len()
}

/// Little-endian byte image computed element by element (independent of the
/// in-memory reinterpretation the code under test uses).
pub fn image<T: Elem>(v: &[T]) -> Vec<u8> {
    let mut out = Vec::with_capacity(std::mem::size_of_val(v));
    for e in v {
        e.le(&mut out);
    }
    out
}

/// In-memory bytes of a slice of padding-free scalars (bit-for-bit comparison).
pub fn bytes_of<T: Copy>(v: &[T]) -> &[u8] {
    // SAFETY: only used with fixed-width scalar types (and repr(C) pairs of them)
    // that have no padding; reading initialised memory as bytes is always valid.
    unsafe { std::slice::from_raw_parts(v.as_ptr() as *const u8, std::mem::size_of_val(v)) }
}

pub fn hex(b: &[u8]) -> String {
    let mut s = String::new();
    for (i, x) in b.iter().enumerate() {
        if i >= 48 {
            s.push_str(&format!("..(+{} bytes)", b.len() - i));
            break;
        }
        s.push_str(&format!("{x:02x}"));
    }
    s
}

/// First index at which two equally typed slices differ bitwise, with both images.
pub fn first_diff<T: Copy>(a: &[T], b: &[T]) -> String {
    if a.len() != b.len() {
        return format!("length {} vs {}", a.len(), b.len());
    }
    let sz = std::mem::size_of::<T>();
    let (ab, bb) = (bytes_of(a), bytes_of(b));
    for i in 0..a.len() {
        if ab[i * sz..(i + 1) * sz] != bb[i * sz..(i + 1) * sz] {
            return format!(
                "element {i}: bytes {} vs {}",
                hex(&ab[i * sz..(i + 1) * sz]),
                hex(&bb[i * sz..(i + 1) * sz])
            );
        }
    }
    "identical".into()
}

pub trait ScalarVisitor {
    fn visit<T: Elem>(&mut self);
}

pub fn visit_all(v: &mut impl ScalarVisitor) {
    v.visit::<u8>();
    v.visit::<u16>();
    v.visit::<u32>();
    v.visit::<u64>();
    v.visit::<i8>();
    v.visit::<i16>();
    v.visit::<i32>();
    v.visit::<i64>();
    v.visit::<f32>();
    v.visit::<f64>();
    v.visit::<f16>();
    v.visit::<bf16>();
}

pub fn visit_named(name: &str, v: &mut impl ScalarVisitor) -> bool {
    match name {
        "u8" => v.visit::<u8>(),
        "u16" => v.visit::<u16>(),
        "u32" => v.visit::<u32>(),
        "u64" => v.visit::<u64>(),
        "i8" => v.visit::<i8>(),
        "i16" => v.visit::<i16>(),
        "i32" => v.visit::<i32>(),
        "i64" => v.visit::<i64>(),
        "f32" => v.visit::<f32>(),
        "f64" => v.visit::<f64>(),
        "f16" => v.visit::<f16>(),
        "bf16" => v.visit::<bf16>(),
        _ => return false,
    }
    true
}

/// Complex component types checked (Complex<f32>, Complex<f64>).
pub trait CElem: Elem {
    const CNAME: &'static str;
    const CIDX: usize;
}
impl CElem for f32 {
    const CNAME: &'static str = "c32";
    const CIDX: usize = 12;
}
impl CElem for f64 {
    const CNAME: &'static str = "c64";
    const CIDX: usize = 13;
}

/// Complex slice: real parts walk the boundary set from `rot`, imaginary parts
/// walk it with stride 5 so that every (re, im) pairing class occurs.
pub fn make_complex<T: Elem>(n: usize, rot: usize) -> Vec<beve::Complex<T>> {
    let b = T::boundary();
    (0..n)
        .map(|i| beve::Complex { re: b[(i + rot) % b.len()], im: b[(5 * i + rot + 1) % b.len()] })
        .collect()
}

pub fn image_complex<T: Elem>(v: &[beve::Complex<T>]) -> Vec<u8> {
    let mut out = Vec::new();
    for c in v {
        c.re.le(&mut out);
        c.im.le(&mut out);
    }
    out
}
