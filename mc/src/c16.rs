//! C16 — off-reader handlers are capped, never block the reader or kill the
//! connection.
//!
//! A real `SharedWebSocketServer` (built with `with_offreader_limit(cap)`) serves
//! one fresh in-memory connection per scenario; the harness is the raw WebSocket
//! peer. Every handler of the four `*_blocking` routes parks on its own
//! `wsh::Gate` (selected by the request body), so the harness decides exactly
//! which handlers are running and in which order they finish. A scenario is an
//! event sequence (send off-reader request that returns / errors / panics, send
//! off-reader notify, send inline request, release parked handler *j*, bursts);
//! all sequences up to a depth bound are generated from the reference model
//! (a counter automaton: the list of running request ids, size <= cap) and each
//! one is executed on the real server. After EVERY event an inline "fence"
//! request is sent and everything that arrived before its reply is compared
//! with the model's prediction, so both "this frame must arrive" and "nothing
//! else may arrive" are decided by positive events (FIFO reader + FIFO outbound
//! channel), never by waiting for silence.
//!
//! Synchronisation (no sleeps as synchronisation): a handler is known to be
//! parked through `Gate::await_waiting`, to have left through the strong count
//! of the route's `Arc<dyn HandlerErased>` (`Router::get` hands out the very Arc
//! the reader clones into the blocking task; the task drops it *after* the
//! permit), and frames are awaited under a real-time watchdog. The runtime is a
//! current-thread runtime with a real clock: a paused clock cannot expire while
//! a blocking task is parked, so the watchdog must be real time.

use crate::ctx::{Ctx, Tier};
use crate::frames::Frame;
use crate::par;
use crate::wsh::{self, Gate, Got, Serve, WsConn};
use repe::{CallContext, ConnectionError, ErrorCode, Message, Next, Router, WebSocketServer};
use serde::Deserialize;
use serde_json::{Value, json};
use std::collections::{BTreeMap, BTreeSet};
use std::sync::atomic::{AtomicBool, AtomicU64, AtomicUsize, Ordering::SeqCst};
use std::sync::{Arc, Mutex};
use std::time::{Duration, Instant};

const ROUTES: [&str; 4] = ["/blk/json", "/blk/json_ctx", "/blk/typed", "/blk/typed_ctx"];
const EC_RESOURCE_EXHAUSTED: u32 = 8;
const EC_INTERNAL: u32 = 9;
const EC_APP: u32 = 4096;
const FENCE_BASE: u64 = 1 << 40;
const WATCHDOG: Duration = Duration::from_secs(10);
/// how long a below-cap rejection after a release is retried before it counts as a leaked slot
const RETRY_BUDGET: Duration = Duration::from_millis(250);
const PANIC_MARK: &str = "c16-handler-panic";

// ------------------------------------------------------------------ alphabet

#[derive(Clone, Copy, Debug, PartialEq, Eq, Hash, PartialOrd, Ord)]
enum Kind {
    Ret,
    Err,
    Panic,
}

impl Kind {
    const ALL: [Kind; 3] = [Kind::Ret, Kind::Err, Kind::Panic];
    fn name(self) -> &'static str {
        match self {
            Kind::Ret => "ret",
            Kind::Err => "err",
            Kind::Panic => "panic",
        }
    }
    fn parse(s: &str) -> Option<Kind> {
        Kind::ALL.into_iter().find(|k| k.name() == s)
    }
}

#[derive(Clone, Copy, Debug, PartialEq, Eq, Hash)]
enum Ev {
    /// off-reader request whose handler returns / errors / panics once released
    Req(Kind),
    /// off-reader notify (handler parks like a request's; no response exists)
    Notify(Kind),
    /// request to the inline route
    Inline,
    /// release the j-th oldest currently parked handler
    Release(u8),
    /// n off-reader messages sent back to back before anything is read
    /// (kinds rotate ret/err/panic, every 5th is a notify)
    Burst(u16),
    /// open the gates of all parked handlers at once
    ReleaseAll,
}

impl Ev {
    fn name(&self) -> String {
        match self {
            Ev::Req(k) => format!("req:{}", k.name()),
            Ev::Notify(k) => format!("notify:{}", k.name()),
            Ev::Inline => "inline".into(),
            Ev::Release(j) => format!("release:{j}"),
            Ev::Burst(n) => format!("burst:{n}"),
            Ev::ReleaseAll => "release-all".into(),
        }
    }
    fn parse(s: &str) -> Option<Ev> {
        let (a, b) = s.split_once(':').unwrap_or((s, ""));
        Some(match a {
            "req" => Ev::Req(Kind::parse(b)?),
            "notify" => Ev::Notify(Kind::parse(b)?),
            "inline" => Ev::Inline,
            "release" => Ev::Release(b.parse().ok()?),
            "burst" => Ev::Burst(b.parse().ok()?),
            "release-all" => Ev::ReleaseAll,
            _ => return None,
        })
    }
}

/// cap 0 = unlimited (`with_offreader_limit(0)`)
#[derive(Clone, Copy, Debug, PartialEq, Eq)]
struct Cfg {
    cap: usize,
    /// a pass-through middleware wraps every route (registered before the
    /// routes when `rot` is even, after them when odd: both wrap sites)
    mw: bool,
    /// the k-th off-reader message of a scenario goes to ROUTES[(k + rot) % 4]
    rot: u8,
    /// `with_outbound_capacity` (0 = the default queue): with a queue of 1 a burst of rejections
    /// has to wait for the writer, it may not be dropped
    oc: usize,
}

impl Cfg {
    fn limit(&self) -> Option<usize> {
        (self.cap > 0).then_some(self.cap)
    }
    fn json(&self) -> Value {
        json!({"cap": self.cap, "mw": self.mw, "rot": self.rot, "outbound_capacity": self.oc})
    }
}

// ------------------------------------------------------------ shared handler state

struct Shared {
    harness: std::thread::ThreadId,
    gates: Mutex<BTreeMap<u64, Gate>>,
    abort: AtomicBool,
    gauge: AtomicUsize,
    max_gauge: AtomicUsize,
    started: Mutex<Vec<u64>>,
    on_reader: AtomicUsize,
    gate_timeouts: AtomicUsize,
    mw_calls: AtomicUsize,
    route_hits: [AtomicUsize; 4],
    /// (0 = saturation, 1 = handler panic, 2 = other, method / text)
    hook: Mutex<Vec<(u8, String)>>,
}

impl Shared {
    fn new() -> Arc<Shared> {
        Arc::new(Shared {
            harness: std::thread::current().id(),
            gates: Mutex::new(BTreeMap::new()),
            abort: AtomicBool::new(false),
            gauge: AtomicUsize::new(0),
            max_gauge: AtomicUsize::new(0),
            started: Mutex::new(Vec::new()),
            on_reader: AtomicUsize::new(0),
            gate_timeouts: AtomicUsize::new(0),
            mw_calls: AtomicUsize::new(0),
            route_hits: [AtomicUsize::new(0), AtomicUsize::new(0), AtomicUsize::new(0), AtomicUsize::new(0)],
            hook: Mutex::new(Vec::new()),
        })
    }
    fn gate(&self, g: u64) -> Gate {
        let mut m = self.gates.lock().unwrap();
        let aborted = self.abort.load(SeqCst);
        let gate = m.entry(g).or_default().clone();
        if aborted {
            gate.open();
        }
        gate
    }
    /// End of scenario: nothing may stay parked, whatever went wrong.
    fn open_everything(&self) {
        self.abort.store(true, SeqCst);
        let m = self.gates.lock().unwrap();
        for g in m.values() {
            g.open();
        }
    }
}

/// Body of every blocking-route handler: gauge up, park on the request's own
/// gate, gauge down, then return / fail / panic as the request asks.
fn work(sh: &Shared, route: usize, g: u64, k: &str) -> Result<Value, (ErrorCode, String)> {
    sh.route_hits[route].fetch_add(1, SeqCst);
    sh.started.lock().unwrap().push(g);
    if std::thread::current().id() == sh.harness {
        // Running on the connection's reader task (the runtime's only thread):
        // parking here would freeze reader and harness alike; record it instead.
        sh.on_reader.fetch_add(1, SeqCst);
    } else {
        let n = sh.gauge.fetch_add(1, SeqCst) + 1;
        sh.max_gauge.fetch_max(n, SeqCst);
        let gate = sh.gate(g);
        let ok = gate.wait();
        sh.gauge.fetch_sub(1, SeqCst);
        if !ok {
            sh.gate_timeouts.fetch_add(1, SeqCst);
        }
    }
    match k {
        "ret" => Ok(json!({"done": g})),
        "err" => Err((ErrorCode::ApplicationErrorBase, format!("boom {g}"))),
        _ => panic!("{PANIC_MARK} {g}"),
    }
}

fn work_value(sh: &Shared, route: usize, v: Value) -> Result<Value, (ErrorCode, String)> {
    let g = v.get("g").and_then(|x| x.as_u64()).unwrap_or(u64::MAX);
    let k = v.get("k").and_then(|x| x.as_str()).unwrap_or("ret").to_string();
    work(sh, route, g, &k)
}

#[derive(Deserialize)]
struct In {
    g: u64,
    k: String,
}

fn build_router(cfg: &Cfg, sh: &Arc<Shared>) -> Router {
    let mut r = Router::new();
    let add_mw = |r: Router| {
        let s = sh.clone();
        r.with_middleware(move |req: &Message, next: Next<'_>| {
            s.mw_calls.fetch_add(1, SeqCst);
            next.run(req)
        })
    };
    if cfg.mw && cfg.rot % 2 == 0 {
        r = add_mw(r);
    }
    let (s0, s1, s2, s3) = (sh.clone(), sh.clone(), sh.clone(), sh.clone());
    r = r
        .with_json("/echo", |v: Value| Ok(json!({"got": v})))
        .with_json_blocking(ROUTES[0], move |v: Value| work_value(&s0, 0, v))
        .with_json_ctx_blocking(ROUTES[1], move |_c: &CallContext, v: Value| work_value(&s1, 1, v))
        .with_typed_blocking::<In, Value, _>(ROUTES[2], move |i: In| work(&s2, 2, i.g, &i.k))
        .with_typed_ctx_blocking::<In, Value, _>(ROUTES[3], move |_c: &CallContext, i: In| work(&s3, 3, i.g, &i.k));
    if cfg.mw && cfg.rot % 2 == 1 {
        r = add_mw(r);
    }
    r
}

// ------------------------------------------------------------------ model + oracle

/// What the oracle compares of a frame: id, error code, and for a success the
/// decoded body (error texts are not part of the property).
#[derive(Clone, Debug, PartialEq, Eq, PartialOrd, Ord)]
struct Fr {
    id: u64,
    ec: u32,
    body: String,
}

impl Fr {
    fn of(f: &Frame) -> Fr {
        let body = if f.h.ec != 0 {
            String::new()
        } else {
            let v: Option<Value> = match f.h.body_format {
                1 => beve::from_slice(&f.body).ok(),
                _ => serde_json::from_slice(&f.body).ok(),
            };
            v.map(|v| v.to_string()).unwrap_or_else(|| format!("<undecodable {} bytes>", f.body.len()))
        };
        Fr { id: f.h.id, ec: f.h.ec, body }
    }
    fn show(&self) -> String {
        if self.ec == 0 { format!("(id {} ok {})", self.id, self.body) } else { format!("(id {} ec {})", self.id, self.ec) }
    }
}

fn show(v: &[Fr]) -> String {
    format!("[{}]", v.iter().map(|f| f.show()).collect::<Vec<_>>().join(", "))
}

#[derive(Clone, Debug)]
struct Running {
    id: u64,
    kind: Kind,
    notify: bool,
    /// ordinal among the handlers started in this scenario
    ord: usize,
}

impl Running {
    fn result(&self) -> Option<Fr> {
        if self.notify {
            return None;
        }
        Some(match self.kind {
            Kind::Ret => Fr { id: self.id, ec: 0, body: json!({"done": self.id}).to_string() },
            Kind::Err => Fr { id: self.id, ec: EC_APP, body: String::new() },
            Kind::Panic => Fr { id: self.id, ec: EC_INTERNAL, body: String::new() },
        })
    }
}

#[derive(Clone, Debug)]
struct Bad {
    key: String,
    what: String,
    step: usize,
    /// decided by a watchdog expiry (10 s each: exploration stops after two)
    hang: bool,
    /// decided after the retry budget (exploration stops after 24)
    slow: bool,
}

#[derive(Default, Clone, Debug)]
struct ScenStats {
    transitions: u64,
    frames: u64,
    sat_requests: u64,
    sat_notifies: u64,
    panics: u64,
    notify_panics: u64,
    errors: u64,
    returns: u64,
    inline_while_parked: u64,
    inline_at_cap: u64,
    accepted_after_release: u64,
    non_fifo_release: u64,
    release_order: Vec<usize>,
    max_gauge: usize,
    refill_started: u64,
    mw_calls: u64,
    route_hits: [u64; 4],
    hook_saturation: u64,
    hook_panic: u64,
    hook_mismatch: Option<String>,
    quiesce_timeouts: u64,
    gate_timeouts: u64,
    late_slot_release: u64,
    states: Vec<String>,
    serve_result_note: Option<String>,
    predicted: Vec<Fr>,
}

struct Outcome {
    bad: Option<Bad>,
    st: ScenStats,
}

struct Runner {
    cfg: Cfg,
    sh: Arc<Shared>,
    conn: WsConn,
    handlers: Vec<(Arc<dyn repe::server::HandlerErased>, usize)>,
    running: Vec<Running>,
    started_ids: Vec<u64>,
    notify_ids: BTreeSet<u64>,
    next_id: u64,
    sent_off: usize,
    fence_n: u64,
    step: usize,
    in_events: bool,
    released_any: bool,
    panics_released: u64,
    errors_released: u64,
    returns_released: u64,
    exp_saturation: u64,
    exp_panic_events: u64,
    all_exp: Vec<Fr>,
    all_got: Vec<Fr>,
    st: ScenStats,
}

#[derive(Clone, Copy, PartialEq)]
enum Ctxt {
    AtCapRequest,
    AtCapNotify,
    BelowCap,
    Release,
    Inline,
    Quiet,
    Burst,
}

type R = Result<(), Bad>;

impl Runner {
    fn bad(&self, key: &str, what: String) -> Bad {
        Bad { key: key.into(), what, step: self.step, hang: false, slow: false }
    }
    fn hang(&self, key: &str, what: String) -> Bad {
        Bad { key: key.into(), what, step: self.step, hang: true, slow: false }
    }
    fn at_cap(&self) -> bool {
        self.cfg.limit().is_some_and(|c| self.running.len() >= c)
    }
    fn canon(&self) -> String {
        let mut s = format!("cap{}:", self.cfg.cap);
        for r in &self.running {
            s.push(if r.notify { 'n' } else { 'r' });
            s.push(match r.kind {
                Kind::Ret => 'R',
                Kind::Err => 'E',
                Kind::Panic => 'P',
            });
        }
        s
    }
    fn history_tag(&self) -> &'static str {
        if self.panics_released > 0 {
            "after-panic"
        } else if self.errors_released > 0 {
            "after-error"
        } else if self.returns_released > 0 {
            "after-return"
        } else {
            "fresh"
        }
    }
    /// handler Arcs currently held by dispatches (spawned, queued or running)
    fn inflight(&self) -> usize {
        self.handlers.iter().map(|(h, base)| Arc::strong_count(h).saturating_sub(*base)).sum()
    }

    /// Decide a multiset difference. `exp`/`got` need not be sorted.
    fn compare(&self, cx: Ctxt, exp: &[Fr], got: &[Fr], what_ev: &str) -> R {
        let mut e = exp.to_vec();
        let mut g = got.to_vec();
        e.sort();
        g.sort();
        if e == g {
            return Ok(());
        }
        let mut missing = Vec::new();
        let mut extra = g.clone();
        for x in &e {
            if let Some(p) = extra.iter().position(|y| y == x) {
                extra.remove(p);
            } else {
                missing.push(x.clone());
            }
        }
        let tail = format!(
            "{what_ev} with {} handler(s) parked (cap {}): predicted {}, received {}",
            self.running.len(),
            if self.cfg.cap == 0 { "unlimited".to_string() } else { self.cfg.cap.to_string() },
            show(&e),
            show(&g)
        );
        if let Some(m) = missing.first() {
            let same_id = extra.iter().any(|x| x.id == m.id);
            let same_ec = extra.iter().any(|x| x.ec == m.ec);
            let key = match m.ec {
                EC_RESOURCE_EXHAUSTED => {
                    if same_id {
                        "C16:saturation-reply:wrong-code"
                    } else if same_ec {
                        "C16:saturation-reply:wrong-id"
                    } else {
                        "C16:saturation-reply:missing"
                    }
                }
                EC_INTERNAL => {
                    if same_id {
                        "C16:panic-reply:wrong-code"
                    } else if same_ec {
                        "C16:panic-reply:wrong-id"
                    } else {
                        "C16:panic-reply:missing"
                    }
                }
                _ if cx == Ctxt::Inline => "C16:inline-reply:wrong-or-missing",
                _ => {
                    if same_id {
                        "C16:handler-result:wrong"
                    } else {
                        "C16:handler-result:missing"
                    }
                }
            };
            return Err(self.bad(key, tail));
        }
        let x = extra.iter().find(|x| self.notify_ids.contains(&x.id)).unwrap_or(&extra[0]);
        if cx == Ctxt::AtCapNotify || self.notify_ids.contains(&x.id) {
            return Err(self.bad(if x.ec == EC_RESOURCE_EXHAUSTED { "C16:notify-at-cap-answered" } else { "C16:notify-answered" }, tail));
        }
        if x.ec == EC_RESOURCE_EXHAUSTED && matches!(cx, Ctxt::BelowCap | Ctxt::Burst) {
            return Err(self.bad(&format!("C16:rejected-below-cap:{}", self.history_tag()), tail));
        }
        Err(self.bad("C16:unexpected-frame", tail))
    }

    async fn send(&mut self, f: &Frame) -> R {
        self.conn.send_frame(f).await.map_err(|e| self.bad("C16:connection-died", format!("send failed: {e}")))
    }

    /// One frame under the watchdog.
    async fn recv(&mut self, waiting_for: &str) -> Result<Frame, Bad> {
        match self.conn.next(WATCHDOG).await {
            Got::Frame(f) => {
                self.st.frames += 1;
                Ok(f)
            }
            Got::Nothing => {
                let where_ = if self.at_cap() {
                    "at-cap"
                } else if !self.running.is_empty() {
                    "handlers-parked"
                } else {
                    "idle"
                };
                Err(self.hang(
                    &format!("C16:no-answer:{waiting_for}:{where_}"),
                    format!(
                        "{waiting_for} did not arrive within {WATCHDOG:?} with {} handler(s) parked (cap {})",
                        self.running.len(),
                        self.cfg.cap
                    ),
                ))
            }
            other => Err(self.bad(
                "C16:connection-died",
                format!("while waiting for {waiting_for} the connection delivered {other:?} ({} handlers parked)", self.running.len()),
            )),
        }
    }

    /// Inline fence: everything the server sent before the fence's reply.
    async fn fence(&mut self) -> Result<Vec<Fr>, Bad> {
        self.fence_n += 1;
        let fid = FENCE_BASE + self.fence_n;
        let body = format!("{{\"f\":{}}}", self.fence_n);
        self.send(&Frame::request(fid, "/echo", body.as_bytes(), 2, false)).await?;
        let mut out = Vec::new();
        loop {
            let f = self.recv("inline-reply").await?;
            if f.h.id == fid {
                let fr = Fr::of(&f);
                let want = json!({"got": {"f": self.fence_n}}).to_string();
                if fr.ec != 0 || fr.body != want {
                    return Err(self.bad(
                        "C16:inline-reply:wrong-or-missing",
                        format!("inline request {fid} answered with {} instead of {want}", fr.show()),
                    ));
                }
                if !self.running.is_empty() {
                    self.st.inline_while_parked += 1;
                }
                if self.at_cap() {
                    self.st.inline_at_cap += 1;
                }
                return Ok(out);
            }
            let fr = Fr::of(&f);
            self.all_got.push(fr.clone());
            out.push(fr);
        }
    }

    fn expect(&mut self, exp: &[Fr]) {
        self.all_exp.extend_from_slice(exp);
        self.st.predicted.extend_from_slice(exp);
    }

    /// Gauge / thread / start-set clauses at a synchronised point.
    fn check_gauge(&mut self, what_ev: &str) -> R {
        if self.sh.on_reader.load(SeqCst) > 0 {
            return Err(self.bad(
                "C16:handler-on-reader-thread",
                format!(
                    "{what_ev}: the handler of a *_blocking route (middleware: {}) ran on the connection's reader task instead of a blocking thread, so the reader cannot read while it runs",
                    self.cfg.mw
                ),
            ));
        }
        // A dispatch the model does not know about (e.g. a notify that should
        // have been dropped): wait for the positive event, its handler running,
        // before looking at the gauge (so the verdict does not depend on how far
        // that thread has got).
        let mut unpredicted = false;
        let mut seen = 0usize;
        if self.inflight() > self.running.len() {
            let deadline = Instant::now() + WATCHDOG;
            loop {
                seen = self.sh.gauge.load(SeqCst);
                if seen > self.running.len() {
                    unpredicted = true;
                    break;
                }
                if Instant::now() >= deadline {
                    self.st.quiesce_timeouts += 1;
                    break;
                }
                std::thread::sleep(Duration::from_micros(50));
            }
        }
        // (the handler bumps the gauge before it publishes the maximum)
        let max = self.sh.max_gauge.load(SeqCst).max(seen);
        self.st.max_gauge = self.st.max_gauge.max(max);
        if let Some(c) = self.cfg.limit() {
            if max > c {
                return Err(self.bad("C16:gauge-exceeds-cap", format!("{what_ev}: {max} handlers were running simultaneously, cap is {c}")));
            }
        }
        if unpredicted {
            return Err(self.bad(
                "C16:handler-started-unpredicted",
                format!(
                    "{what_ev}: {} handlers running, the model has {} (cap {}); started gates {:?}, model {:?}",
                    self.sh.gauge.load(SeqCst),
                    self.running.len(),
                    self.cfg.cap,
                    self.sh.started.lock().unwrap(),
                    self.started_ids
                ),
            ));
        }
        let g = self.sh.gauge.load(SeqCst);
        if g != self.running.len() {
            return Err(self.bad(
                "C16:gauge-differs-from-model",
                format!("{what_ev}: {g} handlers running, the model has {} (cap {})", self.running.len(), self.cfg.cap),
            ));
        }
        Ok(())
    }

    /// Wait until the blocking tasks of released handlers are gone (their
    /// permit is dropped before the handler Arc).
    fn quiesce(&mut self) {
        let deadline = Instant::now() + WATCHDOG;
        let mut spins = 0u32;
        while self.inflight() > self.running.len() {
            if Instant::now() >= deadline {
                self.st.quiesce_timeouts += 1;
                return;
            }
            spins += 1;
            if spins < 2000 {
                std::thread::yield_now();
            } else {
                std::thread::sleep(Duration::from_micros(50));
            }
        }
    }

    fn offreader_frame(&mut self, kind: Kind, notify: bool) -> (u64, Frame) {
        self.next_id += 1;
        let id = self.next_id;
        let path = ROUTES[(self.sent_off + self.cfg.rot as usize) % 4];
        self.sent_off += 1;
        let _ = self.sh.gate(id);
        if notify {
            self.notify_ids.insert(id);
        }
        // every other panicking request is a LARGE frame (40 KB of padding the handlers ignore): whatever a
        // server does differently with large requests, a panic in their handler is reported like any other
        let pad = if kind.name() == "panic" && id % 2 == 0 { 40_000 } else { 0 };
        let body = format!("{{\"g\":{id},\"k\":\"{}\",\"pad\":\"{}\"}}", kind.name(), "x".repeat(pad));
        (id, Frame::request(id, path, body.as_bytes(), 2, notify))
    }

    /// Model transition for one off-reader message; returns the predicted frames.
    fn model_offreader(&mut self, id: u64, kind: Kind, notify: bool) -> (bool, Vec<Fr>) {
        if self.at_cap() {
            self.exp_saturation += 1;
            if self.in_events {
                if notify {
                    self.st.sat_notifies += 1;
                } else {
                    self.st.sat_requests += 1;
                }
            }
            let exp = if notify { vec![] } else { vec![Fr { id, ec: EC_RESOURCE_EXHAUSTED, body: String::new() }] };
            (false, exp)
        } else {
            let ord = self.started_ids.len();
            self.started_ids.push(id);
            self.running.push(Running { id, kind, notify, ord });
            if self.released_any && self.in_events {
                self.st.accepted_after_release += 1;
            }
            (true, vec![])
        }
    }

    fn await_parked(&mut self, id: u64, what_ev: &str) -> R {
        if self.sh.on_reader.load(SeqCst) > 0 {
            return Ok(()); // reported by check_gauge with its own key
        }
        if self.inflight() < self.running.len() {
            let sat = self.sh.hook.lock().unwrap().iter().filter(|h| h.0 == 0).count() as u64;
            if sat > self.exp_saturation {
                return Err(self.bad(
                    &format!("C16:dropped-below-cap:{}", self.history_tag()),
                    format!(
                        "{what_ev}: message {id} was not dispatched and the server reported Saturation although only {} of {} slots were taken",
                        self.running.len() - 1,
                        self.cfg.cap
                    ),
                ));
            }
        }
        if !self.sh.gate(id).await_waiting(1) {
            return Err(self.hang(
                "C16:accepted-handler-never-started",
                format!("{what_ev}: the handler of request {id} did not start although {} of {} slots were free", self.running.len() - 1, self.cfg.cap),
            ));
        }
        Ok(())
    }

    fn saturation_events(&self) -> u64 {
        self.sh.hook.lock().unwrap().iter().filter(|h| h.0 == 0).count() as u64
    }

    async fn ev_offreader(&mut self, kind: Kind, notify: bool) -> R {
        let what_ev = format!("off-reader {} ({})", if notify { "notify" } else { "request" }, kind.name());
        let t0 = Instant::now();
        let mut tries = 0u32;
        loop {
            let (id, frame) = self.offreader_frame(kind, notify);
            let was_at_cap = self.at_cap();
            let (accepted, exp) = self.model_offreader(id, kind, notify);
            self.expect(&exp);
            self.send(&frame).await?;
            let got = self.fence().await?;
            if self.sh.on_reader.load(SeqCst) > 0 {
                self.check_gauge(&what_ev)?;
            }
            // The property makes a rejection retryable and does not say that the slot
            // of a finished handler is free at the very instant its response is
            // visible. A rejection below the cap after a release is therefore only a
            // leak if it persists: follow the server's answer in the model and retry
            // (bounded). On the unchanged tree this never triggers (measured).
            let mut persisted = false;
            if accepted && self.released_any {
                let re = Fr { id, ec: EC_RESOURCE_EXHAUSTED, body: String::new() };
                let rejected = if notify {
                    got.is_empty() && self.inflight() < self.running.len() && self.saturation_events() > self.exp_saturation
                } else {
                    got.len() == 1 && got[0] == re
                };
                if rejected && t0.elapsed() < RETRY_BUDGET {
                    self.running.pop();
                    self.started_ids.pop();
                    if self.in_events {
                        self.st.accepted_after_release -= 1;
                    }
                    self.exp_saturation += 1;
                    if !notify {
                        self.expect(&[re]);
                    }
                    tries += 1;
                    std::thread::sleep(Duration::from_micros(200));
                    continue;
                }
                persisted = rejected;
            }
            if tries > 0 && !persisted {
                self.st.late_slot_release += 1;
            }
            let cx = match (was_at_cap, notify) {
                (true, false) => Ctxt::AtCapRequest,
                (true, true) => Ctxt::AtCapNotify,
                _ => Ctxt::BelowCap,
            };
            let slow = |mut b: Bad| {
                b.slow = persisted;
                if persisted {
                    b.what = format!("{} (persisted over {tries} retries in {:?})", b.what, t0.elapsed());
                }
                b
            };
            self.compare(cx, &exp, &got, &format!("{what_ev} id {id}")).map_err(slow)?;
            if accepted {
                self.await_parked(id, &what_ev).map_err(slow)?;
            }
            return self.check_gauge(&what_ev);
        }
    }

    async fn ev_inline(&mut self) -> R {
        self.next_id += 1;
        let id = self.next_id;
        let body = format!("{{\"i\":{id}}}");
        let exp = vec![Fr { id, ec: 0, body: json!({"got": {"i": id}}).to_string() }];
        self.expect(&exp);
        self.send(&Frame::request(id, "/echo", body.as_bytes(), 2, false)).await?;
        let got = self.fence().await?;
        self.compare(Ctxt::Inline, &exp, &got, &format!("inline request id {id}"))?;
        self.check_gauge("inline request")
    }

    fn note_release(&mut self, r: &Running) {
        self.released_any = true;
        if self.running.iter().any(|o| o.ord < r.ord) && self.in_events {
            self.st.non_fifo_release += 1;
        }
        if self.in_events {
            self.st.release_order.push(r.ord);
        }
        match (r.kind, r.notify) {
            (Kind::Panic, n) => {
                self.exp_panic_events += 1;
                self.panics_released += 1;
                if self.in_events {
                    if n {
                        self.st.notify_panics += 1;
                    } else {
                        self.st.panics += 1;
                    }
                }
            }
            (Kind::Err, _) => {
                self.errors_released += 1;
                if self.in_events {
                    self.st.errors += 1;
                }
            }
            (Kind::Ret, _) => {
                self.returns_released += 1;
                if self.in_events {
                    self.st.returns += 1;
                }
            }
        }
    }

    async fn ev_release(&mut self, j: usize) -> R {
        let r = self.running.remove(j);
        let what_ev = format!("release of handler {} ({}{})", r.id, r.kind.name(), if r.notify { ", notify" } else { "" });
        self.note_release(&r);
        let exp: Vec<Fr> = r.result().into_iter().collect();
        self.expect(&exp);
        self.sh.gate(r.id).open();
        if !exp.is_empty() {
            let f = self.recv(if r.kind == Kind::Panic { "panic-reply" } else { "handler-result" }).await?;
            let fr = Fr::of(&f);
            self.all_got.push(fr.clone());
            self.compare(Ctxt::Release, &exp, &[fr], &what_ev)?;
        }
        self.quiesce();
        let got = self.fence().await?;
        self.compare(Ctxt::Quiet, &[], &got, &format!("after {what_ev}"))?;
        self.check_gauge(&what_ev)
    }

    async fn ev_release_all(&mut self) -> R {
        let rs: Vec<Running> = std::mem::take(&mut self.running);
        let mut exp = Vec::new();
        for r in &rs {
            self.note_release(r);
            exp.extend(r.result());
        }
        self.expect(&exp);
        for r in &rs {
            self.sh.gate(r.id).open();
        }
        let mut got = Vec::new();
        for _ in 0..exp.len() {
            let f = self.recv("handler-result").await?;
            let fr = Fr::of(&f);
            self.all_got.push(fr.clone());
            got.push(fr);
        }
        let what_ev = format!("release of all {} parked handlers at once", rs.len());
        self.compare(Ctxt::Release, &exp, &got, &what_ev)?;
        self.quiesce();
        let got = self.fence().await?;
        self.compare(Ctxt::Quiet, &[], &got, &format!("after {what_ev}"))?;
        self.check_gauge(&what_ev)
    }

    async fn ev_burst(&mut self, n: usize) -> R {
        let what_ev = format!("burst of {n} off-reader messages");
        let mut exp = Vec::new();
        let mut accepted = Vec::new();
        let mut frames = Vec::new();
        for i in 0..n {
            let kind = Kind::ALL[i % 3];
            let notify = i % 5 == 4;
            let (id, frame) = self.offreader_frame(kind, notify);
            let (ok, e) = self.model_offreader(id, kind, notify);
            if ok {
                accepted.push(id);
            }
            exp.extend(e);
            frames.push(frame);
        }
        self.expect(&exp);
        for f in &frames {
            self.send(f).await?;
        }
        let got = self.fence().await?;
        if self.sh.on_reader.load(SeqCst) > 0 {
            self.check_gauge(&what_ev)?;
        }
        self.compare(Ctxt::Burst, &exp, &got, &what_ev)?;
        for id in accepted {
            self.await_parked(id, &what_ev)?;
        }
        self.check_gauge(&what_ev)
    }

    async fn apply(&mut self, ev: Ev) -> R {
        self.st.transitions += 1;
        let r = match ev {
            Ev::Req(k) => self.ev_offreader(k, false).await,
            Ev::Notify(k) => self.ev_offreader(k, true).await,
            Ev::Inline => self.ev_inline().await,
            Ev::Release(j) => {
                if (j as usize) >= self.running.len() {
                    return Err(self.bad("C16:harness:bad-script", format!("release:{j} with {} parked", self.running.len())));
                }
                self.ev_release(j as usize).await
            }
            Ev::Burst(n) => self.ev_burst(n as usize).await,
            Ev::ReleaseAll => self.ev_release_all().await,
        };
        self.st.states.push(self.canon());
        r
    }

    /// After the enumerated events: drain, prove that every slot is free again,
    /// prove the connection is still usable, close, compare everything.
    async fn epilogue(&mut self) -> R {
        self.in_events = false;
        while !self.running.is_empty() {
            self.step += 1;
            self.st.transitions += 1;
            self.ev_release(0).await?;
        }
        // every slot must be available again: the next `cap` requests all start
        let refill = self.cfg.limit().unwrap_or(4);
        for i in 0..refill {
            self.step += 1;
            self.st.transitions += 1;
            self.ev_offreader(Kind::ALL[i % 3], false).await?;
            self.st.refill_started += 1;
        }
        if self.cfg.limit().is_some() {
            // ... and the one after that is rejected, a notify dropped
            self.step += 1;
            self.st.transitions += 2;
            self.ev_offreader(Kind::Ret, false).await?;
            self.ev_offreader(Kind::Ret, true).await?;
        }
        while !self.running.is_empty() {
            self.step += 1;
            self.st.transitions += 1;
            let last = self.running.len() - 1;
            self.ev_release(last).await?;
        }
        self.step += 1;
        self.st.transitions += 1;
        self.ev_inline().await?;
        // handlers that ran == handlers the model started
        let mut started = self.sh.started.lock().unwrap().clone();
        started.sort();
        let mut want = self.started_ids.clone();
        want.sort();
        if started != want {
            return Err(self.bad(
                "C16:handler-started-unpredicted",
                format!("handlers ran for request ids {started:?}, the model started {want:?} (cap {})", self.cfg.cap),
            ));
        }
        if self.conn.server.is_finished() {
            return Err(self.bad("C16:connection-died", "the server's connection task ended before the client closed".into()));
        }
        // close from the client side; nothing but the close handshake may follow
        let _ = self.conn.client.close(None).await;
        loop {
            match self.conn.next(WATCHDOG).await {
                Got::Frame(f) => {
                    let fr = Fr::of(&f);
                    self.all_got.push(fr);
                }
                Got::Close => continue,
                Got::Nothing => return Err(self.hang("C16:no-answer:close:idle", "the connection did not close after the client's close".into())),
                _ => break,
            }
        }
        let mut e = self.all_exp.clone();
        let mut g = self.all_got.clone();
        e.sort();
        g.sort();
        if e != g {
            return Err(self.bad(
                "C16:final-multiset",
                format!("all frames received over the connection {} differ from the model's {}", show(&g), show(&e)),
            ));
        }
        match tokio::time::timeout(WATCHDOG, &mut self.conn.server).await {
            Ok(Ok(Ok(()))) => {}
            Ok(Ok(Err(e))) => self.st.serve_result_note = Some(format!("serve_connection returned Err({e}) after a clean client close")),
            Ok(Err(e)) => self.st.serve_result_note = Some(format!("connection task failed: {e}")),
            Err(_) => self.st.serve_result_note = Some("connection task still running 10 s after the close handshake".into()),
        }
        // error-hook events: more specific than the property -> informational
        let hook = self.sh.hook.lock().unwrap().clone();
        let sat = hook.iter().filter(|h| h.0 == 0).count() as u64;
        let pan = hook.iter().filter(|h| h.0 == 1).count() as u64;
        self.st.hook_saturation = sat;
        self.st.hook_panic = pan;
        if sat != self.exp_saturation || pan != self.exp_panic_events || hook.iter().any(|h| h.0 == 2) {
            self.st.hook_mismatch = Some(format!(
                "on_error saw {sat} Saturation / {pan} HandlerPanic events, model predicts {} / {}; others: {:?}",
                self.exp_saturation,
                self.exp_panic_events,
                hook.iter().filter(|h| h.0 == 2).collect::<Vec<_>>()
            ));
        }
        Ok(())
    }
}

async fn exec(cfg: Cfg, events: &[Ev]) -> Outcome {
    let sh = Shared::new();
    let router = build_router(&cfg, &sh);
    let handles: Vec<Arc<dyn repe::server::HandlerErased>> = ROUTES.iter().map(|p| router.get(p).expect("route")).collect();
    let hook_sh = sh.clone();
    let mut server = WebSocketServer::new(router).with_offreader_limit(cfg.cap);
    if cfg.oc > 0 {
        server = server.with_outbound_capacity(cfg.oc);
    }
    let server = server.on_error(move |e: &ConnectionError| {
        let rec = match e {
            ConnectionError::Saturation { method } => (0u8, method.clone()),
            ConnectionError::HandlerPanic { method } => (1u8, method.clone()),
            other => (2u8, other.to_string()),
        };
        hook_sh.hook.lock().unwrap().push(rec);
    });
    let shared_srv = server.into_shared();
    let handlers = handles.into_iter().map(|h| { let base = Arc::strong_count(&h); (h, base) }).collect();
    let conn = wsh::connect(&shared_srv, Serve::Plain, None).await;
    let mut r = Runner {
        cfg,
        sh: sh.clone(),
        conn,
        handlers,
        running: Vec::new(),
        started_ids: Vec::new(),
        notify_ids: BTreeSet::new(),
        next_id: 100,
        sent_off: 0,
        fence_n: 0,
        step: 0,
        in_events: true,
        released_any: false,
        panics_released: 0,
        errors_released: 0,
        returns_released: 0,
        exp_saturation: 0,
        exp_panic_events: 0,
        all_exp: Vec::new(),
        all_got: Vec::new(),
        st: ScenStats::default(),
    };
    r.st.states.push(r.canon());
    let mut bad = None;
    for (i, ev) in events.iter().enumerate() {
        r.step = i;
        if let Err(b) = r.apply(*ev).await {
            bad = Some(b);
            break;
        }
    }
    if bad.is_none() {
        r.step = events.len();
        if let Err(b) = r.epilogue().await {
            bad = Some(b);
        }
    }
    if let Some(b) = &mut bad {
        // a blocking-route handler on the reader task explains whatever symptom
        // came first (e.g. its panic tearing the connection down)
        if sh.on_reader.load(SeqCst) > 0 && b.key != "C16:handler-on-reader-thread" {
            b.what = format!(
                "the handler of a *_blocking route (middleware: {}) ran on the connection's reader task instead of a blocking thread; first symptom {}: {}",
                cfg.mw, b.key, b.what
            );
            b.key = "C16:handler-on-reader-thread".into();
            b.hang = false;
        }
    }
    // teardown, whatever happened
    sh.open_everything();
    let Runner { conn, mut st, .. } = r;
    let WsConn { client, server, .. } = conn;
    drop(client);
    if !server.is_finished() {
        let mut server = server;
        if tokio::time::timeout(WATCHDOG, &mut server).await.is_err() {
            server.abort();
        }
    }
    st.max_gauge = st.max_gauge.max(sh.max_gauge.load(SeqCst));
    st.mw_calls = sh.mw_calls.load(SeqCst) as u64;
    for i in 0..4 {
        st.route_hits[i] = sh.route_hits[i].load(SeqCst) as u64;
    }
    st.gate_timeouts = sh.gate_timeouts.load(SeqCst) as u64;
    Outcome { bad, st }
}

// ------------------------------------------------------------------ enumeration

/// Every event sequence of length <= depth that the model allows
/// (release:j only while more than j handlers are parked).
fn sequences(cap: Option<usize>, depth: usize, notify_kinds: &[Kind]) -> Vec<Vec<Ev>> {
    fn go(cap: Option<usize>, depth: usize, nk: &[Kind], parked: usize, cur: &mut Vec<Ev>, out: &mut Vec<Vec<Ev>>) {
        out.push(cur.clone());
        if cur.len() == depth {
            return;
        }
        let accept = cap.is_none_or(|c| parked < c);
        let mut letters: Vec<(Ev, usize)> = Vec::new();
        for k in Kind::ALL {
            letters.push((Ev::Req(k), parked + accept as usize));
        }
        for k in nk {
            letters.push((Ev::Notify(*k), parked + accept as usize));
        }
        letters.push((Ev::Inline, parked));
        for j in 0..parked {
            letters.push((Ev::Release(j as u8), parked - 1));
        }
        for (ev, p) in letters {
            cur.push(ev);
            go(cap, depth, nk, p, cur, out);
            cur.pop();
        }
    }
    let mut out = Vec::new();
    go(cap, depth, notify_kinds, 0, &mut Vec::new(), &mut out);
    out
}

/// 4 x cap simultaneous messages, released all at once / one by one.
fn burst_scenarios(cap: usize) -> Vec<Vec<Ev>> {
    if cap == 0 {
        return vec![vec![Ev::Burst(64), Ev::ReleaseAll], vec![Ev::Burst(24), Ev::Release(5), Ev::Release(0), Ev::Inline, Ev::ReleaseAll]];
    }
    let n = (4 * cap) as u16;
    let mut v = Vec::new();
    v.push(vec![Ev::Burst(n), Ev::ReleaseAll]);
    v.push(std::iter::once(Ev::Burst(n)).chain((0..cap).map(|_| Ev::Release(0))).collect());
    v.push(std::iter::once(Ev::Burst(n)).chain((0..cap).rev().map(|j| Ev::Release(j as u8))).collect());
    // free one slot in the middle, take it again, be rejected again
    let mut w = vec![Ev::Burst(n)];
    for i in 0..cap {
        w.push(Ev::Release(((i * 7 + cap / 2) % cap) as u8));
        w.push(Ev::Req(Kind::ALL[(i + 2) % 3]));
        w.push(Ev::Req(Kind::Ret));
        w.push(Ev::Inline);
    }
    v.push(w);
    v
}

struct Plan {
    cfg: Cfg,
    seqs: Arc<Vec<Vec<Ev>>>,
    /// every allowed sequence of length <= depth ...
    depth: usize,
    /// ... for the two "deep" configurations also those of length <= deep
    deep: usize,
    bursts: usize,
}

fn plans(tier: Tier) -> Vec<Plan> {
    let mut out = Vec::new();
    // (cap, depth for all 8 configurations, depth for the 2 deep configurations)
    let caps: Vec<(usize, usize, usize)> = match tier {
        Tier::Quick => vec![(1, 5, 6), (2, 5, 6), (3, 5, 6)],
        Tier::Thorough => vec![(1, 6, 7), (2, 6, 7), (3, 6, 7), (16, 5, 5), (0, 5, 6)],
    };
    let nk: Vec<Kind> = tier.pick(vec![Kind::Ret], vec![Kind::Ret, Kind::Panic]);
    for (cap, depth, deep) in caps {
        let limit = (cap > 0).then_some(cap);
        let all = sequences(limit, deep, &nk);
        let mut shallow: Vec<Vec<Ev>> = all.iter().filter(|s| s.len() <= depth).cloned().collect();
        let b = burst_scenarios(cap);
        let bursts = b.len();
        shallow.extend(b);
        if matches!(tier, Tier::Thorough) && cap == 16 {
            // deep sequences from a nearly full connection: 14 parked, then every
            // sequence of depth 3 (release letters for all parked handlers)
            for tail in sequences_from(16, 14, 3, &nk) {
                let mut v = vec![Ev::Burst(14)];
                v.extend(tail);
                shallow.push(v);
            }
        }
        // the same bursts and the short sequences with an outbound queue of 1 and 2
        if cap > 0 {
            let mut tight: Vec<Vec<Ev>> = all.iter().filter(|s| s.len() <= 3).cloned().collect();
            tight.extend(burst_scenarios(cap));
            let tight = Arc::new(tight);
            for oc in [1usize, 2] {
                out.push(Plan { cfg: Cfg { cap, mw: oc == 2, rot: 0, oc }, seqs: tight.clone(), depth: 3, deep: 3, bursts });
            }
        }
        let extra: Vec<Vec<Ev>> = all.into_iter().filter(|s| s.len() > depth).collect();
        let shallow = Arc::new(shallow);
        let extra = Arc::new(extra);
        for mw in [false, true] {
            for rot in 0..4u8 {
                let cfg = Cfg { cap, mw, rot, oc: 0 };
                out.push(Plan { cfg, seqs: shallow.clone(), depth, deep: depth, bursts });
                // deep configurations: plain with rotation 0, middleware (registered
                // after the routes) with rotation 1
                if deep > depth && ((!mw && rot == 0) || (mw && rot == 1)) {
                    out.push(Plan { cfg, seqs: extra.clone(), depth, deep, bursts: 0 });
                }
            }
        }
    }
    out
}

/// like `sequences`, starting with `parked` handlers already parked; only the
/// maximal sequences (length == depth) are returned (prefixes are checked on the way)
fn sequences_from(cap: usize, parked: usize, depth: usize, nk: &[Kind]) -> Vec<Vec<Ev>> {
    fn go(cap: usize, depth: usize, nk: &[Kind], parked: usize, cur: &mut Vec<Ev>, out: &mut Vec<Vec<Ev>>) {
        if cur.len() == depth {
            out.push(cur.clone());
            return;
        }
        let accept = parked < cap;
        let mut letters: Vec<(Ev, usize)> = Vec::new();
        for k in Kind::ALL {
            letters.push((Ev::Req(k), parked + accept as usize));
        }
        for k in nk {
            letters.push((Ev::Notify(*k), parked + accept as usize));
        }
        letters.push((Ev::Inline, parked));
        for j in 0..parked {
            letters.push((Ev::Release(j as u8), parked - 1));
        }
        for (ev, p) in letters {
            cur.push(ev);
            go(cap, depth, nk, p, cur, out);
            cur.pop();
        }
    }
    let mut out = Vec::new();
    go(cap, depth, nk, parked, &mut Vec::new(), &mut out);
    out
}

// ------------------------------------------------------------------ driver

fn runtime() -> tokio::runtime::Runtime {
    tokio::runtime::Builder::new_current_thread().enable_time().max_blocking_threads(512).build().expect("runtime")
}

fn install_panic_hook() {
    let default = std::panic::take_hook();
    std::panic::set_hook(Box::new(move |info| {
        let msg = info
            .payload()
            .downcast_ref::<String>()
            .map(|s| s.as_str())
            .or_else(|| info.payload().downcast_ref::<&str>().copied())
            .unwrap_or("");
        if msg.contains(PANIC_MARK) {
            return;
        }
        default(info)
    }));
}

fn case_json(cfg: &Cfg, events: &[Ev]) -> Value {
    json!({"cfg": cfg.json(), "events": events.iter().map(|e| e.name()).collect::<Vec<_>>()})
}

#[derive(Default)]
struct Agg {
    scenarios: u64,
    transitions: u64,
    frames: u64,
    states: BTreeSet<String>,
    per_cap: BTreeMap<usize, CapAgg>,
    mw_calls: u64,
    mw_scenarios: u64,
    route_hits: [u64; 4],
    hook_saturation: u64,
    hook_panic: u64,
    hook_mismatches: u64,
    first_hook_mismatch: Option<String>,
    quiesce_timeouts: u64,
    gate_timeouts: u64,
    late_slot_release: u64,
    serve_notes: u64,
    first_serve_note: Option<String>,
    bad_scenarios: u64,
}

#[derive(Default)]
struct CapAgg {
    scenarios: u64,
    reached_saturation: u64,
    sat_requests: u64,
    sat_notifies: u64,
    with_panic: u64,
    panics: u64,
    notify_panics: u64,
    errors: u64,
    returns: u64,
    inline_while_parked: u64,
    inline_at_cap: u64,
    accepted_after_release: u64,
    non_fifo_release: u64,
    release_orders: BTreeSet<Vec<usize>>,
    max_gauge: usize,
    refill_started: u64,
}

impl Agg {
    fn add(&mut self, cfg: &Cfg, st: &ScenStats, bad: bool) {
        self.scenarios += 1;
        self.transitions += st.transitions;
        self.frames += st.frames;
        for s in &st.states {
            if !self.states.contains(s) {
                self.states.insert(s.clone());
            }
        }
        let c = self.per_cap.entry(cfg.cap).or_default();
        c.scenarios += 1;
        if st.sat_requests + st.sat_notifies > 0 {
            c.reached_saturation += 1;
        }
        c.sat_requests += st.sat_requests;
        c.sat_notifies += st.sat_notifies;
        if st.panics + st.notify_panics > 0 {
            c.with_panic += 1;
        }
        c.panics += st.panics;
        c.notify_panics += st.notify_panics;
        c.errors += st.errors;
        c.returns += st.returns;
        c.inline_while_parked += st.inline_while_parked;
        c.inline_at_cap += st.inline_at_cap;
        c.accepted_after_release += st.accepted_after_release;
        c.non_fifo_release += st.non_fifo_release;
        if !st.release_order.is_empty() && !c.release_orders.contains(&st.release_order) {
            c.release_orders.insert(st.release_order.clone());
        }
        c.max_gauge = c.max_gauge.max(st.max_gauge);
        c.refill_started += st.refill_started;
        self.mw_calls += st.mw_calls;
        if cfg.mw {
            self.mw_scenarios += 1;
        }
        for i in 0..4 {
            self.route_hits[i] += st.route_hits[i];
        }
        self.hook_saturation += st.hook_saturation;
        self.hook_panic += st.hook_panic;
        if let Some(m) = &st.hook_mismatch {
            self.hook_mismatches += 1;
            self.first_hook_mismatch.get_or_insert_with(|| m.clone());
        }
        self.quiesce_timeouts += st.quiesce_timeouts;
        self.gate_timeouts += st.gate_timeouts;
        self.late_slot_release += st.late_slot_release;
        if let Some(m) = &st.serve_result_note {
            self.serve_notes += 1;
            self.first_serve_note.get_or_insert_with(|| m.clone());
        }
        if bad {
            self.bad_scenarios += 1;
        }
    }
    fn merge(&mut self, o: Agg) {
        self.scenarios += o.scenarios;
        self.transitions += o.transitions;
        self.frames += o.frames;
        self.states.extend(o.states);
        for (cap, c) in o.per_cap {
            let d = self.per_cap.entry(cap).or_default();
            d.scenarios += c.scenarios;
            d.reached_saturation += c.reached_saturation;
            d.sat_requests += c.sat_requests;
            d.sat_notifies += c.sat_notifies;
            d.with_panic += c.with_panic;
            d.panics += c.panics;
            d.notify_panics += c.notify_panics;
            d.errors += c.errors;
            d.returns += c.returns;
            d.inline_while_parked += c.inline_while_parked;
            d.inline_at_cap += c.inline_at_cap;
            d.accepted_after_release += c.accepted_after_release;
            d.non_fifo_release += c.non_fifo_release;
            d.release_orders.extend(c.release_orders);
            d.max_gauge = d.max_gauge.max(c.max_gauge);
            d.refill_started += c.refill_started;
        }
        self.mw_calls += o.mw_calls;
        self.mw_scenarios += o.mw_scenarios;
        for i in 0..4 {
            self.route_hits[i] += o.route_hits[i];
        }
        self.hook_saturation += o.hook_saturation;
        self.hook_panic += o.hook_panic;
        self.hook_mismatches += o.hook_mismatches;
        if self.first_hook_mismatch.is_none() {
            self.first_hook_mismatch = o.first_hook_mismatch;
        }
        self.quiesce_timeouts += o.quiesce_timeouts;
        self.gate_timeouts += o.gate_timeouts;
        self.late_slot_release += o.late_slot_release;
        self.serve_notes += o.serve_notes;
        if self.first_serve_note.is_none() {
            self.first_serve_note = o.first_serve_note;
        }
        self.bad_scenarios += o.bad_scenarios;
    }
}

struct Worker {
    rt: tokio::runtime::Runtime,
    agg: Agg,
}

pub fn run(tier: Tier) -> ! {
    let ctx = Ctx::new("C16", tier);
    install_panic_hook();
    let plans = plans(tier);
    // index space: plan-major
    let mut offsets = Vec::with_capacity(plans.len());
    let mut total: u64 = 0;
    for p in &plans {
        offsets.push(total);
        total += p.seqs.len() as u64;
    }
    // fixed sample positions (deterministic evidence): three sequences of the first
    // configuration, one of the last
    let sample_idx: BTreeSet<u64> = {
        let n0 = plans[0].seqs.len() as u64;
        let last = plans.len() - 1;
        let nl = plans[last].seqs.len() as u64;
        [n0 / 3, n0 / 2, n0 - 1, offsets[last] + nl / 2].into_iter().collect()
    };
    let samples: Mutex<BTreeMap<u64, Value>> = Mutex::new(BTreeMap::new());
    let confirmed: Mutex<BTreeSet<String>> = Mutex::new(BTreeSet::new());
    let nondeterminism: Mutex<Option<String>> = Mutex::new(None);
    let hangs = AtomicUsize::new(0);
    let slows = AtomicUsize::new(0);
    let skipped = AtomicU64::new(0);
    let deadline = Instant::now() + Duration::from_secs(crate::ctx::budget_secs(tier.pick(150, 3000)));

    let workers = par::for_each_index(
        total,
        4,
        |_| Worker { rt: runtime(), agg: Agg::default() },
        |w, idx| {
            if hangs.load(SeqCst) >= 2 || slows.load(SeqCst) >= 24 || Instant::now() > deadline {
                skipped.fetch_add(1, SeqCst);
                return;
            }
            let pi = match offsets.binary_search(&idx) {
                Ok(i) => i,
                Err(i) => i - 1,
            };
            let plan = &plans[pi];
            let events = &plan.seqs[(idx - offsets[pi]) as usize];
            let out = w.rt.block_on(exec(plan.cfg, events));
            w.agg.add(&plan.cfg, &out.st, out.bad.is_some());
            if out.bad.is_none() && sample_idx.contains(&idx) {
                let predicted: Vec<String> = out.st.predicted.iter().map(|f| f.show()).collect();
                samples.lock().unwrap().insert(
                    idx,
                    json!({"case": case_json(&plan.cfg, events), "predicted_frames_incl_epilogue": predicted, "max_gauge": out.st.max_gauge}),
                );
            }
            if let Some(b) = out.bad {
                // re-execute a representative of every new key: a verdict must reproduce
                let fresh = confirmed.lock().unwrap().insert(b.key.clone());
                if fresh {
                    let again = w.rt.block_on(exec(plan.cfg, events));
                    let same = again.bad.as_ref().map(|x| (&x.key, x.step)) == Some((&b.key, b.step));
                    if !same {
                        *nondeterminism.lock().unwrap() = Some(format!(
                            "case {} gave {} at step {} on the first execution and {:?} on the second",
                            case_json(&plan.cfg, events),
                            b.key,
                            b.step,
                            again.bad.map(|x| (x.key, x.step))
                        ));
                        return;
                    }
                }
                if b.hang {
                    hangs.fetch_add(1, SeqCst);
                }
                if b.slow {
                    slows.fetch_add(1, SeqCst);
                }
                let mut case = case_json(&plan.cfg, events);
                case["failed_at_step"] = json!(b.step);
                ctx.violation(b.key.clone(), format!("{} [events {:?}, step {}]", b.what, events.iter().map(|e| e.name()).collect::<Vec<_>>(), b.step), case);
            }
        },
    );
    let mut agg = Agg::default();
    for w in workers {
        agg.merge(w.agg);
    }
    if let Some(m) = nondeterminism.lock().unwrap().take() {
        ctx.machinery(format!("harness nondeterminism: {m}"));
    }
    let skipped = skipped.load(SeqCst);
    let clean = !ctx.has_violation();
    if clean {
        if skipped > 0 {
            ctx.machinery(format!("{skipped} of {total} scenarios not executed (wall cap hit)"));
        }
        if agg.quiesce_timeouts > 0 || agg.gate_timeouts > 0 {
            ctx.machinery(format!("synchronisation watchdogs expired ({} quiesce, {} gate) without a violation", agg.quiesce_timeouts, agg.gate_timeouts));
        }
        for (cap, c) in &agg.per_cap {
            let fail = |what: &str| ctx.machinery(format!("vacuous exploration for cap {cap}: {what}"));
            if *cap > 0 {
                if c.max_gauge != *cap {
                    fail(&format!("max gauge {} never reached the cap", c.max_gauge));
                }
                if c.reached_saturation == 0 || c.sat_requests == 0 || c.sat_notifies == 0 {
                    fail("saturation (request and notify) never reached");
                }
                if c.inline_at_cap == 0 {
                    fail("no inline request answered at the cap");
                }
            }
            if c.with_panic == 0 || c.errors == 0 || c.returns == 0 {
                fail("not all of return / error / panic exits were taken");
            }
            if *cap != 1 && (c.release_orders.len() < 2 || c.non_fifo_release == 0) {
                fail("only one release order explored");
            }
            if c.accepted_after_release == 0 || c.refill_started == 0 {
                fail("no slot re-use observed");
            }
        }
        if agg.mw_calls == 0 || agg.route_hits.iter().any(|h| *h == 0) {
            ctx.machinery("vacuous exploration: middleware or one of the four blocking routes never ran");
        }
    }
    if agg.hook_mismatches > 0 {
        ctx.note(format!(
            "on_error hook events differ from the model in {} scenarios (informational, the property does not state them); first: {}",
            agg.hook_mismatches,
            agg.first_hook_mismatch.clone().unwrap_or_default()
        ));
    }
    if agg.late_slot_release > 0 {
        ctx.note(format!(
            "{} off-reader messages were rejected right after a release and accepted on a retry (slot freed after the response became visible; allowed, resource-exhausted is retryable)",
            agg.late_slot_release
        ));
    }
    if agg.serve_notes > 0 {
        ctx.note(format!("serve_connection result after a clean close, {} scenarios; first: {}", agg.serve_notes, agg.first_serve_note.clone().unwrap_or_default()));
    }
    let mut sm: Vec<Value> = samples.into_inner().unwrap().into_values().collect();
    if sm.is_empty() {
        sm.push(json!({"case": case_json(&plans[0].cfg, &plans[0].seqs[plans[0].seqs.len() / 2])}));
    }
    let per_cap: BTreeMap<String, Value> = agg
        .per_cap
        .iter()
        .map(|(cap, c)| {
            (
                if *cap == 0 { "unlimited".to_string() } else { cap.to_string() },
                json!({
                    "scenarios": c.scenarios,
                    "scenarios_reaching_saturation": c.reached_saturation,
                    "requests_rejected_at_cap": c.sat_requests,
                    "notifies_dropped_at_cap": c.sat_notifies,
                    "scenarios_with_panic": c.with_panic,
                    "panicking_requests_released": c.panics,
                    "panicking_notifies_released": c.notify_panics,
                    "erroring_handlers_released": c.errors,
                    "returning_handlers_released": c.returns,
                    "inline_requests_answered_while_handlers_parked": c.inline_while_parked,
                    "inline_requests_answered_at_cap": c.inline_at_cap,
                    "offreader_accepted_after_a_release": c.accepted_after_release,
                    "releases_overtaking_an_older_parked_handler": c.non_fifo_release,
                    "distinct_release_orders": c.release_orders.len(),
                    "max_gauge": c.max_gauge,
                    "epilogue_refill_handlers_started": c.refill_started,
                }),
            )
        })
        .collect();
    let bounds: Vec<Value> = {
        let mut m: BTreeMap<usize, (usize, usize, u64, u64, usize, usize)> = BTreeMap::new();
        for p in &plans {
            let e = m.entry(p.cfg.cap).or_insert((0, 0, 0, 0, 0, 0));
            e.0 = e.0.max(p.depth);
            e.1 = e.1.max(p.deep);
            if p.deep > p.depth {
                e.3 += p.seqs.len() as u64;
                e.5 += 1;
            } else {
                e.2 += p.seqs.len() as u64;
                e.4 = p.bursts;
            }
        }
        m.iter()
            .map(|(cap, e)| {
                json!({
                    "cap": if *cap == 0 { json!("unlimited") } else { json!(cap) },
                    "depth_all_8_configurations": e.0,
                    "depth_2_deep_configurations": e.1,
                    "scenarios_up_to_depth": e.2,
                    "scenarios_beyond_depth_in_deep_configurations": e.3,
                    "deep_configurations": e.5,
                    "burst_scenarios_per_configuration": e.4,
                })
            })
            .collect()
    };
    let coverage = json!({
        "states": agg.states.len(),
        "transitions": agg.transitions,
        "traces_validated_against_impl": agg.scenarios,
        "frames_checked": agg.frames,
        "samples": sm,
        "exhaustive": skipped == 0,
        "scenarios_skipped": skipped,
        "rule": "for every cap x {plain, middleware-wrapped} x route rotation 0..3 (k-th off-reader message goes to blocking route (k+rot)%4 of json/json_ctx/typed/typed_ctx): every event sequence of length <= depth the model allows, plus 4 x cap burst scenarios; each executed on a fresh in-memory connection to a real SharedWebSocketServer; after every event an inline fence request delimits the frames compared (as a multiset) with the counter-automaton model; an epilogue releases everything, refills all `cap` slots, checks one more rejection and a dropped notify, releases in reverse, closes and compares the whole frame multiset and the set of handlers that ran",
        "bound": bounds,
        "alphabet": {
            "events": ["req:ret", "req:err", "req:panic", tier.pick("notify:ret", "notify:ret, notify:panic"), "inline", "release:j for every parked j", "burst:n / release-all (burst scenarios only)"],
            "configurations": "cap x {plain, middleware} x rotation 0..3",
        },
        "nonvacuity": {
            "per_cap": per_cap,
            "middleware_invocations": agg.mw_calls,
            "scenarios_with_middleware": agg.mw_scenarios,
            "handler_runs_per_blocking_route": {"json": agg.route_hits[0], "json_ctx": agg.route_hits[1], "typed": agg.route_hits[2], "typed_ctx": agg.route_hits[3]},
            "on_error_saturation_events": agg.hook_saturation,
            "on_error_panic_events": agg.hook_panic,
            "on_error_mismatch_scenarios": agg.hook_mismatches,
            "scenarios_with_violation": agg.bad_scenarios,
            "below_cap_rejections_that_vanished_on_retry": agg.late_slot_release,
        },
    });
    ctx.finish(
        "model_checking",
        coverage,
        &[
            "handlers park on harness gates, so 'running' means 'entered and not yet released'; CPU-bound handler timing is not explored",
            "a freed slot is required to be available once the blocking task has ended (observed through the handler Arc's strong count), not at the instant the response frame is visible; a below-cap rejection after a release is retried for 250 ms before it counts as a leaked slot",
            "a *_blocking handler observed on the runtime's only thread is reported as blocking the reader (it cannot be parked there without freezing the harness)",
            "one connection per scenario; the cap is per connection, cross-connection interaction is not explored",
            "tokio's blocking pool is assumed to have a free thread for every permitted handler (max 64 + refill in one scenario)",
        ],
    )
}

pub fn replay(case: &Value) -> Result<(), String> {
    install_panic_hook();
    let c = &case["cfg"];
    let cfg = Cfg {
        cap: c["cap"].as_u64().ok_or("cfg.cap")? as usize,
        mw: c["mw"].as_bool().ok_or("cfg.mw")?,
        rot: c["rot"].as_u64().ok_or("cfg.rot")? as u8,
        oc: c["outbound_capacity"].as_u64().unwrap_or(0) as usize,
    };
    let mut events = Vec::new();
    for e in case["events"].as_array().ok_or("events")? {
        let s = e.as_str().ok_or("event")?;
        events.push(Ev::parse(s).ok_or_else(|| format!("unknown event {s}"))?);
    }
    let rt = runtime();
    let out = rt.block_on(exec(cfg, &events));
    match out.bad {
        None => Ok(()),
        Some(b) => Err(format!("{} (step {}): {}", b.key, b.step, b.what)),
    }
}
