//! C09, transports, several pulls through ONE client connection: two and three
//! pulls one after the other with every ordered pair of puller kinds, a first
//! pull that fails / is abandoned mid-stream / is cancelled mid-stream, and for
//! the async pullers (AsyncClient, WebSocketClient) two and three pull futures
//! joined on the same connection. Every pull must return exactly its own
//! resource's bytes / value (or an error where its own producer failed).

use super::net::{self, NetJob, Transport, boundary_ms};
use super::seam::{NextReq, OpenReq, OpenResp, Val, complex_for_s, logical_s, resource_of, typed_for_s, val_for_s};
use super::{KIND_NAMES, Kind, Pat, kind_idx, pat_from, pat_json};
use crate::ctx::Tier;
use repe::{AsyncSvsClient, BodyFormat, Client, Message, QueryFormat, RepeError};
use serde_json::{Value, json};
use std::io::Read;
use std::sync::Arc;
use tokio::runtime::Runtime;

#[derive(Clone, Copy, Debug, PartialEq, Eq)]
pub enum MPull {
    ToVec,
    Value,
    Typed,
    Complex,
    Consume,
    /// open / next exchanges until the terminal response, then one more next
    Raw,
    /// open, k next exchanges, then the stream is left alone (no cancel)
    RawAbandon(u8),
    /// open, k next exchanges, then a request-form cancel
    RawCancel(u8),
    /// continue the stream an earlier `RawAbandon` of the same sub-case left
    /// open, to its terminal response (sequential sub-cases only)
    RawResume,
}

impl MPull {
    pub fn name(self) -> String {
        match self {
            MPull::ToVec => "pull_to_vec".into(),
            MPull::Value => "pull_value".into(),
            MPull::Typed => "pull_typed_slice".into(),
            MPull::Complex => "pull_complex_slice".into(),
            MPull::Consume => "pull_consume".into(),
            MPull::Raw => "raw-exchanges".into(),
            MPull::RawAbandon(k) => format!("raw-abandon-after-{k}"),
            MPull::RawCancel(k) => format!("raw-cancel-after-{k}"),
            MPull::RawResume => "raw-resume-abandoned".into(),
        }
    }
    fn parse(s: &str) -> Option<MPull> {
        Some(match s {
            "pull_to_vec" => MPull::ToVec,
            "pull_value" => MPull::Value,
            "pull_typed_slice" => MPull::Typed,
            "pull_complex_slice" => MPull::Complex,
            "pull_consume" => MPull::Consume,
            "raw-exchanges" => MPull::Raw,
            "raw-resume-abandoned" => MPull::RawResume,
            _ => {
                if let Some(k) = s.strip_prefix("raw-abandon-after-") {
                    MPull::RawAbandon(k.parse().ok()?)
                } else {
                    MPull::RawCancel(s.strip_prefix("raw-cancel-after-")?.parse().ok()?)
                }
            }
        })
    }
}

#[derive(Clone, Copy, Debug, PartialEq, Eq)]
pub struct Item {
    pub p: MPull,
    pub m: u32,
    pub pat: Pat,
    pub fail_at: Option<u32>,
    /// content salt: different resources of one sub-case have different bytes
    pub salt: u8,
}

#[derive(Clone, Debug)]
pub struct MSub {
    pub transport: Transport,
    pub concurrent: bool,
    pub items: Vec<Item>,
}

fn item_json(it: &Item) -> Value {
    json!({"puller": it.p.name(), "m": it.m, "pattern": pat_json(it.pat), "fail_at": it.fail_at, "salt": it.salt})
}

pub fn case_json(job: &NetJob, sub: &MSub) -> Value {
    json!({
        "layer": "netmulti",
        "chunk_bytes": job.c, "depth": job.depth, "zstd": job.zstd, "kind": KIND_NAMES[kind_idx(job.kind)],
        "zstd_level": super::seam::ZSTD_LEVEL.load(std::sync::atomic::Ordering::Relaxed),
        "transport": sub.transport.name(),
        "mode": if sub.concurrent { "concurrent" } else { "sequential" },
        "pulls": sub.items.iter().map(item_json).collect::<Vec<_>>(),
    })
}

pub fn case_from(v: &Value) -> Option<(NetJob, MSub)> {
    let kind = super::KINDS[KIND_NAMES.iter().position(|n| Some(*n) == v.get("kind").and_then(|k| k.as_str()))?];
    let job = NetJob { kind, c: v.get("chunk_bytes")?.as_u64()? as u32, depth: v.get("depth")?.as_u64()? as u8, zstd: v.get("zstd")?.as_bool()? };
    let items = v
        .get("pulls")?
        .as_array()?
        .iter()
        .map(|i| {
            Some(Item {
                p: MPull::parse(i.get("puller")?.as_str()?)?,
                m: i.get("m")?.as_u64()? as u32,
                pat: pat_from(i.get("pattern")?)?,
                fail_at: i.get("fail_at").and_then(|f| f.as_u64()).map(|f| f as u32),
                salt: i.get("salt").and_then(|f| f.as_u64()).unwrap_or(0) as u8,
            })
        })
        .collect::<Option<Vec<_>>>()?;
    Some((job, MSub { transport: Transport::parse(v.get("transport")?.as_str()?)?, concurrent: v.get("mode")?.as_str()? == "concurrent", items }))
}

fn pullers_for(kind: Kind) -> Vec<MPull> {
    match kind {
        Kind::Value => vec![MPull::Value, MPull::ToVec, MPull::Consume, MPull::Raw],
        Kind::Typed => vec![MPull::Typed, MPull::ToVec, MPull::Raw],
        Kind::Complex => vec![MPull::Complex, MPull::ToVec, MPull::Raw],
        Kind::Reader | Kind::Writer => vec![MPull::ToVec, MPull::Consume, MPull::Raw],
    }
}

/// which transport servers of the existing plan also carry the multi-pull rows
pub fn enabled(job: &NetJob, tier: Tier) -> bool {
    match tier {
        Tier::Quick => (job.c == 3 && matches!(job.depth, 0 | 4)) || (job.c == 1 && job.depth == 0),
        Tier::Thorough => matches!(job.c, 1 | 2 | 3 | 4 | 8) && matches!(job.depth, 0 | 1 | 4),
    }
}

pub fn subcases(job: &NetJob, tier: Tier) -> Vec<MSub> {
    let c = job.c;
    let ms = boundary_ms(job.kind, c as usize);
    let l = ms.len();
    let pat = if matches!(job.kind, Kind::Reader | Kind::Writer) { Pat::Alt } else { Pat::Natural };
    let ps = pullers_for(job.kind);
    let it = |p: MPull, m: u32| Item { p, m, pat, fail_at: None, salt: 0 };
    let mut out = Vec::new();
    let mut t = 0usize;
    // the boundary subset of payload pairs: per puller pair, pairs of different
    // boundary payloads and identical resources, rotating through the boundary
    // payloads (quick: 1 + 1, thorough: 4 + 2)
    let m_pairs = |t: usize| -> Vec<(u32, u32)> {
        let (nd, ns) = if tier == Tier::Thorough { (4, 2) } else { (1, 1) };
        let mut v = Vec::new();
        for r in 0..nd {
            let a = ms[(t + r * 2) % l];
            let mut b = ms[(t * 3 + 1 + r) % l];
            if b == a {
                b = ms[(t * 3 + 2 + r) % l];
            }
            v.push((a, b));
        }
        for r in 0..ns {
            let s = ms[(t + 2 + r * 3) % l];
            v.push((s, s));
        }
        v
    };
    for transport in [Transport::Tcp, Transport::AsyncTcp, Transport::Ws] {
        // two pulls one after the other: every ordered pair of puller kinds
        for &p1 in &ps {
            for &p2 in &ps {
                for (a, b) in m_pairs(t) {
                    out.push(MSub { transport, concurrent: false, items: vec![it(p1, a), it(p2, b)] });
                }
                t += 1;
            }
        }
        // three pulls one after the other
        let big = ms[l - 1];
        for r in 0..ps.len() {
            let (p1, p2, p3) = (ps[r], ps[(r + 1) % ps.len()], ps[(r + 2) % ps.len()]);
            out.push(MSub { transport, concurrent: false, items: vec![it(p1, big), it(p2, ms[(r + 1) % l]), it(p3, big)] });
        }
        // a first stream that is abandoned / cancelled mid-way, then every puller
        // (same resource and another one)
        for &p2 in &ps {
            for (fi, first) in [MPull::RawAbandon(1), MPull::RawCancel(1), MPull::RawAbandon(0)].into_iter().enumerate() {
                if tier == Tier::Thorough || fi < 2 {
                    out.push(MSub { transport, concurrent: false, items: vec![it(first, big), it(p2, big)] });
                }
                if tier == Tier::Thorough || fi != 1 {
                    out.push(MSub { transport, concurrent: false, items: vec![it(first, big), it(p2, ms[t % l])] });
                }
                t += 1;
            }
        }
        // a stream left open while a second one is cancelled mid-way (same / other resource)
        out.push(MSub { transport, concurrent: false, items: vec![it(MPull::RawAbandon(1), big), it(MPull::RawCancel(1), big)] });
        out.push(MSub { transport, concurrent: false, items: vec![it(MPull::RawAbandon(1), big), it(MPull::RawCancel(1), ms[l - 2])] });
        // a stream left open after 0 / 1 chunks, a complete pull by every puller in
        // between, then the first stream continued to its end
        for &p2 in &ps {
            for k in [0u8, 1] {
                out.push(MSub { transport, concurrent: false, items: vec![it(MPull::RawAbandon(k), big), it(p2, ms[t % l]), it(MPull::RawResume, big)] });
                t += 1;
            }
            out.push(MSub { transport, concurrent: false, items: vec![it(MPull::RawAbandon(1), big), it(p2, big), it(MPull::RawResume, big)] });
        }
        // a failing producer before / after a healthy pull (reader / writer only)
        if matches!(job.kind, Kind::Reader | Kind::Writer) {
            for (pi, &p) in ps.iter().enumerate() {
                for (fi, fa) in [0, c].into_iter().enumerate() {
                    if fa > big || (tier == Tier::Quick && fi != pi % 2) {
                        continue;
                    }
                    let bad = Item { p, m: big, pat: Pat::AllC, fail_at: Some(fa), salt: 0 };
                    for &p2 in &ps {
                        out.push(MSub { transport, concurrent: false, items: vec![bad, it(p2, big)] });
                        out.push(MSub { transport, concurrent: false, items: vec![it(p2, ms[t % l]), bad, it(p2, ms[(t + 1) % l])] });
                        t += 1;
                    }
                }
            }
        }
        if transport == Transport::Tcp {
            continue;
        }
        // two pull futures joined on the one connection
        for (i, &p1) in ps.iter().enumerate() {
            for &p2 in &ps[i..] {
                for (a, b) in m_pairs(t) {
                    out.push(MSub { transport, concurrent: true, items: vec![it(p1, a), it(p2, b)] });
                }
                t += 1;
            }
        }
        // three pull futures joined
        for r in 0..ps.len() {
            let (p1, p2, p3) = (ps[r], ps[(r + 1) % ps.len()], ps[(r + 2) % ps.len()]);
            out.push(MSub { transport, concurrent: true, items: vec![it(p1, big), it(p2, ms[(r + 2) % l]), it(p3, big)] });
        }
        // a failing and a healthy pull joined
        if matches!(job.kind, Kind::Reader | Kind::Writer) {
            for &p in &ps {
                for fa in [0, c] {
                    if fa > big {
                        continue;
                    }
                    let bad = Item { p, m: big, pat: Pat::AllC, fail_at: Some(fa), salt: 0 };
                    let p2 = ps[t % ps.len()];
                    out.push(MSub { transport, concurrent: true, items: vec![bad, it(p2, big)] });
                    out.push(MSub { transport, concurrent: true, items: vec![it(p2, ms[t % l]), bad, it(p2, big)] });
                    t += 1;
                }
            }
        }
    }
    // identical resources keep one salt, different resources get different ones
    for sub in out.iter_mut() {
        let mut distinct: Vec<(u32, Pat, Option<u32>)> = Vec::new();
        for i in 0..sub.items.len() {
            let key = (sub.items[i].m, sub.items[i].pat, sub.items[i].fail_at);
            let k = match distinct.iter().position(|d| *d == key) {
                Some(k) => k,
                None => {
                    distinct.push(key);
                    distinct.len() - 1
                }
            };
            sub.items[i].salt = k as u8;
        }
    }
    out
}

// ---------------------------------------------------------------------------
// execution
// ---------------------------------------------------------------------------

#[derive(Default)]
pub struct ItemOut {
    /// (clause, what)
    pub viols: Vec<(String, String)>,
    pub exchanges: u64,
    pub ok: bool,
    pub failed_as_expected: bool,
    /// a stream this pull left open on purpose (released by the harness once the
    /// whole sub-case has been judged, unless a later pull resumed it), with the
    /// wire bytes pulled so far
    pub leftover: Option<(u64, Vec<u8>)>,
    /// this pull resumed (and finished) the stream an earlier pull left open
    pub resumed: bool,
}

#[derive(Default)]
pub struct MNetOut {
    pub viols: Vec<(String, String)>,
    pub exchanges: u64,
    pub pulls: u64,
    pub ok_pulls: u64,
    pub err_pulls: u64,
    pub resumed: u64,
}

struct Want {
    resource: String,
    fail: bool,
    expected: Vec<u8>,
    full_len: usize,
    what: String,
}

fn want(job: &NetJob, it: &Item, pos: usize, mode: &str, t: &str) -> Want {
    let m = it.m as usize;
    let full = logical_s(job.kind, m, it.salt as usize);
    let expected = match it.fail_at {
        Some(f) => full[..(f as usize).min(full.len())].to_vec(),
        None => full.clone(),
    };
    Want {
        resource: {
            let base = resource_of(m, it.pat, it.fail_at.map(|f| f as usize), false);
            if it.salt > 0 { format!("{base}:s{}", it.salt) } else { base }
        },
        fail: it.fail_at.is_some(),
        expected,
        full_len: full.len(),
        what: format!(
            "{mode} pull #{pos} ({}) over {t}, kind={:?} c={} depth={} zstd={} m={m} pat={:?} fail_at={:?}",
            it.p.name(), job.kind, job.c, job.depth, job.zstd, it.pat, it.fail_at
        ),
    }
}

fn judge<T: PartialEq + std::fmt::Debug>(res: Result<T, RepeError>, expected: &T, w: &Want, out: &mut ItemOut) {
    match (res, w.fail) {
        (Ok(v), false) if v == *expected => out.ok = true,
        (Ok(v), false) => {
            let mut got = format!("{v:?}");
            got.truncate(160);
            out.viols.push(("content-mismatch".into(), format!("{}: pulled content differs from its own producer's: got {got}", w.what)));
        }
        (Err(e), false) => out.viols.push(("spurious-error".into(), format!("{}: healthy producer but the pull failed: {e}", w.what))),
        (Ok(_), true) => out.viols.push(("failure-not-error".into(), format!("{}: its producer failed but the pull returned Ok", w.what))),
        (Err(_), true) => out.failed_as_expected = true,
    }
}

/// the raw exchange protocol as a small state machine, driven by the blocking
/// and by the async callers alike
struct RawSm {
    wire: Vec<u8>,
    lasts: u32,
    errored: Option<String>,
    calls: usize,
    bound: usize,
    stop_after: Option<usize>,
}

impl RawSm {
    fn new(full_len: usize, stop_after: Option<usize>, wire: Vec<u8>) -> Self {
        RawSm { wire, lasts: 0, errored: None, calls: 0, bound: full_len + full_len / 64 + 600, stop_after }
    }
    fn more(&self) -> bool {
        self.lasts == 0 && self.errored.is_none() && self.calls < self.bound && self.stop_after.map(|k| self.calls < k).unwrap_or(true)
    }
    fn feed(&mut self, r: Result<Message, RepeError>) {
        self.calls += 1;
        match r {
            Ok(m) => {
                self.wire.extend_from_slice(&m.body);
                if m.query.first().copied() == Some(1) {
                    self.lasts += 1;
                }
            }
            Err(e) => self.errored = Some(e.to_string()),
        }
    }
    fn verdict(self, zstd: bool, w: &Want, out: &mut ItemOut) {
        let v = |out: &mut ItemOut, k: &str, s: String| out.viols.push((k.into(), s));
        let what = &w.what;
        let partial = self.stop_after.is_some() && self.lasts == 0 && self.errored.is_none();
        if partial {
            // left mid-stream: what was pulled must be a prefix of its own bytes
            let got = if zstd { super::seam::zstd_partial(&self.wire) } else { self.wire.clone() };
            if !w.expected.starts_with(&got) {
                v(out, "content-mismatch", format!("{what}: the chunks pulled before leaving the stream are not a prefix of its own bytes"));
            } else {
                out.ok = true;
            }
            return;
        }
        if w.fail {
            if self.lasts > 0 {
                v(out, "failure-as-end-marker", format!("{what}: its producer failed but a chunk carried the end marker"));
            } else if self.errored.is_none() {
                v(out, "failure-never-surfaced", format!("{what}: no error after {} next calls", self.calls));
            } else {
                out.failed_as_expected = true;
            }
        } else if let Some(e) = self.errored {
            v(out, "spurious-error", format!("{what}: next #{} failed: {e}", self.calls));
        } else if self.lasts == 0 {
            v(out, "no-end-marker", format!("{what}: {} next calls without an end marker", self.calls));
        } else {
            let got = if zstd { zstd::stream::decode_all(&self.wire[..]).map_err(|e| e.to_string()) } else { Ok(self.wire) };
            match got {
                Ok(g) if g == w.expected => out.ok = true,
                Ok(g) => v(out, "content-mismatch", format!("{what}: pulled {} bytes != its own producer's {}", g.len(), w.expected.len())),
                Err(e) => v(out, "content-mismatch", format!("{what}: pulled bytes do not decompress: {e}")),
            }
        }
    }
}

struct OpenId {
    stream_id: u64,
}

const JP: u16 = QueryFormat::JsonPointer as u16;
const BV: u16 = BodyFormat::Beve as u16;

fn stop_of(p: MPull) -> (Option<usize>, bool) {
    match p {
        MPull::RawAbandon(k) => (Some(k as usize), false),
        MPull::RawCancel(k) => (Some(k as usize), true),
        _ => (None, false),
    }
}

fn raw_blocking(client: &Client, p: MPull, zstd: bool, w: &Want, carry: Option<(u64, Vec<u8>)>, out: &mut ItemOut) {
    let (sid, wire0) = if p == MPull::RawResume {
        let Some(c) = carry else {
            out.viols.push(("harness".into(), format!("{}: nothing to resume", w.what)));
            return;
        };
        out.resumed = true;
        c
    } else {
        let body = beve::to_vec(&OpenReq { resource: &w.resource }).unwrap();
        out.exchanges += 1;
        match client.call_with_formats("/_svs/open", JP, Some(&body), BV).and_then(|m| m.beve_body::<OpenResp>()) {
            Ok(o) => (o.stream_id, Vec::new()),
            Err(e) => {
                out.viols.push(("spurious-error".into(), format!("{}: open failed: {e}", w.what)));
                return;
            }
        }
    };
    let open = OpenId { stream_id: sid };
    let nb = beve::to_vec(&NextReq { stream_id: open.stream_id }).unwrap();
    let (stop, cancel) = stop_of(p);
    let mut sm = RawSm::new(w.full_len, stop, wire0);
    while sm.more() {
        out.exchanges += 1;
        sm.feed(client.call_with_formats("/_svs/next", JP, Some(&nb), BV));
    }
    let terminal = sm.lasts > 0 || sm.errored.is_some();
    if !terminal && !cancel {
        out.leftover = Some((open.stream_id, sm.wire.clone()));
    }
    sm.verdict(zstd, w, out);
    if cancel {
        out.exchanges += 1;
        let cb = beve::to_vec(&super::seam::CancelReq { stream_id: open.stream_id, reason: "verif" }).unwrap();
        let _ = client.call_with_formats("/_svs/cancel", JP, Some(&cb), BV);
    }
    if terminal || cancel {
        out.exchanges += 1;
        if let Ok(m) = client.call_with_formats("/_svs/next", JP, Some(&nb), BV) {
            out.viols.push(("past-end-not-error".into(), format!("{}: next on its released stream answered a {}-byte chunk", w.what, m.body.len())));
        }
    }
}

async fn raw_async<C: AsyncSvsClient>(cl: &C, p: MPull, zstd: bool, w: &Want, carry: Option<(u64, Vec<u8>)>, out: &mut ItemOut) {
    let (sid, wire0) = if p == MPull::RawResume {
        let Some(c) = carry else {
            out.viols.push(("harness".into(), format!("{}: nothing to resume", w.what)));
            return;
        };
        out.resumed = true;
        c
    } else {
        let body = beve::to_vec(&OpenReq { resource: &w.resource }).unwrap();
        out.exchanges += 1;
        match cl.svs_call("/_svs/open", JP, Some(&body), BV).await.and_then(|m| m.beve_body::<OpenResp>()) {
            Ok(o) => (o.stream_id, Vec::new()),
            Err(e) => {
                out.viols.push(("spurious-error".into(), format!("{}: open failed: {e}", w.what)));
                return;
            }
        }
    };
    let open = OpenId { stream_id: sid };
    let nb = beve::to_vec(&NextReq { stream_id: open.stream_id }).unwrap();
    let (stop, cancel) = stop_of(p);
    let mut sm = RawSm::new(w.full_len, stop, wire0);
    while sm.more() {
        out.exchanges += 1;
        sm.feed(cl.svs_call("/_svs/next", JP, Some(&nb), BV).await);
    }
    let terminal = sm.lasts > 0 || sm.errored.is_some();
    if !terminal && !cancel {
        out.leftover = Some((open.stream_id, sm.wire.clone()));
    }
    sm.verdict(zstd, w, out);
    if cancel {
        out.exchanges += 1;
        let cb = beve::to_vec(&super::seam::CancelReq { stream_id: open.stream_id, reason: "verif" }).unwrap();
        let _ = cl.svs_call("/_svs/cancel", JP, Some(&cb), BV).await;
    }
    if terminal || cancel {
        out.exchanges += 1;
        if let Ok(m) = cl.svs_call("/_svs/next", JP, Some(&nb), BV).await {
            out.viols.push(("past-end-not-error".into(), format!("{}: next on its released stream answered a {}-byte chunk", w.what, m.body.len())));
        }
    }
}

fn pull_blocking(client: &Client, job: &NetJob, it: &Item, w: &Want, carry: Option<(u64, Vec<u8>)>) -> ItemOut {
    let mut out = ItemOut::default();
    let c = job.c as usize;
    let m = it.m as usize;
    let sa = it.salt as usize;
    out.exchanges += 1;
    match it.p {
        MPull::Raw | MPull::RawAbandon(_) | MPull::RawCancel(_) | MPull::RawResume => raw_blocking(client, it.p, job.zstd, w, carry, &mut out),
        MPull::ToVec => judge(repe::pull_to_vec(client, &w.resource), &w.expected, w, &mut out),
        MPull::Consume => judge(repe::pull_consume(client, &w.resource, |r| net::consume_reads(r, c)), &w.expected, w, &mut out),
        MPull::Value => judge(repe::pull_value::<Val>(client, &w.resource), &val_for_s(m, sa), w, &mut out),
        MPull::Typed => judge(repe::pull_typed_slice::<u8>(client, &w.resource), &typed_for_s(m, sa), w, &mut out),
        MPull::Complex => judge(repe::pull_complex_slice::<i8>(client, &w.resource), &complex_for_s(m, sa), w, &mut out),
    }
    out
}

async fn pull_async<C: AsyncSvsClient>(cl: &C, job: &NetJob, it: &Item, w: &Want, carry: Option<(u64, Vec<u8>)>) -> ItemOut {
    let mut out = ItemOut::default();
    let c = job.c as usize;
    let m = it.m as usize;
    let sa = it.salt as usize;
    out.exchanges += 1;
    match it.p {
        MPull::Raw | MPull::RawAbandon(_) | MPull::RawCancel(_) | MPull::RawResume => raw_async(cl, it.p, job.zstd, w, carry, &mut out).await,
        MPull::ToVec => judge(repe::pull_to_vec_async(cl, &w.resource).await, &w.expected, w, &mut out),
        MPull::Consume => judge(
            repe::pull_consume_async(cl, &w.resource, move |mut r: Box<dyn Read>| net::consume_reads(&mut *r, c)).await,
            &w.expected,
            w,
            &mut out,
        ),
        MPull::Value => judge(repe::pull_value_async::<Val, _>(cl, &w.resource).await, &val_for_s(m, sa), w, &mut out),
        MPull::Typed => judge(repe::pull_typed_slice_async::<u8, _>(cl, &w.resource).await, &typed_for_s(m, sa), w, &mut out),
        MPull::Complex => judge(repe::pull_complex_slice_async::<i8, _>(cl, &w.resource).await, &complex_for_s(m, sa), w, &mut out),
    }
    out
}

async fn run_async<C: AsyncSvsClient>(cl: &C, job: &NetJob, sub: &MSub, wants: &[Want]) -> Vec<ItemOut> {
    if !sub.concurrent {
        let mut v: Vec<ItemOut> = Vec::new();
        for (it, w) in sub.items.iter().zip(wants) {
            let carry = if it.p == MPull::RawResume { v.iter_mut().find_map(|o| o.leftover.take()) } else { None };
            v.push(pull_async(cl, job, it, w, carry).await);
        }
        return v;
    }
    match sub.items.len() {
        2 => {
            let (a, b) = tokio::join!(pull_async(cl, job, &sub.items[0], &wants[0], None), pull_async(cl, job, &sub.items[1], &wants[1], None));
            vec![a, b]
        }
        3 => {
            let (a, b, c) = tokio::join!(
                pull_async(cl, job, &sub.items[0], &wants[0], None),
                pull_async(cl, job, &sub.items[1], &wants[1], None),
                pull_async(cl, job, &sub.items[2], &wants[2], None)
            );
            vec![a, b, c]
        }
        _ => Vec::new(),
    }
}

pub fn run_sub(job: &NetJob, sub: &MSub, ep: &net::Endpoints, rt: &Arc<Runtime>) -> MNetOut {
    let mut out = MNetOut::default();
    let t = sub.transport.name();
    let mode = if sub.concurrent { "concurrent" } else { "sequential" };
    let wants: Vec<Want> = sub.items.iter().enumerate().map(|(i, it)| want(job, it, i + 1, mode, t)).collect();
    let r = std::panic::catch_unwind(std::panic::AssertUnwindSafe(|| match sub.transport {
        Transport::Tcp => {
            let mut v: Vec<ItemOut> = Vec::new();
            for (it, w) in sub.items.iter().zip(&wants) {
                let carry = if it.p == MPull::RawResume { v.iter_mut().find_map(|o| o.leftover.take()) } else { None };
                v.push(pull_blocking(&ep.client, job, it, w, carry));
            }
            v
        }
        Transport::AsyncTcp => rt.block_on(run_async(&ep.aclient, job, sub, &wants)),
        Transport::Ws => rt.block_on(run_async(&ep.ws, job, sub, &wants)),
    }));
    match r {
        Err(_) => out.viols.push((format!("C09:netmulti:panic:{t}:{mode}"), format!("{}: a puller panicked", case_json(job, sub)))),
        Ok(items) => {
            if items.len() != sub.items.len() {
                out.viols.push((format!("C09:netmulti:harness:{t}"), "unsupported number of joined pulls".into()));
            }
            for io in items {
                if io.resumed {
                    out.resumed += 1;
                }
                if let Some((sid, _)) = io.leftover {
                    // not judged: frees the producer thread parked on the abandoned stream
                    let cb = beve::to_vec(&super::seam::CancelReq { stream_id: sid, reason: "verif cleanup" }).unwrap();
                    let _ = std::panic::catch_unwind(std::panic::AssertUnwindSafe(|| match sub.transport {
                        Transport::Tcp => ep.client.call_with_formats("/_svs/cancel", JP, Some(&cb), BV).map(|_| ()),
                        Transport::AsyncTcp => rt.block_on(ep.aclient.svs_call("/_svs/cancel", JP, Some(&cb), BV)).map(|_| ()),
                        Transport::Ws => rt.block_on(ep.ws.svs_call("/_svs/cancel", JP, Some(&cb), BV)).map(|_| ()),
                    }));
                }
                out.pulls += 1;
                out.exchanges += io.exchanges;
                out.ok_pulls += io.ok as u64;
                out.err_pulls += io.failed_as_expected as u64;
                for (k, w) in io.viols {
                    let key = format!("C09:netmulti:{k}:{t}:{mode}");
                    if !out.viols.iter().any(|x| x.0 == key) {
                        out.viols.push((key, w));
                    }
                }
            }
        }
    }
    out
}
