//! C01 — local part: one logical message, every emission route and every
//! parser of the crate, compared with the independent field-table oracle
//! (`crate::frames::Hdr::encode` + query + body).
#![allow(dead_code)]

use crate::frames::{HEADER, Hdr, SPEC};
use repe::{ErrorCode, Header, Message, MessageView};
use serde_json::{Value, json};
use std::collections::BTreeMap;
use std::future::Future;
use std::io::{Read, Write};
use std::pin::Pin;
use std::sync::OnceLock;
use std::task::{Context, Poll};

// ------------------------------------------------------------------ payloads

/// Position-dependent, effectively aperiodic, never-zero byte pattern, so a
/// copy to a wrong offset, a dropped tail (zero fill) or a query/body mix-up
/// always changes bytes.
fn gen_pat(n: usize, salt: u32) -> Vec<u8> {
    (0..n)
        .map(|i| ((((i as u32) ^ salt).wrapping_mul(2_654_435_761)) >> 24) as u8 | 1)
        .collect()
}

pub const PAT_MAX: usize = (1 << 24) + 64;
static QPAT: OnceLock<Vec<u8>> = OnceLock::new();
static BPAT: OnceLock<Vec<u8>> = OnceLock::new();
pub fn qpat(n: usize) -> &'static [u8] {
    &QPAT.get_or_init(|| gen_pat(PAT_MAX, 0x9e37_79b9))[..n]
}
pub fn bpat(n: usize) -> &'static [u8] {
    &BPAT.get_or_init(|| gen_pat(PAT_MAX, 0x51ed_270b))[..n]
}

// ------------------------------------------------------------------ header glue

pub fn to_header(h: &Hdr) -> Header {
    Header {
        length: h.length,
        spec: h.spec,
        version: h.version,
        notify: h.notify,
        reserved: h.reserved,
        id: h.id,
        query_length: h.query_length,
        body_length: h.body_length,
        query_format: h.query_format,
        body_format: h.body_format,
        ec: h.ec,
    }
}

pub fn from_header(h: &Header) -> Hdr {
    Hdr {
        length: h.length,
        spec: h.spec,
        version: h.version,
        notify: h.notify,
        reserved: h.reserved,
        id: h.id,
        query_length: h.query_length,
        body_length: h.body_length,
        query_format: h.query_format,
        body_format: h.body_format,
        ec: h.ec,
    }
}

/// Names of the fields in which `got` differs from `want` (empty = equal).
pub fn hdr_diff(got: &Header, want: &Hdr) -> Vec<&'static str> {
    let g = from_header(got);
    let mut d = Vec::new();
    macro_rules! f {
        ($n:ident) => {
            if g.$n != want.$n {
                d.push(stringify!($n));
            }
        };
    }
    f!(length);
    f!(spec);
    f!(version);
    f!(notify);
    f!(reserved);
    f!(id);
    f!(query_length);
    f!(body_length);
    f!(query_format);
    f!(body_format);
    f!(ec);
    d
}

pub fn hdr_json(h: &Hdr) -> Value {
    json!({
        "length": h.length, "spec": h.spec, "version": h.version, "notify": h.notify,
        "reserved": h.reserved, "id": h.id, "query_length": h.query_length,
        "body_length": h.body_length, "query_format": h.query_format,
        "body_format": h.body_format, "ec": h.ec,
    })
}

pub fn hdr_from_json(v: &Value) -> Result<Hdr, String> {
    let g = |k: &str| v.get(k).and_then(|x| x.as_u64()).ok_or_else(|| format!("hdr.{k} missing"));
    Ok(Hdr {
        length: g("length")?,
        spec: g("spec")? as u16,
        version: g("version")? as u8,
        notify: g("notify")? as u8,
        reserved: g("reserved")? as u32,
        id: g("id")?,
        query_length: g("query_length")?,
        body_length: g("body_length")?,
        query_format: g("query_format")? as u16,
        body_format: g("body_format")? as u16,
        ec: g("ec")? as u32,
    })
}

/// Region of the frame a byte offset falls in, named after the v1 field table.
pub fn region(off: usize, q: usize) -> &'static str {
    match off {
        0..=7 => "length",
        8..=9 => "spec",
        10 => "version",
        11 => "notify",
        12..=15 => "reserved",
        16..=23 => "id",
        24..=31 => "query_length",
        32..=39 => "body_length",
        40..=41 => "query_format",
        42..=43 => "body_format",
        44..=47 => "ec",
        o if o < HEADER + q => "query",
        _ => "body",
    }
}

pub fn oracle_bytes(h: &Hdr, query: &[u8], body: &[u8]) -> Vec<u8> {
    let mut v = Vec::with_capacity(HEADER + query.len() + body.len());
    v.extend_from_slice(&h.encode());
    v.extend_from_slice(query);
    v.extend_from_slice(body);
    v
}

// ------------------------------------------------------------------ sinks / sources

/// `Write` that accepts at most `max` bytes per call (short writes).
pub struct ChunkSink {
    pub out: Vec<u8>,
    pub max: usize,
    pub calls: u64,
    pub short: u64,
}
impl ChunkSink {
    pub fn new(max: usize, cap: usize) -> Self {
        ChunkSink { out: Vec::with_capacity(cap), max, calls: 0, short: 0 }
    }
}
impl Write for ChunkSink {
    fn write(&mut self, b: &[u8]) -> std::io::Result<usize> {
        let n = b.len().min(self.max);
        if n < b.len() {
            self.short += 1;
        }
        self.calls += 1;
        self.out.extend_from_slice(&b[..n]);
        Ok(n)
    }
    fn flush(&mut self) -> std::io::Result<()> {
        Ok(())
    }
}

/// `AsyncWrite` twin; with `pend` every other poll returns `Pending` (after
/// waking itself), like a socket whose buffer was momentarily full.
pub struct AsyncChunkSink {
    pub inner: ChunkSink,
    pub pend: bool,
    toggle: bool,
    pub pendings: u64,
}
impl AsyncChunkSink {
    pub fn new(max: usize, cap: usize, pend: bool) -> Self {
        AsyncChunkSink { inner: ChunkSink::new(max, cap), pend, toggle: false, pendings: 0 }
    }
}
impl tokio::io::AsyncWrite for AsyncChunkSink {
    fn poll_write(mut self: Pin<&mut Self>, cx: &mut Context<'_>, b: &[u8]) -> Poll<std::io::Result<usize>> {
        if self.pend {
            self.toggle = !self.toggle;
            if self.toggle {
                self.pendings += 1;
                cx.waker().wake_by_ref();
                return Poll::Pending;
            }
        }
        Poll::Ready(self.inner.write(b))
    }
    fn poll_flush(self: Pin<&mut Self>, _cx: &mut Context<'_>) -> Poll<std::io::Result<()>> {
        Poll::Ready(Ok(()))
    }
    fn poll_shutdown(self: Pin<&mut Self>, _cx: &mut Context<'_>) -> Poll<std::io::Result<()>> {
        Poll::Ready(Ok(()))
    }
}

/// `Read` that yields at most `max` bytes per call (short reads).
pub struct ChunkReader<'a> {
    pub data: &'a [u8],
    pub pos: usize,
    pub max: usize,
}
impl Read for ChunkReader<'_> {
    fn read(&mut self, buf: &mut [u8]) -> std::io::Result<usize> {
        let n = buf.len().min(self.max).min(self.data.len() - self.pos);
        buf[..n].copy_from_slice(&self.data[self.pos..self.pos + n]);
        self.pos += n;
        Ok(n)
    }
}
pub struct AsyncChunkReader<'a> {
    pub inner: ChunkReader<'a>,
    pub pend: bool,
    toggle: bool,
}
impl<'a> AsyncChunkReader<'a> {
    pub fn new(data: &'a [u8], max: usize, pend: bool) -> Self {
        AsyncChunkReader { inner: ChunkReader { data, pos: 0, max }, pend, toggle: false }
    }
}
impl tokio::io::AsyncRead for AsyncChunkReader<'_> {
    fn poll_read(mut self: Pin<&mut Self>, cx: &mut Context<'_>, buf: &mut tokio::io::ReadBuf<'_>) -> Poll<std::io::Result<()>> {
        if self.pend {
            self.toggle = !self.toggle;
            if self.toggle {
                cx.waker().wake_by_ref();
                return Poll::Pending;
            }
        }
        let r = &mut self.inner;
        let n = buf.remaining().min(r.max).min(r.data.len() - r.pos);
        buf.put_slice(&r.data[r.pos..r.pos + n]);
        r.pos += n;
        Poll::Ready(Ok(()))
    }
}

/// Drive a future whose only `Pending`s come from the self-waking harness
/// sinks/sources above (no reactor, no timers).
pub fn block_on<F: Future>(f: F) -> F::Output {
    let mut f = std::pin::pin!(f);
    let waker = std::task::Waker::noop();
    let mut cx = Context::from_waker(waker);
    let mut spins: u64 = 0;
    loop {
        if let Poll::Ready(v) = f.as_mut().poll(&mut cx) {
            return v;
        }
        spins += 1;
        assert!(spins < 1 << 34, "harness future never completes");
    }
}

// ------------------------------------------------------------------ bookkeeping

#[derive(Clone, Debug)]
pub struct Bad {
    pub key: String,
    pub what: String,
}

pub const CAP_NAMES: [&str; 5] = ["cap=len", "cap=total-1", "cap=total", "cap=total+1", "cap=2*total"];

#[derive(Default)]
pub struct Stats {
    pub states: u64,
    pub transitions: u64,
    pub bytes_compared: u64,
    pub routes: BTreeMap<&'static str, u64>,
    pub sink_calls_short: u64,
    pub async_pendings: u64,
    pub inplace_by_cap: [u64; 5],
    pub fresh_by_cap: [u64; 5],
    pub cap_inexact: u64,
    pub path_divergence: u64,
    pub builder_inplace: u64,
    pub builder_fresh: u64,
    pub builder_built: u64,
    pub hdr_all_nonzero: u64,
    pub hdr_reserved_nonzero: u64,
    pub hdr_unknown_formats: u64,
    pub encode_only: u64,
    pub parsed_ok: u64,
    pub panics: u64,
}
impl Stats {
    pub fn merge(&mut self, o: &Stats) {
        self.states += o.states;
        self.transitions += o.transitions;
        self.bytes_compared += o.bytes_compared;
        for (k, v) in &o.routes {
            *self.routes.entry(k).or_insert(0) += v;
        }
        self.sink_calls_short += o.sink_calls_short;
        self.async_pendings += o.async_pendings;
        for i in 0..5 {
            self.inplace_by_cap[i] += o.inplace_by_cap[i];
            self.fresh_by_cap[i] += o.fresh_by_cap[i];
        }
        self.cap_inexact += o.cap_inexact;
        self.path_divergence += o.path_divergence;
        self.builder_inplace += o.builder_inplace;
        self.builder_fresh += o.builder_fresh;
        self.builder_built += o.builder_built;
        self.hdr_all_nonzero += o.hdr_all_nonzero;
        self.hdr_reserved_nonzero += o.hdr_reserved_nonzero;
        self.hdr_unknown_formats += o.hdr_unknown_formats;
        self.encode_only += o.encode_only;
        self.parsed_ok += o.parsed_ok;
        self.panics += o.panics;
    }
    fn hit(&mut self, route: &'static str) {
        *self.routes.entry(route).or_insert(0) += 1;
        self.transitions += 1;
    }
}

struct Chk<'a> {
    st: &'a mut Stats,
    bad: Vec<Bad>,
    q: usize,
    desc: String,
}
impl Chk<'_> {
    /// Clause O1/O2: bytes emitted by `route` equal the oracle frame.
    fn emit(&mut self, route: &'static str, got: &[u8], want: &[u8]) {
        self.st.hit(route);
        self.st.bytes_compared += want.len() as u64;
        if got == want {
            return;
        }
        let (reg, detail) = if got.len() != want.len() {
            ("frame-length", format!("emitted {} bytes, oracle {}", got.len(), want.len()))
        } else {
            let off = got.iter().zip(want).position(|(a, b)| a != b).unwrap();
            let end = (off + 8).min(want.len());
            (
                region(off, self.q),
                format!("first difference at offset {off}: got {:02x?}, oracle {:02x?}", &got[off..end], &want[off..end]),
            )
        };
        self.bad.push(Bad {
            key: format!("C01:emit:{route}:{reg}"),
            what: format!("{route} differs from the layout oracle in `{reg}` ({detail}) for {}", self.desc),
        });
    }
    fn fail(&mut self, route: &'static str, class: &str, detail: String) {
        self.bad.push(Bad { key: format!("C01:{class}:{route}"), what: format!("{route}: {detail} for {}", self.desc) });
    }
    /// Clause O3: a parser returned exactly the original fields and payloads.
    fn parsed(&mut self, route: &'static str, h: &Header, query: &[u8], body: &[u8], want: &Hdr, wq: &[u8], wb: &[u8]) {
        self.st.hit(route);
        let d = hdr_diff(h, want);
        if !d.is_empty() {
            self.bad.push(Bad {
                key: format!("C01:parse:{route}:{}", d[0]),
                what: format!("{route} returned header fields {d:?} different from the encoded ones (got {:?}) for {}", from_header(h), self.desc),
            });
            return;
        }
        if query != wq {
            self.bad.push(Bad { key: format!("C01:parse:{route}:query"), what: format!("{route} returned different query bytes for {}", self.desc) });
            return;
        }
        if body != wb {
            self.bad.push(Bad { key: format!("C01:parse:{route}:body"), what: format!("{route} returned different body bytes for {}", self.desc) });
            return;
        }
        self.st.parsed_ok += 1;
    }
}

fn note_header(st: &mut Stats, h: &Hdr) {
    if h.version != 0 && h.notify != 0 && h.reserved != 0 && h.id != 0 && h.query_length != 0 && h.body_length != 0 && h.query_format != 0 && h.body_format != 0 && h.ec != 0 {
        st.hdr_all_nonzero += 1;
    }
    if h.reserved != 0 {
        st.hdr_reserved_nonzero += 1;
    }
    if h.query_format > 1 || h.body_format > 3 {
        st.hdr_unknown_formats += 1;
    }
}

/// Header handed to the streaming writers: same logical fields, the three
/// length fields deliberately wrong (the writer is documented to overwrite them).
fn header_with_garbage_lengths(h: &Hdr) -> Header {
    let mut x = to_header(h);
    x.length = 0xAAAA_AAAA_AAAA_AAAA;
    x.query_length = 0x5555_5555_5555_5555;
    x.body_length = 0x0123_4567_89AB_CDEF;
    x
}

// ------------------------------------------------------------------ shared route runners

/// All borrowing emission routes on `msg` (must encode to `want`).
fn run_borrowing_routes(c: &mut Chk, msg: &Message, h: &Hdr, want: &[u8], sinks: &[usize]) {
    let total = want.len();
    c.emit("Header::encode", &msg.header.encode(), &want[..HEADER]);
    c.emit("Message::to_vec", &msg.to_vec(), want);
    if msg.serialized_len() != total {
        c.fail("Message::serialized_len", "emit", format!("returned {} for a {total}-byte frame", msg.serialized_len()));
    }
    for &mx in sinks {
        let mut s = ChunkSink::new(mx, total);
        match msg.write_to(&mut s) {
            Ok(()) => c.emit("Message::write_to", &s.out, want),
            Err(e) => c.fail("Message::write_to", "error", format!("failed on an infallible sink: {e}")),
        }
        c.st.sink_calls_short += s.short;

        let mut s = ChunkSink::new(mx, total);
        match repe::write_message(&mut s, msg) {
            Ok(()) => c.emit("write_message", &s.out, want),
            Err(e) => c.fail("write_message", "error", format!("failed on an infallible sink: {e}")),
        }
        c.st.sink_calls_short += s.short;

        let mut s = ChunkSink::new(mx, total);
        let body = &msg.body;
        match repe::write_message_streaming(&mut s, header_with_garbage_lengths(h), &msg.query, body.len() as u64, |w| w.write_all(body)) {
            Ok(()) => c.emit("write_message_streaming", &s.out, want),
            Err(e) => c.fail("write_message_streaming", "error", format!("failed on an infallible sink: {e}")),
        }
        c.st.sink_calls_short += s.short;

        for pend in [false, true] {
            if pend && mx != 7 {
                continue;
            }
            let mut s = AsyncChunkSink::new(mx, total, pend);
            match block_on(repe::async_io::write_message_async(&mut s, msg)) {
                Ok(()) => c.emit(if pend { "write_message_async[pending-sink]" } else { "write_message_async" }, &s.inner.out, want),
                Err(e) => c.fail("write_message_async", "error", format!("failed on an infallible sink: {e}")),
            }
            c.st.sink_calls_short += s.inner.short;
            c.st.async_pendings += s.pendings;
        }
    }
}

/// Every parser of the crate on the oracle bytes `wire`.
fn run_parsers(c: &mut Chk, wire: &[u8], want: &Hdr, wq: &[u8], wb: &[u8], chunks: &[usize], light: bool) {
    match Message::from_slice(wire) {
        Ok(m) => c.parsed("Message::from_slice", &m.header, &m.query, &m.body, want, wq, wb),
        Err(e) => c.fail("Message::from_slice", "parse-reject", format!("rejected a well-formed frame: {e:?}")),
    }
    match Message::from_slice_exact(wire) {
        Ok(m) => c.parsed("Message::from_slice_exact", &m.header, &m.query, &m.body, want, wq, wb),
        Err(e) => c.fail("Message::from_slice_exact", "parse-reject", format!("rejected a well-formed frame: {e:?}")),
    }
    match MessageView::from_slice(wire) {
        Ok(v) => {
            c.parsed("MessageView::from_slice", &v.header, v.query, v.body, want, wq, wb);
            let m = v.to_message();
            c.parsed("MessageView::to_message", &m.header, &m.query, &m.body, want, wq, wb);
        }
        Err(e) => c.fail("MessageView::from_slice", "parse-reject", format!("rejected a well-formed frame: {e:?}")),
    }
    match MessageView::from_slice_exact(wire) {
        Ok(v) => c.parsed("MessageView::from_slice_exact", &v.header, v.query, v.body, want, wq, wb),
        Err(e) => c.fail("MessageView::from_slice_exact", "parse-reject", format!("rejected a well-formed frame: {e:?}")),
    }
    match Header::decode(&wire[..HEADER]) {
        Ok(h) => c.parsed("Header::decode", &h, wq, wb, want, wq, wb),
        Err(e) => c.fail("Header::decode", "parse-reject", format!("rejected a well-formed header: {e:?}")),
    }
    if !light {
        match Header::decode(wire) {
            Ok(h) => c.parsed("Header::decode", &h, wq, wb, want, wq, wb),
            Err(e) => c.fail("Header::decode", "parse-reject", format!("rejected a well-formed header followed by payload: {e:?}")),
        }
    }
    let mut buf: Vec<u8> = vec![0xEE; 3]; // stale content must be discarded by the *_into readers
    for &mx in chunks {
        let mut r = ChunkReader { data: wire, pos: 0, max: mx };
        match repe::read_message(&mut r) {
            Ok(m) => c.parsed("read_message", &m.header, &m.query, &m.body, want, wq, wb),
            Err(e) => c.fail("read_message", "parse-reject", format!("failed on a well-formed frame: {e:?}")),
        }
        let mut r = ChunkReader { data: wire, pos: 0, max: mx };
        match repe::read_message_into(&mut r, &mut buf) {
            Ok(()) => c.emit("read_message_into", &buf, wire),
            Err(e) => c.fail("read_message_into", "parse-reject", format!("failed on a well-formed frame: {e:?}")),
        }
        for pend in [false, true] {
            if pend && mx != 7 {
                continue;
            }
            let mut r = AsyncChunkReader::new(wire, mx, pend);
            match block_on(repe::async_io::read_message_async(&mut r)) {
                Ok(m) => c.parsed("read_message_async", &m.header, &m.query, &m.body, want, wq, wb),
                Err(e) => c.fail("read_message_async", "parse-reject", format!("failed on a well-formed frame: {e:?}")),
            }
            let mut r = AsyncChunkReader::new(wire, mx, pend);
            match block_on(repe::async_io::read_message_into_async(&mut r, &mut buf)) {
                Ok(()) => c.emit("read_message_into_async", &buf, wire),
                Err(e) => c.fail("read_message_into_async", "parse-reject", format!("failed on a well-formed frame: {e:?}")),
            }
        }
    }
}

/// `into_wire_bytes` on a message whose body buffer is `body`; classifies the
/// path actually taken by pointer identity. Returns (in_place, predicted).
fn run_into_wire(c: &mut Chk, header: Header, query: Vec<u8>, body: Vec<u8>, want: &[u8]) -> (bool, bool) {
    let cap = body.capacity();
    let ptr = body.as_ptr();
    let predicted = cap >= want.len();
    let msg = Message { header, query, body };
    let out = msg.into_wire_bytes();
    let in_place = cap > 0 && std::ptr::eq(out.as_ptr(), ptr);
    c.emit(if in_place { "into_wire_bytes[in-place]" } else { "into_wire_bytes[fresh]" }, &out, want);
    if in_place != predicted {
        c.st.path_divergence += 1;
    }
    (in_place, predicted)
}

// ------------------------------------------------------------------ raw-body configurations

#[derive(Clone, Debug)]
pub struct RawCfg {
    /// logical header fields (length fields are filled in from q and b)
    pub h: Hdr,
    pub q: usize,
    pub b: usize,
    /// per-call byte limits of the sinks/sources (usize::MAX = unlimited)
    pub sinks: Vec<usize>,
    pub light: bool,
}

impl RawCfg {
    pub fn to_json(&self) -> Value {
        json!({"block": "raw", "hdr": hdr_json(&self.h), "q": self.q, "b": self.b,
               "sinks": self.sinks.iter().map(|&s| if s == usize::MAX { 0 } else { s as u64 }).collect::<Vec<_>>(),
               "light": self.light})
    }
    pub fn from_json(v: &Value) -> Result<RawCfg, String> {
        Ok(RawCfg {
            h: hdr_from_json(&v["hdr"])?,
            q: v["q"].as_u64().ok_or("q")? as usize,
            b: v["b"].as_u64().ok_or("b")? as usize,
            sinks: v["sinks"].as_array().ok_or("sinks")?.iter().map(|s| match s.as_u64().unwrap_or(0) { 0 => usize::MAX, n => n as usize }).collect(),
            light: v["light"].as_bool().unwrap_or(false),
        })
    }
}

pub fn check_raw(cfg: &RawCfg, st: &mut Stats) -> Vec<Bad> {
    let (q, b) = (cfg.q, cfg.b);
    let total = HEADER + q + b;
    let mut h = cfg.h;
    h.query_length = q as u64;
    h.body_length = b as u64;
    h.length = total as u64;
    let query = qpat(q);
    let body = bpat(b);
    let want = oracle_bytes(&h, query, body);
    note_header(st, &h);
    let mut c = Chk { st, bad: Vec::new(), q, desc: format!("header {h:?} with {q}-byte query and {b}-byte body"), };
    let header = to_header(&h);

    // the validated constructor accepts a consistent message
    let msg = match Message::new(header, query.to_vec(), body.to_vec()) {
        Ok(m) => m,
        Err(e) => {
            c.fail("Message::new", "construct", format!("rejected a consistent message: {e:?}"));
            Message { header, query: query.to_vec(), body: body.to_vec() }
        }
    };
    run_borrowing_routes(&mut c, &msg, &h, &want, &cfg.sinks);

    // into_wire_bytes over the five spare-capacity relations
    for (ci, cap) in [b, total - 1, total, total + 1, 2 * total].into_iter().enumerate() {
        let mut bv: Vec<u8> = Vec::with_capacity(cap);
        bv.extend_from_slice(body);
        if bv.capacity() != cap {
            c.st.cap_inexact += 1;
        }
        c.st.states += 1;
        let (in_place, _) = run_into_wire(&mut c, header, query.to_vec(), bv, &want);
        if in_place {
            c.st.inplace_by_cap[ci] += 1;
        } else {
            c.st.fresh_by_cap[ci] += 1;
        }
    }

    // MessageBuilder, where the builder can express the header
    if h.spec == SPEC && h.version == 1 && h.reserved == 0 && h.notify <= 1 {
        if let Ok(ec) = ErrorCode::try_from(h.ec) {
            let mut bv: Vec<u8> = Vec::with_capacity(total);
            bv.extend_from_slice(body);
            let built = Message::builder()
                .id(h.id)
                .notify(h.notify == 1)
                .error_code(ec)
                .query_format_code(h.query_format)
                .body_format_code(h.body_format)
                .query_bytes(query.to_vec())
                .body_bytes(bv)
                .build();
            c.st.builder_built += 1;
            c.emit("MessageBuilder::build+to_vec", &built.to_vec(), &want);
            let (hd, qv, bv) = (built.header, built.query, built.body);
            run_into_wire(&mut c, hd, qv, bv, &want);
        }
    }

    if h.spec == SPEC {
        run_parsers(&mut c, &want, &h, query, body, &cfg.sinks, cfg.light);
    } else {
        c.st.encode_only += 1;
    }
    c.bad
}

// ------------------------------------------------------------------ raw header (length fields over u64 classes)

pub fn check_raw_header(h: &Hdr, st: &mut Stats) -> Vec<Bad> {
    let want = h.encode();
    st.states += 1;
    let mut c = Chk { st, bad: Vec::new(), q: 0, desc: format!("bare header {h:?}") };
    c.emit("Header::encode", &to_header(h).encode(), &want);
    match Header::decode(&want) {
        Ok(d) => c.parsed("Header::decode", &d, &[], &[], h, &[], &[]),
        Err(e) => c.fail("Header::decode", "parse-reject", format!("rejected a consistent header: {e:?}")),
    }
    c.bad
}

// ------------------------------------------------------------------ builder-made typed bodies

#[derive(Clone, Copy, Debug, PartialEq, Eq)]
pub enum Elem {
    F64,
    I32,
    U8,
    CplxF64,
    CplxF32,
    AlignedF64,
    AlignedU16,
}
pub const ELEMS: [Elem; 7] = [Elem::F64, Elem::I32, Elem::U8, Elem::CplxF64, Elem::CplxF32, Elem::AlignedF64, Elem::AlignedU16];
impl Elem {
    pub fn name(self) -> &'static str {
        match self {
            Elem::F64 => "typed<f64>",
            Elem::I32 => "typed<i32>",
            Elem::U8 => "typed<u8>",
            Elem::CplxF64 => "complex<f64>",
            Elem::CplxF32 => "complex<f32>",
            Elem::AlignedF64 => "aligned<f64>",
            Elem::AlignedU16 => "aligned<u16>",
        }
    }
    pub fn from_name(s: &str) -> Option<Elem> {
        ELEMS.iter().copied().find(|e| e.name() == s)
    }
}

#[derive(Clone, Debug)]
pub struct TypedCfg {
    /// version/notify/reserved/id/query_format/ec are used; body_format is Beve by construction
    pub h: Hdr,
    pub elem: Elem,
    pub n: usize,
    pub q: usize,
    pub query_first: bool,
    pub sinks: Vec<usize>,
}
impl TypedCfg {
    pub fn to_json(&self) -> Value {
        json!({"block": "typed", "hdr": hdr_json(&self.h), "elem": self.elem.name(), "n": self.n, "q": self.q,
               "query_first": self.query_first,
               "sinks": self.sinks.iter().map(|&s| if s == usize::MAX { 0 } else { s as u64 }).collect::<Vec<_>>()})
    }
    pub fn from_json(v: &Value) -> Result<TypedCfg, String> {
        Ok(TypedCfg {
            h: hdr_from_json(&v["hdr"])?,
            elem: Elem::from_name(v["elem"].as_str().ok_or("elem")?).ok_or("unknown elem")?,
            n: v["n"].as_u64().ok_or("n")? as usize,
            q: v["q"].as_u64().ok_or("q")? as usize,
            query_first: v["query_first"].as_bool().ok_or("query_first")?,
            sinks: v["sinks"].as_array().ok_or("sinks")?.iter().map(|s| match s.as_u64().unwrap_or(0) { 0 => usize::MAX, n => n as usize }).collect(),
        })
    }
}

fn f64s(n: usize) -> Vec<f64> {
    (0..n).map(|i| i as f64 * 0.25 - 3.0).collect()
}

enum Data {
    F64(Vec<f64>),
    I32(Vec<i32>),
    U8(Vec<u8>),
    C64(Vec<repe::Complex<f64>>),
    C32(Vec<repe::Complex<f32>>),
    U16(Vec<u16>),
}

pub fn check_typed(cfg: &TypedCfg, st: &mut Stats) -> Vec<Bad> {
    let q = cfg.q;
    let query = qpat(q);
    let data = match cfg.elem {
        Elem::F64 | Elem::AlignedF64 => Data::F64(f64s(cfg.n)),
        Elem::I32 => Data::I32((0..cfg.n).map(|i| (i as i32).wrapping_mul(-7919) + 5).collect()),
        Elem::U8 => Data::U8(bpat(cfg.n).to_vec()),
        Elem::CplxF64 => Data::C64((0..cfg.n).map(|i| repe::Complex { re: i as f64 + 0.5, im: -(i as f64) * 0.5 - 1.0 }).collect()),
        Elem::CplxF32 => Data::C32((0..cfg.n).map(|i| repe::Complex { re: i as f32 + 0.5, im: -(i as f32) * 0.5 - 1.0 }).collect()),
        Elem::AlignedU16 => Data::U16((0..cfg.n).map(|i| (i as u16).wrapping_mul(40503) | 1).collect()),
    };
    let aligned = matches!(cfg.elem, Elem::AlignedF64 | Elem::AlignedU16);
    let b0 = Message::builder().id(cfg.h.id).query_format_code(cfg.h.query_format);
    let b1 = if cfg.query_first { b0.query_bytes(query.to_vec()) } else { b0 };
    let b2 = match (&data, aligned) {
        (Data::F64(d), false) => b1.body_typed_slice(d),
        (Data::F64(d), true) => b1.body_aligned_typed_slice(d),
        (Data::I32(d), _) => b1.body_typed_slice(d),
        (Data::U8(d), _) => b1.body_typed_slice(d),
        (Data::C64(d), _) => b1.body_complex_slice(d),
        (Data::C32(d), _) => b1.body_complex_slice(d),
        (Data::U16(d), _) => b1.body_aligned_typed_slice(d),
    };
    let b3 = if cfg.query_first { b2 } else { b2.query_bytes(query.to_vec()) };
    let mut msg = b3.build();
    st.states += 1;
    st.builder_built += 1;

    // logical message: the builder's body bytes under the requested header fields
    let body = msg.body.clone();
    let b = body.len();
    let total = HEADER + q + b;
    let mut h = cfg.h;
    h.spec = SPEC;
    h.body_format = 1;
    h.query_length = q as u64;
    h.body_length = b as u64;
    h.length = total as u64;
    note_header(st, &h);
    let mut c = Chk {
        st,
        bad: Vec::new(),
        q,
        desc: format!("{} body of {} elements ({b} bytes), {q}-byte query set {} the body, header {h:?}", cfg.elem.name(), cfg.n, if cfg.query_first { "before" } else { "after" }),
    };

    // MessageBuilder::build fills length/query_length/body_length/body_format
    let built_want = Hdr { version: 1, notify: 0, reserved: 0, ec: 0, ..h };
    c.st.hit("MessageBuilder::build(typed)");
    let d = hdr_diff(&msg.header, &built_want);
    if !d.is_empty() {
        c.bad.push(Bad {
            key: format!("C01:emit:MessageBuilder::build(typed):{}", d[0]),
            what: format!("builder produced header fields {d:?} inconsistent with its query/body (got {:?}) for {}", from_header(&msg.header), c.desc),
        });
    }
    // now the swept fields the builder cannot set
    msg.header.version = h.version;
    msg.header.notify = h.notify;
    msg.header.reserved = h.reserved;
    msg.header.ec = h.ec;
    // keep the remaining fields as the builder made them, so a wrong builder length shows in every route
    let want = oracle_bytes(&h, query, &body);

    run_borrowing_routes(&mut c, &msg, &h, &want, &cfg.sinks);

    // the streaming typed/complex writers never materialise the body
    if !aligned {
        let mut sh = header_with_garbage_lengths(&h);
        sh.body_format = 0x7777; // documented: overwritten with Beve
        for &mx in &cfg.sinks {
            let mut s = ChunkSink::new(mx, total);
            let (route, r): (&'static str, _) = match &data {
                Data::F64(d) => ("write_message_typed_slice", repe::write_message_typed_slice(&mut s, sh, query, d)),
                Data::I32(d) => ("write_message_typed_slice", repe::write_message_typed_slice(&mut s, sh, query, d)),
                Data::U8(d) => ("write_message_typed_slice", repe::write_message_typed_slice(&mut s, sh, query, d)),
                Data::C64(d) => ("write_message_complex_slice", repe::write_message_complex_slice(&mut s, sh, query, d)),
                Data::C32(d) => ("write_message_complex_slice", repe::write_message_complex_slice(&mut s, sh, query, d)),
                Data::U16(_) => unreachable!(),
            };
            match r {
                Ok(()) => c.emit(route, &s.out, &want),
                Err(e) => c.fail(route, "error", format!("failed on an infallible sink: {e}")),
            }
            c.st.sink_calls_short += s.short;
        }
    }

    run_parsers(&mut c, &want, &h, query, &body, &cfg.sinks[..1], true);

    // last: consume the builder-made buffer
    let (hd, qv, bv) = (msg.header, msg.query, msg.body);
    let (in_place, _) = run_into_wire(&mut c, hd, qv, bv, &want);
    if in_place {
        c.st.builder_inplace += 1;
    } else {
        c.st.builder_fresh += 1;
    }
    c.bad
}
