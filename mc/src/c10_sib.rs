//! C10 part 5: TWO pulls into ONE directory at the same time.
//!
//! "The destination then holds exactly the complete content" and "the destination path is left exactly as
//! it was" are claims about one destination; nothing in them allows a second pull that happens to publish
//! next to it (`out.bin` / `out.idx`, `out.bin` / `out`, ...) to disturb it. The rows here park one pull
//! (the HELD one) in the middle of its stream -- the producer of its resource blocks on a harness gate after
//! a chosen number of bytes, so its temp file exists and is partly written -- run a second pull (the FREE
//! one) of another resource to a sibling destination from start to finish, sample the directory, open the
//! gate, let the held pull finish (healthy, or with a producer failure at the very end) and sample again.
//!
//! Every row is one deterministic history: the free pull starts only after the held producer reported that
//! it is parked, and the gate opens only after the free pull returned.
//!
//! Oracle (per destination, as everywhere in C10): a pull that returned Ok left exactly its complete content
//! at its destination, at the moment it returned AND at the end of the row; a pull that returned an error
//! left its destination as it was before the row; after both pulls returned no file exists in the directory
//! other than the destinations and what was there before.

use super::{Entry, snapshot_dir, srv};
use crate::ctx::{Ctx, Samples, Tier};
use repe::value_stream::{self as vs, Compression, RouterValueStreamExt, StreamOpts};
use repe::{AsyncClient, Client, Router};
use serde::{Deserialize, Serialize};
use serde_json::{Value, json};
use std::collections::BTreeMap;
use std::io::Read;
use std::sync::mpsc::{Receiver, Sender, channel};
use std::sync::{Arc, Mutex};
use std::time::Duration;

const CHUNK: usize = 16;
const HELD_LEN: usize = 8 * CHUNK;
const FREE_LEN: usize = 3 * CHUNK + 5;
const WATCHDOG: Duration = Duration::from_secs(60);

/// (held destination, free destination): names that share a stem, a prefix, or nothing
pub const NAME_PAIRS: &[(&str, &str)] = &[
    ("out.bin", "out.idx"),
    ("out.bin", "out"),
    ("out", "out.bin"),
    ("out.bin", "out.bin.bak"),
    ("a.b.c", "a.b.d"),
    ("data.tar.gz", "data.tar.zst"),
    (".hidden", ".hidden.v2"),
    ("left", "right"),
];

#[derive(Clone, Copy, Debug, PartialEq, Eq, PartialOrd, Ord, Serialize, Deserialize)]
pub enum PullFn {
    Blocking,
    Async,
}

#[derive(Clone, Debug, PartialEq, Eq, PartialOrd, Ord, Serialize, Deserialize)]
pub struct SibCase {
    pub pair: usize,
    /// the held producer parks after this many bytes of its resource were read
    pub park_after: usize,
    /// the held producer fails after its last byte (so the held pull must fail and publish nothing)
    pub held_fails: bool,
    pub held_fn: PullFn,
    pub free_fn: PullFn,
    pub zstd: bool,
    /// both destinations exist before the row (with their own previous content)
    pub existing: bool,
}

fn held_content() -> Vec<u8> {
    (0..HELD_LEN).map(|i| 0xA0 | (i % 11) as u8).collect()
}
fn free_content() -> Vec<u8> {
    (0..FREE_LEN).map(|i| 0x10 + (i % 7) as u8).collect()
}
fn old_content(which: &str) -> Vec<u8> {
    format!("previous content of the {which} destination").into_bytes()
}

struct GatedReader {
    data: Vec<u8>,
    pos: usize,
    gate_at: usize,
    gate: Option<(Sender<()>, Receiver<()>)>,
    fail_at_end: bool,
}

impl Read for GatedReader {
    fn read(&mut self, out: &mut [u8]) -> std::io::Result<usize> {
        if self.pos >= self.gate_at {
            if let Some((reached, release)) = self.gate.take() {
                let _ = reached.send(());
                let _ = release.recv_timeout(WATCHDOG);
            }
        }
        if self.pos >= self.data.len() {
            return if self.fail_at_end { Err(std::io::Error::other("c10 sibling rows: producer failure at the end")) } else { Ok(0) };
        }
        let limit = if self.pos < self.gate_at { self.gate_at } else { self.data.len() };
        let n = out.len().min(limit - self.pos).min(CHUNK);
        out[..n].copy_from_slice(&self.data[self.pos..self.pos + n]);
        self.pos += n;
        Ok(n)
    }
}

fn pull(f: PullFn, port: u16, resource: &'static str, dest: std::path::PathBuf) -> Result<(), String> {
    let addr = ("127.0.0.1", port);
    match f {
        PullFn::Blocking => {
            let c = Client::connect(addr).map_err(|e| format!("connect: {e}"))?;
            vs::pull_to_file(&c, resource, &dest).map_err(|e| e.to_string())
        }
        PullFn::Async => {
            let rt = tokio::runtime::Builder::new_current_thread().enable_all().build().map_err(|e| e.to_string())?;
            rt.block_on(async {
                let c = AsyncClient::connect(addr).await.map_err(|e| format!("connect: {e}"))?;
                vs::pull_to_file_async(&c, resource, &dest).await.map(|_| ()).map_err(|e| e.to_string())
            })
        }
    }
}

pub struct SibObs {
    before: BTreeMap<String, Entry>,
    /// directory when the free pull returned (held pull parked mid-stream)
    at_free_return: BTreeMap<String, Entry>,
    end: BTreeMap<String, Entry>,
    free: Result<(), String>,
    held: Result<(), String>,
}

pub fn run_case(c: &SibCase) -> Result<SibObs, String> {
    let (held_name, free_name) = NAME_PAIRS[c.pair];
    let dir = super::CaseDir::new().map_err(|e| format!("case dir: {e}"))?;
    let work = dir.work();
    if c.existing {
        std::fs::write(work.join(held_name), old_content("held")).map_err(|e| e.to_string())?;
        std::fs::write(work.join(free_name), old_content("free")).map_err(|e| e.to_string())?;
    }
    let before = snapshot_dir(&work);
    let (reached_tx, reached_rx) = channel::<()>();
    let (release_tx, release_rx) = channel::<()>();
    let gate = Arc::new(Mutex::new(Some((reached_tx, release_rx))));
    let (park_after, fail) = (c.park_after, c.held_fails);
    let router = Router::new().with_reader_stream(
        move |resource: &str| -> Option<Box<dyn Read + Send>> {
            match resource {
                "held" => Some(Box::new(GatedReader { data: held_content(), pos: 0, gate_at: park_after, gate: gate.lock().unwrap().take(), fail_at_end: fail })),
                "free" => Some(Box::new(std::io::Cursor::new(free_content()))),
                _ => None,
            }
        },
        StreamOpts { chunk_bytes: CHUNK, compression: if c.zstd { Compression::Zstd } else { Compression::None }, zstd_level: 3, session_depth: 1 },
    );
    // one router (one session table), two harness fronts: each pull has its own connection
    let (l1, l2) = (srv::new_listener().map_err(|e| e.to_string())?, srv::new_listener().map_err(|e| e.to_string())?);
    let s1 = srv::start(&l1, router.clone(), srv::Script::default(), None).map_err(|e| format!("server: {e}"))?;
    let s2 = srv::start(&l2, router, srv::Script::default(), None).map_err(|e| format!("server: {e}"))?;
    let (port, port2) = (s1.port, s2.port);
    let (hf, hd) = (c.held_fn, work.join(held_name));
    let held = std::thread::spawn(move || pull(hf, port, "held", hd));
    reached_rx.recv_timeout(WATCHDOG).map_err(|_| "the held producer never reached its gate".to_string())?;
    // the held pull is parked mid-stream now; the free pull runs from start to finish
    let (ff, fd) = (c.free_fn, work.join(free_name));
    let free = std::thread::spawn(move || pull(ff, port2, "free", fd)).join().map_err(|_| "free pull panicked".to_string())?;
    let at_free_return = snapshot_dir(&work);
    let _ = release_tx.send(());
    let held = held.join().map_err(|_| "held pull panicked".to_string())?;
    let end = snapshot_dir(&work);
    s1.finish();
    s2.finish();
    Ok(SibObs { before, at_free_return, end, free, held })
}

pub struct Bad {
    pub key: String,
    pub what: String,
}

fn show(e: Option<&Entry>) -> String {
    match e {
        None => "absent".into(),
        Some(Entry::File(b)) => format!("file[{}]", b.len()),
        Some(Entry::Dir(_)) => "dir".into(),
        Some(Entry::Other) => "other".into(),
    }
}

pub fn judge(c: &SibCase, o: &SibObs) -> Vec<Bad> {
    let (held_name, free_name) = NAME_PAIRS[c.pair];
    let ctx = format!(
        "held pull ({:?}) to {held_name:?} parked after {} of {HELD_LEN} bytes{}, free pull ({:?}) to {free_name:?} run meanwhile, zstd={}, destinations {}: free -> {:?}, held -> {:?}; directory at the end {:?}",
        c.held_fn,
        c.park_after,
        if c.held_fails { " (its producer fails at the end)" } else { "" },
        c.free_fn,
        c.zstd,
        if c.existing { "pre-existing" } else { "absent" },
        o.free,
        o.held,
        o.end.iter().map(|(k, v)| format!("{k}={}", show(Some(v)))).collect::<Vec<_>>()
    );
    let mut bad = Vec::new();
    let mut add = |key: &str, what: String| bad.push(Bad { key: format!("C10:sibling-pulls:{key}"), what: format!("{what} ; {ctx}") });
    let want_free = Entry::File(free_content());
    let want_held = Entry::File(held_content());
    match &o.free {
        Ok(()) => {
            if o.at_free_return.get(free_name) != Some(&want_free) {
                add("published-content-wrong", format!("the free pull returned Ok but {free_name:?} then was {}", show(o.at_free_return.get(free_name))));
            } else if o.end.get(free_name) != Some(&want_free) {
                add(
                    "published-content-changed-later",
                    format!("{free_name:?} held the complete content when its pull returned Ok, and is {} after the OTHER pull finished", show(o.end.get(free_name))),
                );
            }
        }
        Err(_) => {
            if o.end.get(free_name) != o.before.get(free_name) {
                add("dest-changed-on-failure", format!("the free pull failed yet {free_name:?} went from {} to {}", show(o.before.get(free_name)), show(o.end.get(free_name))));
            }
        }
    }
    // while the held pull is parked mid-stream its destination is untouched
    if o.at_free_return.get(held_name) != o.before.get(held_name) {
        add(
            "published-before-complete",
            format!("{held_name:?} was {} while its pull was still parked mid-stream (before: {})", show(o.at_free_return.get(held_name)), show(o.before.get(held_name))),
        );
    }
    match &o.held {
        Ok(()) if c.held_fails => add("ok-on-failed-pull", "the held pull returned Ok although its producer failed".into()),
        Ok(()) => {
            if o.end.get(held_name) != Some(&want_held) {
                add("published-content-wrong", format!("the held pull returned Ok but {held_name:?} is {}", show(o.end.get(held_name))));
            }
        }
        Err(_) => {
            if o.end.get(held_name) != o.before.get(held_name) {
                add("dest-changed-on-failure", format!("the held pull failed yet {held_name:?} went from {} to {}", show(o.before.get(held_name)), show(o.end.get(held_name))));
            }
        }
    }
    let strays: Vec<&String> = o.end.keys().filter(|k| k.as_str() != held_name && k.as_str() != free_name && !o.before.contains_key(*k)).collect();
    if !strays.is_empty() && (o.held.is_err() || o.free.is_err()) {
        add("temp-left-on-failure", format!("after both pulls returned the directory holds {strays:?}"));
    }
    bad
}

#[derive(Default)]
pub struct SibStats {
    pub rows: u64,
    pub both_ok: u64,
    pub held_failed_as_scripted: u64,
    pub healthy_pull_failed: Vec<String>,
    pub temp_seen_while_parked: u64,
    pub machinery: Vec<String>,
    pub nontrivial: std::collections::BTreeSet<String>,
}

pub fn cases(tier: Tier) -> Vec<SibCase> {
    let mut v = Vec::new();
    let parks: Vec<usize> = tier.pick(vec![0, CHUNK, HELD_LEN / 2, HELD_LEN - 1], (0..HELD_LEN).step_by(CHUNK / 2).chain([1, HELD_LEN - 1]).collect());
    for pair in 0..NAME_PAIRS.len() {
        for &park_after in &parks {
            for held_fails in [false, true] {
                for (held_fn, free_fn) in [(PullFn::Blocking, PullFn::Blocking), (PullFn::Async, PullFn::Blocking), (PullFn::Blocking, PullFn::Async), (PullFn::Async, PullFn::Async)] {
                    for zstd in [false, true] {
                        for existing in [false, true] {
                            // quick: the async/zstd/existing axes one at a time off the base row
                            if tier == Tier::Quick {
                                let off = [held_fn != PullFn::Blocking || free_fn != PullFn::Blocking, zstd, existing].iter().filter(|b| **b).count();
                                if off > 1 {
                                    continue;
                                }
                            }
                            v.push(SibCase { pair, park_after, held_fails, held_fn, free_fn, zstd, existing });
                        }
                    }
                }
            }
        }
    }
    v
}

pub fn run_sib(ctx: &Ctx, tier: Tier, samples: &Samples) -> (SibStats, Value) {
    let all = cases(tier);
    let stats = Mutex::new(SibStats::default());
    crate::par::for_each_index(all.len() as u64, 1, |_| (), |_, i| {
        let c = &all[i as usize];
        let o = match run_case(c) {
            Ok(o) => o,
            Err(e) => {
                stats.lock().unwrap().machinery.push(format!("{c:?}: {e}"));
                return;
            }
        };
        let bad = judge(c, &o);
        let mut s = stats.lock().unwrap();
        s.rows += 1;
        if o.free.is_ok() && o.held.is_ok() {
            s.both_ok += 1;
        }
        if c.held_fails && o.held.is_err() {
            s.held_failed_as_scripted += 1;
        }
        if o.free.is_err() || (!c.held_fails && o.held.is_err()) {
            s.healthy_pull_failed.push(format!("{c:?}: free {:?} held {:?}", o.free, o.held));
        }
        if o.at_free_return.keys().any(|k| !o.before.contains_key(k) && k != NAME_PAIRS[c.pair].0 && k != NAME_PAIRS[c.pair].1) {
            s.temp_seen_while_parked += 1;
        }
        s.nontrivial.insert(format!("{}/{}/{}", c.pair, c.held_fails, o.held.is_ok()));
        drop(s);
        samples.offer(|| json!({"part": "sibling", "case": c, "free": format!("{:?}", o.free), "held": format!("{:?}", o.held)}));
        for b in bad {
            ctx.violation(b.key, b.what, json!({"part": "sibling", "case": c}));
        }
    });
    let s = stats.into_inner().unwrap();
    let cov = json!({
        "rows": s.rows,
        "both_pulls_ok": s.both_ok,
        "held_pull_failed_as_scripted": s.held_failed_as_scripted,
        "rows_with_a_temp_file_visible_while_the_held_pull_was_parked": s.temp_seen_while_parked,
        "name_pairs": NAME_PAIRS,
        "park_positions": tier.pick(json!([0, CHUNK, HELD_LEN / 2, HELD_LEN - 1]), json!("every half chunk of the held stream, plus 1 and len-1")),
    });
    (s, cov)
}

pub fn replay(case: &Value) -> Result<(), String> {
    let c: SibCase = serde_json::from_value(case["case"].clone()).map_err(|e| e.to_string())?;
    let o = run_case(&c)?;
    let bad = judge(&c, &o);
    if bad.is_empty() { Ok(()) } else { Err(bad.iter().map(|b| format!("{} :: {}", b.key, b.what)).collect::<Vec<_>>().join("\n")) }
}
