//! C03, WebSocket off-reader path at the per-connection cap: a request that arrives while the
//! cap is fully occupied is answered by the READER itself (no handler runs). It is a response
//! like any other: exactly one, carrying the request's id and the request's query bytes; a
//! notify in the same situation gets none. (Which error code it carries, and that the cap is
//! respected, is C16's subject; here only C03's clauses are judged.)
//!
//! One scenario = (cap, blocking route kind, what arrives at the cap). The cap is filled with
//! requests parked on a gate; then the extra request(s) arrive; an inline probe fences them;
//! then the gate opens and the parked requests are answered.

use crate::ctx::Tier;
use crate::frames::Frame;
use crate::wsh::{self, Gate, Got, Serve};
use repe::websocket_server::WebSocketServer;
use repe::{CallContext, Router};
use serde_json::{Value, json};
use std::sync::Arc;
use std::sync::atomic::{AtomicU64, Ordering};
use std::time::Duration;

#[derive(Clone, Copy, Debug, PartialEq)]
pub enum Route {
    JsonBlocking,
    JsonCtxBlocking,
    TypedBlocking,
    /// a blocking route behind a forwarding middleware
    Middleware,
}

#[derive(Clone, Copy, Debug, PartialEq)]
pub enum Extra {
    Call,
    Notify,
    /// a call, a notify and another call back to back
    Burst,
}

#[derive(Clone, Copy, Debug)]
pub struct Sc {
    pub cap: usize,
    pub route: Route,
    pub extra: Extra,
    /// path of the blocking route (its bytes are what the response must echo)
    pub long_path: bool,
}

pub fn scenarios(tier: Tier) -> Vec<Sc> {
    let mut v = Vec::new();
    for cap in [1usize, 2, tier.pick(3, 16)] {
        for route in [Route::JsonBlocking, Route::JsonCtxBlocking, Route::TypedBlocking, Route::Middleware] {
            for extra in [Extra::Call, Extra::Notify, Extra::Burst] {
                for long_path in [false, true] {
                    v.push(Sc { cap, route, extra, long_path });
                }
            }
        }
    }
    v
}

struct Fwd;
impl repe::Middleware for Fwd {
    fn handle(&self, req: &repe::Message, next: repe::Next<'_>) -> Result<repe::Message, repe::RepeError> {
        next.run(req)
    }
}

#[derive(Default)]
pub struct SatOut {
    pub bad: Vec<(String, String, Value)>,
    pub machinery: Option<String>,
    pub scenarios: u64,
    pub rejected_calls_seen: u64,
    pub notifies_at_cap: u64,
    pub handler_runs: u64,
}

fn path_of(sc: &Sc) -> String {
    if sc.long_path { format!("/hold/{}", "seg~1x/".repeat(40)) } else { "/hold".to_string() }
}

fn case_json(sc: &Sc) -> Value {
    json!({"block": "saturated", "cap": sc.cap, "route": format!("{:?}", sc.route), "extra": format!("{:?}", sc.extra), "long_path": sc.long_path})
}

pub fn case_from_json(v: &Value) -> Option<Sc> {
    let (rn, en) = (v["route"].as_str()?, v["extra"].as_str()?);
    let route = [Route::JsonBlocking, Route::JsonCtxBlocking, Route::TypedBlocking, Route::Middleware].into_iter().find(|r| format!("{r:?}") == rn)?;
    let extra = [Extra::Call, Extra::Notify, Extra::Burst].into_iter().find(|r| format!("{r:?}") == en)?;
    Some(Sc { cap: v["cap"].as_u64()? as usize, route, extra, long_path: v["long_path"].as_bool()? })
}

const WATCHDOG: Duration = Duration::from_secs(15);

async fn run_one(sc: &Sc, out: &mut SatOut) {
    let gate = Gate::new();
    let runs = Arc::new(AtomicU64::new(0));
    let path = path_of(sc);
    let (g, r) = (gate.clone(), runs.clone());
    let hold = move |v: Value| {
        r.fetch_add(1, Ordering::SeqCst);
        g.wait();
        Ok(json!({"held": v}))
    };
    let mut router = Router::new().with_json("/probe", |v: Value| Ok(v));
    router = match sc.route {
        Route::JsonBlocking => router.with_json_blocking(&path, hold),
        Route::JsonCtxBlocking => {
            let h = hold.clone();
            router.with_json_ctx_blocking(&path, move |_ctx: &CallContext, v: Value| h(v))
        }
        Route::TypedBlocking => {
            let h = hold.clone();
            router.with_typed_blocking::<Value, Value, _>(&path, move |v: Value| h(v))
        }
        Route::Middleware => router.with_middleware(Fwd).with_json_blocking(&path, hold),
    };
    let shared = WebSocketServer::new(router).with_offreader_limit(sc.cap).into_shared();
    let mut c = wsh::connect(&shared, Serve::Plain, None).await;
    let what = format!("cap {} route {:?} path of {} bytes, at the cap: {:?}", sc.cap, sc.route, path.len(), sc.extra);
    let mut fail = |key: &str, msg: String| out.bad.push((key.to_string(), format!("{what}: {msg}"), case_json(sc)));
    // ---- fill the cap
    for i in 0..sc.cap {
        if let Err(e) = c.send_frame(&Frame::request(1 + i as u64, &path, b"1", 2, false)).await {
            out.machinery = Some(format!("{what}: send failed: {e}"));
            return;
        }
    }
    // (async wait: the server runs on this very runtime thread)
    let begun = std::time::Instant::now();
    while gate.waiting() < sc.cap && begun.elapsed() < WATCHDOG {
        tokio::time::sleep(Duration::from_millis(1)).await;
    }
    if gate.waiting() < sc.cap {
        gate.open();
        out.machinery = Some(format!("{what}: only {} of {} handlers parked", gate.waiting(), sc.cap));
        return;
    }
    // ---- the extra request(s) at the cap, fenced by an inline probe
    let extras: Vec<(u64, bool)> = match sc.extra {
        Extra::Call => vec![(100, false)],
        Extra::Notify => vec![(101, true)],
        Extra::Burst => vec![(100, false), (101, true), (102, false)],
    };
    for (id, notify) in &extras {
        let _ = c.send_frame(&Frame::request(*id, &path, b"2", 2, *notify)).await;
        if *notify {
            out.notifies_at_cap += 1;
        }
    }
    let _ = c.send_frame(&Frame::request(200, "/probe", b"3", 2, false)).await;
    let mut seen: Vec<Frame> = Vec::new();
    loop {
        match c.next(WATCHDOG).await {
            Got::Frame(f) => {
                let done = f.h.id == 200 && f.h.notify == 0;
                seen.push(f);
                if done {
                    break;
                }
            }
            Got::Nothing | Got::End(_) | Got::Close => {
                fail("C03:saturated:connection-stopped-answering", format!("no response to the inline probe sent after the requests at the cap; frames so far {:?}", seen.iter().map(|f| f.h.id).collect::<Vec<_>>()));
                gate.open();
                return;
            }
            _ => {}
        }
    }
    // (the reader handles one frame after the other, so everything it answered by itself for the
    // extras precedes the probe's response)
    for (id, notify) in &extras {
        let got: Vec<&Frame> = seen.iter().filter(|f| f.h.id == *id).collect();
        if *notify {
            if !got.is_empty() {
                fail("C03:saturated:notify-answered", format!("the notify (id {id}) that arrived at the cap was answered (ec {})", got[0].h.ec));
            }
            continue;
        }
        if got.len() != 1 {
            fail(&format!("C03:saturated:response-count:{}", got.len()), format!("{} responses to request id {id} that arrived at the cap", got.len()));
            continue;
        }
        out.rejected_calls_seen += 1;
        let f = got[0];
        if f.h.notify != 0 {
            fail("C03:saturated:response-flagged-notify", format!("the response to request id {id} carries the notify flag"));
        }
        if f.query != path.as_bytes() {
            fail("C03:saturated:query-not-echoed", format!("the response to request id {id} (ec {}) carries a query of {} bytes, the request's has {}", f.h.ec, f.query.len(), path.len()));
        }
    }
    // ---- release: every parked request gets exactly one response with its id and query
    gate.open();
    let mut need: Vec<u64> = (1..=sc.cap as u64).collect();
    while !need.is_empty() {
        match c.next(WATCHDOG).await {
            Got::Frame(f) => {
                if let Some(p) = need.iter().position(|i| *i == f.h.id) {
                    need.remove(p);
                    if f.query != path.as_bytes() {
                        fail("C03:saturated:query-not-echoed", format!("the response to the released request id {} carries a query of {} bytes", f.h.id, f.query.len()));
                    }
                } else {
                    fail("C03:saturated:response-count:2", format!("an extra frame with id {} arrived after the gate was opened", f.h.id));
                }
            }
            _ => {
                fail("C03:saturated:response-count:0", format!("released requests {need:?} were never answered"));
                break;
            }
        }
    }
    // nothing else may follow (fence with another probe)
    let _ = c.send_frame(&Frame::request(201, "/probe", b"4", 2, false)).await;
    loop {
        match c.next(WATCHDOG).await {
            Got::Frame(f) if f.h.id == 201 => break,
            Got::Frame(f) => fail("C03:saturated:response-count:2", format!("an extra frame with id {} arrived at the end", f.h.id)),
            _ => break,
        }
    }
    out.handler_runs += runs.load(Ordering::SeqCst);
    let expected_runs = sc.cap as u64;
    if runs.load(Ordering::SeqCst) != expected_runs {
        fail("C03:saturated:handler-invocations", format!("the blocking handler ran {} times; {} requests were dispatched (those at the cap were rejected)", runs.load(Ordering::SeqCst), expected_runs));
    }
    let _ = c.send_raw(tokio_tungstenite::tungstenite::Message::Close(None)).await;
    let _ = tokio::time::timeout(Duration::from_secs(5), c.server).await;
}

pub fn run_scenarios(list: &[Sc]) -> SatOut {
    let mut out = SatOut::default();
    for sc in list {
        // blocking handlers park on OS threads: real clock
        let rt = tokio::runtime::Builder::new_current_thread().enable_time().build().expect("runtime");
        rt.block_on(run_one(sc, &mut out));
        out.scenarios += 1;
        if out.machinery.is_some() {
            break;
        }
    }
    out
}

pub fn run_all(tier: Tier) -> SatOut {
    run_scenarios(&scenarios(tier))
}
