//! C02 input families: every family is an indexable, deterministic list of
//! hostile (and valid) byte strings. Parent and worker processes build the
//! same table from the tier, so a case is named by (family index, case index).
//!
//! Nothing here looks at repe's code: headers are laid out by `frames::Hdr`.

use crate::ctx::Tier;
use crate::frames::{HEADER, Hdr, SPEC};
use serde_json::{Value, json};

/// Largest declared size the property lets a stream reader allocate.
pub const MIB16: u64 = 16 << 20;
/// Smallest declared size that can never be allocated (property bound).
pub const HUGE: u64 = 1 << 62;

/// An input byte string = literal head followed by `tail_len` pattern bytes
/// (so that a 16 MiB frame has a short replayable description).
#[derive(Clone, Debug, PartialEq, Eq)]
pub struct Input {
    pub head: Vec<u8>,
    pub tail_len: usize,
}

pub fn tail_byte(j: usize) -> u8 {
    ((j.wrapping_mul(131).wrapping_add(89)) >> 2) as u8
}

pub fn hex(b: &[u8]) -> String {
    let mut s = String::with_capacity(b.len() * 2);
    for x in b {
        s.push_str(&format!("{x:02x}"));
    }
    s
}

pub fn unhex(s: &str) -> Result<Vec<u8>, String> {
    if s.len() % 2 != 0 {
        return Err("odd hex length".into());
    }
    (0..s.len() / 2)
        .map(|i| u8::from_str_radix(&s[2 * i..2 * i + 2], 16).map_err(|e| e.to_string()))
        .collect()
}

impl Input {
    pub fn lit(head: Vec<u8>) -> Input {
        Input { head, tail_len: 0 }
    }
    pub fn len(&self) -> usize {
        self.head.len() + self.tail_len
    }
    pub fn materialize(&self) -> Vec<u8> {
        let mut v = Vec::with_capacity(self.len());
        v.extend_from_slice(&self.head);
        v.extend((0..self.tail_len).map(tail_byte));
        v
    }
    pub fn to_json(&self) -> Value {
        json!({"head_hex": hex(&self.head), "tail_len": self.tail_len})
    }
    pub fn from_json(v: &Value) -> Result<Input, String> {
        let head = unhex(v["head_hex"].as_str().ok_or("input.head_hex missing")?)?;
        let tail_len = v["tail_len"].as_u64().unwrap_or(0) as usize;
        Ok(Input { head, tail_len })
    }
}

pub struct Family {
    pub name: &'static str,
    pub len: u64,
    pub describe: String,
    /// cases per child process
    pub batch: u64,
    generate: Box<dyn Fn(u64) -> Input + Send + Sync>,
}

impl Family {
    pub fn get(&self, i: u64) -> Input {
        assert!(i < self.len, "case index {i} out of range for {}", self.name);
        (self.generate)(i)
    }
}

/// Boundary classes of a 64-bit length field that do not depend on the buffer.
/// 65535/65536 stand for "much larger than the buffer but cheap to allocate";
/// values in (16 MiB, 2^62) are only ever given to the slice parsers.
pub fn abs_classes(tier: Tier) -> Vec<u64> {
    let m = u64::MAX;
    let mut v = vec![
        0,
        1,
        2,
        47,
        48,
        49,
        65535,
        65536,
        (1 << 31) - 1,
        1 << 31,
        (1 << 32) - 1,
        1 << 32,
        (1 << 62) - 1,
        1 << 62,
        (1 << 63) - 1,
        1 << 63,
        (1 << 63) + 1,
        // 2^64-48-k, k = 0..3
        m - 47,
        m - 48,
        m - 49,
        m - 50,
        // 2^64-k, k = 1..4
        m,
        m - 1,
        m - 2,
        m - 3,
        // both tiers: one more small pair, the x86-64 address-space size, the largest q with 48+q = 2^63
        255,
        256,
        1 << 47,
        (1 << 63) - 48,
    ];
    if tier == Tier::Thorough {
        v.extend([
            7,
            8,
            4095,
            4096,
            MIB16 - 48, // with the other payload empty: a consistent 16 MiB frame (really allocated by the readers)
            MIB16,
            MIB16 + 1,
            (1 << 47) - 1,
            1 << 48,
            1 << 56,
            (1 << 62) + 1,
            (1 << 63) - 47,
        ]);
    }
    v
}

pub const SPECS: [u16; 4] = [SPEC, 0, 0x0715, 0x1506];

fn pick(abs: &[u64], rel1: &[u64], rel2: &[u64], i: usize) -> u64 {
    if i < abs.len() {
        abs[i]
    } else if i < abs.len() + rel1.len() {
        rel1[i - abs.len()]
    } else {
        rel2[i - abs.len() - rel1.len()]
    }
}

const REL_P: usize = 6;
const REL_Q: usize = 7;
const REL_L: usize = 3;

/// One header of the length-field cross product over a payload of `p` bytes.
fn lenfield_input(abs: &[u64], p: usize, spec: u16, qi: usize, bi: usize, li: usize) -> Input {
    let pu = p as u64;
    let buf = HEADER as u64 + pu;
    // relative to the buffer: buf-48-1, buf-48, buf-47, buf-1, buf, buf+1
    let relp = [pu.saturating_sub(1), pu, pu + 1, buf - 1, buf, buf + 1];
    let q = pick(abs, &relp, &[], qi);
    let rest = pu.wrapping_sub(q); // wraps when q > payload: those are the pairs with 48+q+b == buf (mod 2^64)
    let relq = [
        rest.wrapping_sub(7),
        rest.wrapping_sub(1),
        rest,
        rest.wrapping_add(1),
        0u64.wrapping_sub(q),                  // 48+q+b wraps to 48
        0u64.wrapping_sub(48).wrapping_sub(q), // ... wraps to 0
        1u64.wrapping_sub(q),                  // ... wraps to 49
    ];
    let b = pick(abs, &relp, &relq, bi);
    let sum = 48u64.wrapping_add(q).wrapping_add(b);
    let rell = [sum, sum.wrapping_sub(1), sum.wrapping_add(1)];
    let l = pick(abs, &relp, &rell, li);
    let h = Hdr {
        length: l,
        spec,
        version: 1,
        notify: 0,
        reserved: 0,
        id: 0x0102_0304_0506_0708,
        query_length: q,
        body_length: b,
        query_format: 1,
        body_format: 2,
        ec: 0,
    };
    Input { head: h.encode().to_vec(), tail_len: p }
}

fn lenfields(tier: Tier) -> Family {
    let abs = abs_classes(tier);
    let payloads: Vec<usize> = match tier {
        Tier::Quick => vec![0, 1, 2, 3, 7, 8, 47, 48, 49, 96, 100, 200],
        Tier::Thorough => {
            let mut v: Vec<usize> = (0..=100).collect();
            v.extend([127, 128, 255, 256, 257, 1000, 4047, 4048]);
            v
        }
    };
    let nq = (abs.len() + REL_P) as u64;
    let nb = (abs.len() + REL_P + REL_Q) as u64;
    let nl = (abs.len() + REL_P + REL_L) as u64;
    let per = nq * nb * nl;
    let ns = SPECS.len() as u64;
    let len = per * ns * payloads.len() as u64;
    let describe = format!(
        "48-byte header x payload: length/query_length/body_length over {} absolute classes {:?} + buffer-relative (P-1,P,P+1,buf-1,buf,buf+1) \
         [+ for body_length: P-q-7,P-q-1,P-q,P-q+1 and the values making 48+q+b wrap to 48, 0, 49; for length: 48+q+b mod 2^64 and +-1] \
         = {nq} x {nb} x {nl} per (spec, payload); spec in {:04x?}; payload (trailing buffer) lengths P in {:?}",
        abs.len(),
        abs,
        SPECS,
        payloads
    );
    Family {
        name: "lenfields",
        len,
        describe,
        batch: (len / 96).clamp(500, 60_000),
        generate: Box::new(move |i| {
            let li = (i % nl) as usize;
            let bi = ((i / nl) % nb) as usize;
            let qi = ((i / (nl * nb)) % nq) as usize;
            let si = ((i / per) % ns) as usize;
            let pi = (i / (per * ns)) as usize;
            lenfield_input(&abs, payloads[pi], SPECS[si], qi, bi, li)
        }),
    }
}

/// Valid frames used as mutation bases: (q, b) sizes x {plain, every field non-zero}.
pub fn base_frames(tier: Tier) -> Vec<Vec<u8>> {
    let mut sizes: Vec<(usize, usize)> = vec![
        (0, 0),
        (1, 0),
        (0, 1),
        (1, 1),
        (2, 3),
        (5, 0),
        (0, 5),
        (7, 9),
        (16, 16),
        (47, 1),
        (1, 47),
        (48, 48),
        (49, 47),
        (100, 0),
        (0, 100),
        (100, 200),
        (255, 1),
        (13, 300),
        (64, 512),
        (300, 700),
    ];
    if tier == Tier::Thorough {
        sizes.extend([(1000, 1000), (0, 4048), (4048, 0), (2000, 2048), (4047, 1), (1, 4047)]);
    }
    let mut out = Vec::new();
    for (q, b) in sizes {
        for rich in [false, true] {
            out.push(valid_frame(q, b, rich));
        }
    }
    out
}

pub fn valid_frame(q: usize, b: usize, rich: bool) -> Vec<u8> {
    let mut h = Hdr::consistent(q, b);
    if rich {
        h.version = 0x7f;
        h.notify = 1;
        h.reserved = 0xA1B2_C3D4;
        h.id = 0x0102_0304_0506_0708;
        h.query_format = 0x0203;
        h.body_format = 0x0405;
        h.ec = 0x0A0B_0C0D;
    } else {
        h.id = 1;
        h.query_format = 1;
        h.body_format = 1;
    }
    let mut v = h.encode().to_vec();
    v.extend((0..q).map(|i| b'a' + (i % 26) as u8));
    v.extend((0..b).map(|i| (i.wrapping_mul(7).wrapping_add(3)) as u8 | 0x80));
    v
}

const U16_CLASSES: [u16; 13] =
    [0, 1, 2, 3, 4, 0xff, 0x100, 0x1506, 0x1507, 0x1508, 0x0715, 0x7fff, 0xffff];
const U8_CLASSES: [u8; 5] = [0, 1, 2, 0x7f, 0xff];
const U32_CLASSES: [u32; 6] = [0, 1, 0xffff, 0x10000, 0x7fff_ffff, 0xffff_ffff];
/// (offset, width) of the eleven header fields
const FIELDS: [(usize, usize); 11] =
    [(0, 8), (8, 2), (10, 1), (11, 1), (12, 4), (16, 8), (24, 8), (32, 8), (40, 2), (42, 2), (44, 4)];
const EXTENSIONS: usize = 5;

fn field_values(width: usize, abs_n: usize) -> usize {
    match width {
        8 => abs_n + 6,
        2 => U16_CLASSES.len(),
        1 => U8_CLASSES.len(),
        _ => U32_CLASSES.len(),
    }
}

fn mutation_count(n: usize, abs_n: usize, sweep: bool) -> u64 {
    let fields: usize = FIELDS.iter().map(|&(_, w)| field_values(w, abs_n)).sum();
    (4 * n + (n + 1) + EXTENSIONS + fields + if sweep { HEADER * 256 } else { 0 }) as u64
}

fn mutate(frame: &[u8], abs: &[u64], mut k: usize) -> Input {
    let n = frame.len();
    // A: single-byte mutations
    if k < 4 * n {
        let (pos, op) = (k / 4, k % 4);
        let mut v = frame.to_vec();
        v[pos] = match op {
            0 => 0x00,
            1 => 0xff,
            2 => v[pos].wrapping_add(1),
            _ => v[pos].wrapping_sub(1),
        };
        return Input::lit(v);
    }
    k -= 4 * n;
    // B: every truncation length 0..=n
    if k <= n {
        return Input::lit(frame[..k].to_vec());
    }
    k -= n + 1;
    // C: trailing bytes after a complete frame
    if k < EXTENSIONS {
        let mut v = frame.to_vec();
        match k {
            0 => v.push(0),
            1 => v.extend([0xff, 0xff]),
            2 => v.extend((0..7).map(tail_byte)),
            3 => v.extend((0..48).map(tail_byte)),
            _ => v.extend_from_slice(frame),
        }
        return Input::lit(v);
    }
    k -= EXTENSIONS;
    // D: every header field replaced by every class of its width
    for &(off, w) in &FIELDS {
        let cnt = field_values(w, abs.len());
        if k < cnt {
            let mut v = frame.to_vec();
            match w {
                8 => {
                    let orig = u64::from_le_bytes(v[off..off + 8].try_into().unwrap());
                    let nn = n as u64;
                    let rel = [
                        nn.saturating_sub(48),
                        nn - 1,
                        nn,
                        nn + 1,
                        orig.wrapping_sub(1),
                        orig.wrapping_add(1),
                    ];
                    let val = pick(abs, &rel, &[], k);
                    v[off..off + 8].copy_from_slice(&val.to_le_bytes());
                }
                2 => v[off..off + 2].copy_from_slice(&U16_CLASSES[k].to_le_bytes()),
                1 => v[off] = U8_CLASSES[k],
                _ => v[off..off + 4].copy_from_slice(&U32_CLASSES[k].to_le_bytes()),
            }
            return Input::lit(v);
        }
        k -= cnt;
    }
    // E (thorough): every header byte set to every value
    if k < HEADER * 256 {
        let mut v = frame.to_vec();
        v[k / 256] = (k % 256) as u8;
        return Input::lit(v);
    }
    unreachable!("mutation index out of range")
}

fn mutations(tier: Tier) -> Family {
    let abs = abs_classes(tier);
    let sweep = tier == Tier::Thorough;
    let frames = base_frames(tier);
    let mut cum = Vec::with_capacity(frames.len() + 1);
    let mut total = 0u64;
    for f in &frames {
        cum.push(total);
        total += mutation_count(f.len(), abs.len(), sweep);
    }
    cum.push(total);
    let describe = format!(
        "{} valid frames (payload sizes x {{plain, every header field non-zero}}), each mutated by: every byte position x {{0x00,0xff,+1,-1}}; \
         every truncation length 0..=len; trailing 1,2,7,48 bytes and a second copy; every one of the 11 header fields replaced by every class of its width \
         (u64: absolute classes + len-48,len-1,len,len+1,orig-1,orig+1; u16: {:04x?}; u8: {:02x?}; u32: {:08x?}){}",
        frames.len(),
        U16_CLASSES,
        U8_CLASSES,
        U32_CLASSES,
        if sweep { "; every one of the 48 header bytes set to every value 0..=255" } else { "" }
    );
    Family {
        name: "mutations",
        len: total,
        describe,
        batch: (total / 64).clamp(200, 20_000),
        generate: Box::new(move |i| {
            let f = cum.partition_point(|&c| c <= i) - 1;
            mutate(&frames[f], &abs, (i - cum[f]) as usize)
        }),
    }
}

/// Two frames back to back, truncated at every byte position.
fn two_frame_streams(tier: Tier) -> Family {
    let sizes: Vec<(usize, usize, bool)> = match tier {
        Tier::Quick => vec![(0, 0, false), (1, 0, true), (0, 1, false), (3, 4, true), (20, 30, false), (47, 2, true)],
        Tier::Thorough => vec![
            (0, 0, false),
            (1, 0, true),
            (0, 1, false),
            (3, 4, true),
            (20, 30, false),
            (47, 2, true),
            (48, 48, false),
            (100, 150, true),
            (0, 300, false),
            (300, 0, true),
        ],
    };
    let frames: Vec<Vec<u8>> = sizes.iter().map(|&(q, b, r)| valid_frame(q, b, r)).collect();
    let n = frames.len();
    let mut cum = Vec::new();
    let mut total = 0u64;
    for i in 0..n {
        for j in 0..n {
            cum.push(total);
            total += (frames[i].len() + frames[j].len() + 1) as u64;
        }
    }
    cum.push(total);
    Family {
        name: "two_frame_streams",
        len: total,
        describe: format!(
            "all {}x{} ordered pairs of valid frames (payload sizes {:?}) concatenated and truncated at every byte position 0..=len",
            n, n, sizes
        ),
        batch: (total / 32).clamp(200, 20_000),
        generate: Box::new(move |i| {
            let p = cum.partition_point(|&c| c <= i) - 1;
            let (a, b) = (p / n, p % n);
            let mut v = frames[a].clone();
            v.extend_from_slice(&frames[b]);
            v.truncate((i - cum[p]) as usize);
            Input::lit(v)
        }),
    }
}

const RAW_PATTERNS: usize = 8;

/// Plain byte strings of every length: constant fills, a counter, a fill that
/// happens to carry the magic, and headers that claim len-1 / len / len+1 bytes.
fn raw_strings(tier: Tier) -> Family {
    let lens: Vec<usize> = match tier {
        Tier::Quick => {
            let mut v: Vec<usize> = (0..=256).collect();
            v.extend([511, 512, 513, 1023, 1024, 1025, 2048, 4095, 4096]);
            v
        }
        Tier::Thorough => (0..=4096).collect(),
    };
    let total = (lens.len() * RAW_PATTERNS) as u64;
    let describe = format!(
        "byte strings of length {} x {RAW_PATTERNS} patterns: 0x00 fill, 0xff fill, counter, 07 15 alternating (magic in place, absurd lengths), \
         and a valid header claiming exactly len / len-1 / len+1 bytes with the query taking a third of the payload, \
         and a header with length = len but query_length = len (body_length = 0)",
        match tier {
            Tier::Quick => "0..=256 and 511,512,513,1023,1024,1025,2048,4095,4096".to_string(),
            Tier::Thorough => "0..=4096 (every length)".to_string(),
        }
    );
    Family {
        name: "raw_strings",
        len: total,
        describe,
        batch: (total / 32).clamp(100, 5_000),
        generate: Box::new(move |i| {
            let n = lens[i as usize / RAW_PATTERNS];
            let pat = i as usize % RAW_PATTERNS;
            let mut v: Vec<u8> = match pat {
                0 => vec![0u8; n],
                1 => vec![0xffu8; n],
                2 => (0..n).map(|j| j as u8).collect(),
                3 => (0..n).map(|j| if j % 2 == 0 { 0x07 } else { 0x15 }).collect(),
                _ => (0..n).map(tail_byte).collect(),
            };
            if pat >= 4 {
                // claimed total relative to the real length
                let claimed: i64 = match pat {
                    4 => n as i64,
                    5 => n as i64 - 1,
                    6 => n as i64 + 1,
                    _ => n as i64,
                };
                let payload = (claimed - HEADER as i64).max(0) as u64;
                let (q, b) = if pat == 7 { (n as u64, 0) } else { (payload / 3, payload - payload / 3) };
                let h = Hdr {
                    length: claimed.max(0) as u64,
                    spec: SPEC,
                    version: 1,
                    id: n as u64,
                    query_length: q,
                    body_length: b,
                    query_format: 1,
                    body_format: 1,
                    ..Default::default()
                };
                let e = h.encode();
                let k = n.min(HEADER);
                v[..k].copy_from_slice(&e[..k]);
            }
            Input::lit(v)
        }),
    }
}

/// Frames whose declared size is at the two ends of what the property allows a
/// stream reader to see: exactly 16 MiB (allocatable everywhere) and >= 2^62.
fn big_declared(_tier: Tier) -> Family {
    let m = MIB16 - HEADER as u64;
    let mx = u64::MAX;
    // (query_length, body_length, bytes supplied after the header)
    let mut list: Vec<(u64, u64, usize)> = vec![
        (0, m, m as usize), // the one complete 16 MiB frame
        (0, m, 0),
        (0, m, 1),
        (m, 0, 0),
        (m / 2, m - m / 2, 100),
        (5, m - 5, 5),
    ];
    for &(q, b) in &[
        (HUGE - 48, 0u64),
        (0, HUGE - 48),
        (HUGE, 0),
        (0, HUGE),
        (HUGE, HUGE),
        ((1 << 63) - 48, 0),
        (0, (1 << 63) - 48),
        (1 << 63, 0),
        (0, 1 << 63),
        (mx - 48, 0),
        (0, mx - 48),
        (1 << 63, (1 << 63) - 49),
        (5, HUGE),
        (HUGE, 5),
    ] {
        list.push((q, b, 0));
        list.push((q, b, 5));
        list.push((q, b, 200));
    }
    let total = list.len() as u64;
    Family {
        name: "big_declared",
        len: total,
        describe: format!(
            "consistent headers declaring exactly 16 MiB (one complete frame; others followed by 0, 1, 5 or 100 payload bytes then EOF) \
             and consistent headers declaring >= 2^62 bytes in query_length, body_length or both (2^62, 2^63, 2^64-1 totals) followed by 0, 5 or 200 bytes: {} inputs",
            total
        ),
        batch: 1,
        generate: Box::new(move |i| {
            let (q, b, supplied) = list[i as usize];
            let h = Hdr {
                length: 48 + q + b, // never wraps for the rows above
                spec: SPEC,
                version: 1,
                id: 7,
                query_length: q,
                body_length: b,
                query_format: 1,
                body_format: 1,
                ..Default::default()
            };
            Input { head: h.encode().to_vec(), tail_len: supplied }
        }),
    }
}

pub fn families(tier: Tier) -> Vec<Family> {
    vec![big_declared(tier), lenfields(tier), mutations(tier), two_frame_streams(tier), raw_strings(tier)]
}
