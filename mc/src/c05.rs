//! C05 (mc part) — bytes put on a connection are always whole frames. Forced
//! stalls (exact write credit on in-memory streams), concurrent writers and
//! interrupted writes (abandoned call, write timeout) on the tokio client and
//! servers, plus large-frame rows on the blocking server over real TCP. The
//! blocking client is decided under loom (lm part).

use crate::clients::{self, Cli, Conn, Kind, Res};
use crate::ctx::{Ctx, Samples, Tier};
use crate::frames::{self, FMT_JSON, Frame};
use crate::memstream;
use crate::par;
use crate::wsh::{self, Got, Serve};
use repe::{CallContext, ErrorCode, NotifyBody, Router};
use serde_json::{Value, json};
use std::collections::BTreeMap;
use std::io::{Read, Write};
use std::time::Duration;

#[derive(Clone, Debug)]
enum Scenario {
    /// m concurrent calls (+1 notify) with the given pads; the peer accepts `stall` bytes, then everything
    ClientWriters { kind: Kind, pads: Vec<usize>, stall: Option<usize> },
    /// call A (large) is abandoned after exactly `k` bytes were accepted; call B is issued after
    /// the abandonment, or (queued) was already waiting for the writer when A was abandoned
    ClientAbandon { kind: Kind, k: usize, queued: bool },
    /// the same AsyncClient scenario with `Cli::call` going through forward_message (all / even tags)
    WithApi(clients::Api, Box<Scenario>),
    /// as ClientAbandon (next call issued afterwards), and after that call one more sender of another kind
    ClientAbandonThen { kind: Kind, k: usize, then: Then },
    /// as ClientAbandon with a request of `pad` bytes of padding (megabytes: whatever a client does differently
    /// for large requests -- chunked writes, fragmentation -- is then what gets interrupted)
    ClientAbandonBig { kind: Kind, k: usize, pad: usize, queued: bool },
    /// AsyncServerWriteTimeout with the large response and / or the following request on `_blocking` routes
    AsyncServerWriteTimeoutRoutes { k: usize, pipelined: bool, big_blocking: bool, small_blocking: bool },
    /// error responses whose text is long (the request's own path or body reflected back): an unknown method
    /// with a path of `len` bytes, a handler error quoting `len` bytes, each followed by a small request; what
    /// the peer receives is whole frames, one per request (AsyncServer: byte stream; WebSocket server: one
    /// binary message per frame)
    ServerLongError { ws: bool, len: usize, handler_error: bool },
    /// requests whose method paths have these lengths, issued back to back (optionally with the peer accepting
    /// at most `chunk` bytes per write): what the peer receives is whole frames carrying exactly those paths
    ClientLongQueries { kind: Kind, chunk: usize },
    /// many concurrent writers (calls, every fourth a notify) with pads cycling over the boundary classes
    ManyWriters { kind: Kind, n: usize, stall: Option<usize> },
    /// blocking Client over TCP with a write timeout and a peer that is not reading: notifies of `fill` pad bytes
    /// until one is interrupted by the timeout, then (peer still stalled) one of `then` pad bytes, then the peer
    /// resumes and two more small notifies are sent
    BlockingClientTimeoutSeq { fill: usize, then: usize },
    /// blocking Server over TCP with a 300 ms write timeout and a 24 MiB response: the peer reads 2 MiB, pauses
    /// `pause_ms`, reads 2 MiB, ... so that the timeout fires in one of the pauses and the peer resumes reading
    /// soon afterwards (whatever the server writes after the interrupted response is then seen)
    BlockingServerWriteTimeoutPaced { pause_ms: u64 },
    /// AsyncServer with a write timeout: response stalls after `k` bytes past the deadline
    AsyncServerWriteTimeout { k: usize, pipelined: bool },
    /// AsyncServer, pipelined requests, response stream stalled after `k` bytes then released;
    /// `chunk` > 0: the transport accepts at most `chunk` bytes per write call (short writes)
    AsyncServerStall { k: usize, n: usize, chunk: usize },
    /// WebSocket server: off-reader responses + handler-pushed notifies with a stalled peer
    WsServerMixed { n: usize, stall: usize },
    /// blocking Server over TCP: 24 MiB response, peer stops reading past the write timeout
    BlockingServerWriteTimeout,
    /// blocking Server over TCP: concurrent large responses on separate connections + pipelining
    BlockingServerLarge,
    /// blocking Client over TCP with a write timeout: a 24 MiB notify is interrupted by a peer
    /// that is not reading; the peer then resumes and the client sends again
    BlockingClientWriteTimeout,
}

#[derive(Clone, Copy, Debug, PartialEq)]
enum Then {
    Notify,
    /// AsyncClient::forward_message with a notify frame (the relay path)
    ForwardNotify,
    Batch,
}

fn scenarios(tier: Tier) -> Vec<Scenario> {
    let mut v = Vec::new();
    let cap = 8192usize; // BufWriter capacity
    let frame_overhead = 48 + 2 + 16; // header + "/p" + {"t":NNN,"p":""}
    let pad_classes = [0usize, 1, cap - frame_overhead - 1, cap - frame_overhead, cap - frame_overhead + 1, cap, cap + 1, 65536];
    for kind in [Kind::Async, Kind::Ws] {
        for (i, &a) in pad_classes.iter().enumerate() {
            for &b in &pad_classes[i % 3..] {
                for stall in [None, Some(0), Some(1), Some(47), Some(48), Some(49), Some(60), Some(cap - 1), Some(cap), Some(cap + 1)] {
                    v.push(Scenario::ClientWriters { kind, pads: vec![a, b], stall });
                    if tier == Tier::Thorough {
                        v.push(Scenario::ClientWriters { kind, pads: vec![a, b, 0, a], stall });
                    }
                }
            }
        }
        v.push(Scenario::ClientWriters { kind, pads: vec![0, 0, 0, 0], stall: Some(10) });
        for k in [0usize, 1, 10, 47, 48, 49, 50, 66, 5000, cap - 1, cap, cap + 1, 2 * cap, 19_000] {
            v.push(Scenario::ClientAbandon { kind, k, queued: false });
            v.push(Scenario::ClientAbandon { kind, k, queued: true });
        }
    }
    for k in [0usize, 1, 47, 48, 50, 51, 4096, cap - 1, cap, cap + 1, 15_000, 20_049] {
        for pipelined in [false, true] {
            v.push(Scenario::AsyncServerWriteTimeout { k, pipelined });
        }
        for n in [2usize, 3] {
            v.push(Scenario::AsyncServerStall { k, n, chunk: 0 });
        }
    }
    for chunk in [1usize, 7, 48, 1000, 4096, 8191, 8192, 8193] {
        if chunk == 1 && tier == Tier::Quick {
            continue;
        }
        v.push(Scenario::AsyncServerStall { k: 0, n: 2, chunk });
        v.push(Scenario::AsyncServerStall { k: 51, n: 3, chunk });
        for kind in [Kind::Async, Kind::Ws] {
            v.push(Scenario::ClientWriters { kind, pads: vec![20_000, 0, 9000], stall: Some(usize::MAX - chunk) });
        }
    }
    for n in [2usize, 3, tier.pick(4, 8)] {
        for stall in [0usize, 1, 10, 100, 5000] {
            v.push(Scenario::WsServerMixed { n, stall });
        }
    }
    v.push(Scenario::BlockingServerWriteTimeout);
    v.push(Scenario::BlockingServerLarge);
    v.push(Scenario::BlockingClientWriteTimeout);
    // the relay API of the AsyncClient on every client scenario (appended: earlier indices stay put)
    let base: Vec<Scenario> = v.clone();
    for sc in base {
        if matches!(&sc, Scenario::ClientWriters { kind: Kind::Async, .. } | Scenario::ClientAbandon { kind: Kind::Async, .. }) {
            v.push(Scenario::WithApi(clients::Api::Forward, Box::new(sc.clone())));
            v.push(Scenario::WithApi(clients::Api::Mixed, Box::new(sc)));
        }
    }
    for kind in [Kind::Async, Kind::Ws] {
        for k in [0usize, 10, 48, 66, 5000, cap, 19_000] {
            for then in [Then::Notify, Then::ForwardNotify, Then::Batch] {
                if then == Then::ForwardNotify && kind == Kind::Ws {
                    continue;
                }
                v.push(Scenario::ClientAbandonThen { kind, k, then });
            }
        }
        for n in [8usize, 32] {
            for stall in [None, Some(0), Some(47), Some(cap), Some(3 * cap + 1), Some(usize::MAX - 7), Some(usize::MAX - 4096)] {
                v.push(Scenario::ManyWriters { kind, n, stall });
            }
        }
    }
    for (fill, then) in [(7000usize, 0usize), (7000, 70_000), (20_000, 0), (100, 70_000), (8100, 8200)] {
        v.push(Scenario::BlockingClientTimeoutSeq { fill, then });
    }
    for pause_ms in [540u64, 400] {
        v.push(Scenario::BlockingServerWriteTimeoutPaced { pause_ms });
    }
    for k in [0usize, 47, 48, 51, 4096, cap, 15_000] {
        for pipelined in [false, true] {
            for (big_blocking, small_blocking) in [(true, false), (false, true), (true, true)] {
                v.push(Scenario::AsyncServerWriteTimeoutRoutes { k, pipelined, big_blocking, small_blocking });
            }
        }
    }
    for ws in [false, true] {
        for len in [100usize, 4000, 4096, 4097, 5000, 8192, 70_000] {
            for handler_error in [false, true] {
                v.push(Scenario::ServerLongError { ws, len, handler_error });
            }
        }
    }
    for kind in [Kind::Async, Kind::Ws] {
        for chunk in [0usize, 7, 48, 256, 4096] {
            v.push(Scenario::ClientLongQueries { kind, chunk });
        }
    }
    // megabyte requests abandoned mid-send (1 MiB + a bit, 3 MiB), the cut around the sizes a client might split at
    for kind in [Kind::Async, Kind::Ws] {
        for pad in [1_100_000usize, 3_000_000] {
            for k in [0usize, 100, 65_536, 262_143, 262_144 + 20, 524_288 + 40, 1_048_576 - 1, 1_048_576 + 60, pad - 1] {
                if tier == Tier::Quick && (pad > 2_000_000 || ![100usize, 262_143, 262_144 + 20, 1_048_576 + 60].contains(&k)) {
                    continue;
                }
                v.push(Scenario::ClientAbandonBig { kind, k, pad, queued: false });
                if k % 2 == 0 {
                    v.push(Scenario::ClientAbandonBig { kind, k, pad, queued: true });
                }
            }
        }
    }
    v
}

type Bad = Vec<(String, String)>;

// ------------------------------------------------------------------ clients

async fn client_writers(kind: Kind, pads: &[usize], stall: Option<usize>) -> (Bad, u64) {
    let mut bad = Bad::new();
    let ctx = format!("{} pads {pads:?} stall {stall:?}", kind.name());
    let Conn { cli, mut peer, .. } = clients::connect(kind).await;
    match stall {
        // (encoding) values near usize::MAX request short writes of `usize::MAX - k` bytes instead of a stall
        Some(k) if k > usize::MAX / 2 => peer.ctl().a_to_b.set_write_chunk(usize::MAX - k),
        Some(k) => peer.ctl().a_to_b.set_credit(Some(k)),
        None => {}
    }
    let mut tags = Vec::new();
    let mut hs = Vec::new();
    for (i, pad) in pads.iter().enumerate() {
        let tag = 100 + i as u64;
        tags.push(tag);
        hs.push(tokio::spawn(cli.call(tag, None, *pad)));
    }
    let n = tokio::spawn(cli.notify(900, pads[0]));
    tags.push(900);
    memstream::settle().await;
    let mut flags = 0;
    if stall.is_some_and(|k| k <= usize::MAX / 2) && peer.ctl().a_to_b.stalls() > 0 {
        flags |= 1;
    }
    // the peer resumes reading
    peer.ctl().a_to_b.set_credit(None);
    let reqs = match peer.drain_requests().await {
        Ok(r) => r,
        Err(e) => {
            bad.push((format!("C05:{}:torn-or-interleaved", kind.name()), format!("{ctx}: {e}")));
            return (bad, flags);
        }
    };
    if peer.partial_len() != 0 {
        bad.push((format!("C05:{}:incomplete-frame", kind.name()), format!("{ctx}: {} bytes of an incomplete frame remain after all writers finished", peer.partial_len())));
    }
    let mut got: Vec<u64> = reqs.iter().filter_map(clients::tag_of).collect();
    got.sort();
    let mut want = tags.clone();
    want.sort();
    if got != want {
        bad.push((format!("C05:{}:frames-differ-from-sent", kind.name()), format!("{ctx}: tags in the frames received {got:?}, tags sent {want:?}")));
    }
    for f in &reqs {
        let pad_ok = serde_json::from_slice::<Value>(&f.body).ok().map(|v| v.get("p").and_then(|p| p.as_str()).is_none_or(|p| p.bytes().all(|b| b == b'x')));
        if pad_ok != Some(true) {
            bad.push((format!("C05:{}:foreign-bytes-in-frame", kind.name()), format!("{ctx}: a received frame's body is not what any caller sent")));
        }
    }
    // answer so the calls end
    let ids = clients::tag_ids(&reqs);
    for (i, h) in hs.into_iter().enumerate() {
        if let Some(id) = ids.get(&(100 + i as u64)) {
            peer.send(&clients::reply(*id)).await;
        }
        let _ = clients::join_call(h).await;
    }
    let _ = n.await;
    (bad, flags | 2)
}

async fn client_abandon(kind: Kind, k: usize, queued: bool, then: Option<Then>, pad: usize) -> (Bad, u64) {
    let mut bad = Bad::new();
    let ctx = format!("{} call of {pad} padding bytes abandoned after {k} bytes (next call {}{})", kind.name(), if queued { "already queued on the writer" } else { "issued afterwards" }, then.map(|t| format!(", then {t:?}")).unwrap_or_default());
    let Conn { cli, mut peer, .. } = clients::connect(kind).await;
    peer.ctl().a_to_b.set_credit(Some(k));
    let a = tokio::spawn(cli.call(1, None, pad));
    memstream::settle().await;
    let accepted_before = peer.ctl().a_to_b.written_total();
    let mut flags = 0;
    if !a.is_finished() && peer.ctl().a_to_b.stalls() > 0 {
        flags |= 4; // really interrupted mid-write
    }
    // the other caller either already waits for the writer, or comes later
    let b_early = if queued {
        let h = tokio::spawn(cli.call(2, None, 0));
        memstream::settle().await;
        Some(h)
    } else {
        None
    };
    a.abort();
    let _ = a.await;
    memstream::settle().await;
    let b = match b_early {
        Some(h) => h,
        None => tokio::spawn(cli.call(2, None, 0)),
    };
    memstream::settle().await;
    // one more sender of another kind on the same connection
    let extra: Option<tokio::task::JoinHandle<()>> = match (then, cli.clone()) {
        (Some(Then::Notify), c) => Some(tokio::spawn(async move {
            let _ = c.notify(3, 0).await;
        })),
        (Some(Then::Batch), c) => Some(tokio::spawn(async move {
            let _ = tokio::time::timeout(Duration::from_secs(60), c.batch(vec![4, 5])).await;
        })),
        (Some(Then::ForwardNotify), Cli::Async(c)) => Some(tokio::spawn(async move {
            let m = repe::Message::builder().id(77).notify(true).query_str("/p").body_bytes(b"{\"t\":6}".to_vec()).body_format(repe::BodyFormat::Json).build();
            let _ = c.forward_message(&m).await;
        })),
        _ => None,
    };
    if extra.is_some() {
        memstream::settle().await;
    }
    peer.ctl().a_to_b.set_credit(None);
    memstream::settle().await;
    let wire = match &mut peer {
        clients::Peer::Raw { ctl, .. } => ctl.a_to_b.take(),
        clients::Peer::Ws { .. } => Vec::new(),
    };
    match kind {
        Kind::Async => {
            // everything the client ever wrote: must be whole frames, or (interrupted write)
            // nothing may follow what the interrupted write had already handed over
            match frames::split_stream(&wire) {
                Ok((fr, 0)) => {
                    // whole frames only: fine (the interrupted frame was completed or never started)
                    let _ = fr;
                }
                Ok((_, rest)) => {
                    let _ = rest;
                    if wire.len() as u64 > accepted_before.max(k as u64) {
                        bad.push((
                            "C05:AsyncClient:bytes-after-interrupted-write".into(),
                            format!("{ctx}: the abandoned call had handed over {accepted_before} bytes of its frame; afterwards the connection carried {} bytes in total and they do not parse into whole frames", wire.len()),
                        ));
                    }
                }
                Err(e) => bad.push((
                    "C05:AsyncClient:bytes-after-interrupted-write".into(),
                    format!("{ctx}: after the abandoned write the peer received {} bytes that do not parse into frames ({e})", wire.len()),
                )),
            }
            // answer whatever whole request for tag 2 arrived so the task ends
            if let Ok((fr, _)) = frames::split_stream(&wire) {
                if let Some(id) = clients::tag_ids(&fr).get(&2) {
                    peer.send(&clients::reply(*id)).await;
                }
            }
        }
        Kind::Ws => match peer.drain_requests().await {
            Ok(reqs) => {
                if let Some(id) = clients::tag_ids(&reqs).get(&2) {
                    peer.send(&clients::reply(*id)).await;
                }
            }
            Err(e) => bad.push(("C05:WebSocketClient:bytes-after-interrupted-write".into(), format!("{ctx}: {e}"))),
        },
    }
    let rb = clients::join_call(b).await;
    // (if the stream was torn the peer cannot answer, so a hanging later call is the same
    // defect, already reported above)
    if rb == Res::Hang && bad.is_empty() {
        bad.push((format!("C05:{}:later-call-hangs-after-abandon", kind.name()), format!("{ctx}: the next call never returned")));
    }
    if let Some(h) = extra {
        h.abort();
        let _ = h.await;
        flags |= 8192;
    }
    (bad, flags | 8)
}

async fn many_writers(kind: Kind, n: usize, stall: Option<usize>) -> (Bad, u64) {
    let cap = 8192usize;
    let classes = [0usize, 1, cap - 67, cap - 66, cap - 65, cap, cap + 1, 20_000, 3, 65_536];
    let pads: Vec<usize> = (0..n).map(|i| classes[i % classes.len()]).collect();
    let mut bad = Bad::new();
    let ctx = format!("{} {n} concurrent writers, stall {stall:?}", kind.name());
    let Conn { cli, mut peer, .. } = clients::connect(kind).await;
    match stall {
        Some(k) if k > usize::MAX / 2 => peer.ctl().a_to_b.set_write_chunk(usize::MAX - k),
        Some(k) => peer.ctl().a_to_b.set_credit(Some(k)),
        None => {}
    }
    let mut hs = Vec::new();
    let mut ns = Vec::new();
    let mut want = Vec::new();
    for (i, pad) in pads.iter().enumerate() {
        let tag = 100 + i as u64;
        want.push(tag);
        if i % 4 == 3 {
            ns.push(tokio::spawn(cli.notify(tag, *pad)));
        } else {
            hs.push((tag, tokio::spawn(cli.call(tag, None, *pad))));
        }
    }
    memstream::settle().await;
    let mut flags = 16384;
    if stall.is_some_and(|k| k <= usize::MAX / 2) && peer.ctl().a_to_b.stalls() > 0 {
        flags |= 1;
    }
    // the peer resumes reading, a few bytes at a time at first
    if stall.is_some_and(|k| k <= usize::MAX / 2) {
        for g in [1usize, 47, 1, cap, 5] {
            peer.ctl().a_to_b.grant(g);
            memstream::settle().await;
        }
    }
    peer.ctl().a_to_b.set_credit(None);
    let reqs = match peer.drain_requests().await {
        Ok(r) => r,
        Err(e) => {
            bad.push((format!("C05:{}:torn-or-interleaved", kind.name()), format!("{ctx}: {e}")));
            return (bad, flags);
        }
    };
    if peer.partial_len() != 0 {
        bad.push((format!("C05:{}:incomplete-frame", kind.name()), format!("{ctx}: {} bytes of an incomplete frame remain after all writers finished", peer.partial_len())));
    }
    let mut got: Vec<u64> = reqs.iter().filter_map(clients::tag_of).collect();
    got.sort();
    if got != want {
        bad.push((format!("C05:{}:frames-differ-from-sent", kind.name()), format!("{ctx}: tags in the frames received {got:?}, tags sent {want:?}")));
    }
    for f in &reqs {
        let v = serde_json::from_slice::<Value>(&f.body).ok();
        let tag = v.as_ref().and_then(|v| v.get("t")).and_then(|t| t.as_u64());
        let pad = v.as_ref().and_then(|v| v.get("p")).and_then(|p| p.as_str()).map(|p| (p.len(), p.bytes().all(|b| b == b'x')));
        let want_pad = tag.and_then(|t| pads.get((t - 100) as usize)).copied();
        let ok = match (want_pad, pad) {
            (Some(0), None) => true,
            (Some(w), Some((l, allx))) => w == l && allx,
            _ => false,
        };
        if !ok {
            bad.push((format!("C05:{}:foreign-bytes-in-frame", kind.name()), format!("{ctx}: the frame with tag {tag:?} does not carry the body its caller sent")));
            break;
        }
    }
    let ids = clients::tag_ids(&reqs);
    for (tag, h) in hs {
        if let Some(id) = ids.get(&tag) {
            peer.send(&clients::reply(*id)).await;
        }
        let _ = clients::join_call(h).await;
    }
    for h in ns {
        let _ = h.await;
    }
    (bad, flags | 2)
}

// ------------------------------------------------------------------ AsyncServer

fn big_router() -> Router {
    Router::new()
        .with_json("/big", |v: Value| Ok(json!({"tag": v, "pad": "y".repeat(20_000)})))
        .with_json("/small", |v: Value| Ok(json!({"tag": v})))
        // the same two behind the off-reader (`_blocking`) registration: whatever thread a server runs them on,
        // their responses share the connection with everything else
        .with_json_blocking("/bigb", |v: Value| Ok(json!({"tag": v, "pad": "y".repeat(20_000)})))
        .with_json_blocking("/smallb", |v: Value| Ok(json!({"tag": v})))
        .with_json("/quote", |v: Value| -> Result<Value, (ErrorCode, String)> { Err((ErrorCode::InvalidBody, format!("cannot use {v}"))) })
}

async fn async_server_conn(write_timeout: Option<Duration>, slot: u16) -> (memstream::Ctl, memstream::End, tokio::task::JoinHandle<()>) {
    let tx = repe::verif_io::register_listener(slot);
    let listener = repe::AsyncServer::listen(("127.254.77.1", slot)).await.expect("mem listen");
    let srv = tokio::spawn(async move {
        let _ = repe::AsyncServer::new(big_router()).write_timeout(write_timeout).serve(listener).await;
    });
    let (server_end, client_end, ctl) = memstream::pair();
    tx.send(Box::new(server_end)).ok();
    (ctl, client_end, srv)
}

static SRV_SLOT: std::sync::atomic::AtomicU64 = std::sync::atomic::AtomicU64::new(0);
fn srv_slot() -> u16 {
    (30_000 + SRV_SLOT.fetch_add(1, std::sync::atomic::Ordering::SeqCst) % 20_000) as u16
}

async fn async_server_write_timeout(k: usize, pipelined: bool) -> (Bad, u64) {
    async_server_write_timeout_on(k, pipelined, "/big", "/small").await
}

async fn async_server_write_timeout_on(k: usize, pipelined: bool, big: &str, small: &str) -> (Bad, u64) {
    let mut bad = Bad::new();
    let ctx = format!("AsyncServer write_timeout=1s, response of {big} stalled after {k} bytes, pipelined={pipelined}, next request {small}");
    let (ctl, _client_end, srv) = async_server_conn(Some(Duration::from_secs(1)), srv_slot()).await;
    ctl.a_to_b.set_credit(Some(k));
    ctl.b_to_a.push(&Frame::request(1, big, b"1", FMT_JSON, false).to_bytes());
    if pipelined {
        ctl.b_to_a.push(&Frame::request(2, small, b"2", FMT_JSON, false).to_bytes());
    }
    memstream::settle().await;
    if big != "/big" || small != "/small" {
        // (handlers that may run on the blocking pool: give them real time to hand their result back)
        for _ in 0..50 {
            if ctl.a_to_b.stalls() > 0 {
                break;
            }
            std::thread::sleep(Duration::from_millis(2));
            memstream::settle().await;
        }
    }
    let mut flags = 0;
    if ctl.a_to_b.stalls() > 0 {
        flags |= 16;
    }
    // the write timeout expires while the peer is not reading
    tokio::time::advance(Duration::from_secs(3)).await;
    memstream::settle().await;
    let handed_over = ctl.a_to_b.written_total();
    // the peer resumes reading and (if not pipelined) sends another request
    ctl.a_to_b.set_credit(None);
    if !pipelined {
        ctl.b_to_a.push(&Frame::request(2, small, b"2", FMT_JSON, false).to_bytes());
    }
    memstream::settle().await;
    if big != "/big" || small != "/small" {
        for _ in 0..10 {
            std::thread::sleep(Duration::from_millis(2));
            memstream::settle().await;
        }
    }
    tokio::time::advance(Duration::from_secs(3)).await;
    memstream::settle().await;
    let wire = ctl.a_to_b.take();
    match frames::split_stream(&wire) {
        Ok((_, 0)) => {} // whole frames only (the response fitted before the deadline)
        Ok((_, _rest)) => {
            if wire.len() as u64 > handed_over {
                bad.push(("C05:AsyncServer:bytes-after-timed-out-write".into(), format!("{ctx}: {handed_over} bytes had been handed over when the write timed out; the connection later carried {} bytes, not whole frames", wire.len())));
            }
        }
        Err(e) => bad.push(("C05:AsyncServer:bytes-after-timed-out-write".into(), format!("{ctx}: after the timed-out write the peer received {} bytes that do not parse into frames ({e})", wire.len()))),
    }
    srv.abort();
    (bad, flags | 32)
}

async fn async_server_stall(k: usize, n: usize, chunk: usize) -> (Bad, u64) {
    let mut bad = Bad::new();
    let ctx = format!("AsyncServer, {n} pipelined requests, peer stalls after {k} bytes then resumes, at most {chunk} bytes per write call (0 = unlimited)");
    let (ctl, _client_end, srv) = async_server_conn(None, srv_slot()).await;
    ctl.a_to_b.set_credit(Some(k));
    ctl.a_to_b.set_write_chunk(chunk);
    for i in 0..n {
        let path = if i % 2 == 0 { "/big" } else { "/small" };
        ctl.b_to_a.push(&Frame::request(10 + i as u64, path, i.to_string().as_bytes(), FMT_JSON, false).to_bytes());
    }
    memstream::settle().await;
    ctl.a_to_b.set_credit(None);
    memstream::settle().await;
    if ctl.a_to_b.overflowed() {
        bad.push(("C05:AsyncServer:runaway-writer".into(), format!("{ctx}: the server kept writing beyond {} MiB for {n} small responses", memstream::PIPE_LIMIT >> 20)));
        srv.abort();
        return (bad, 64);
    }
    let wire = ctl.a_to_b.take();
    match frames::split_stream(&wire) {
        Ok((fr, 0)) => {
            let ids: Vec<u64> = fr.iter().map(|f| f.h.id).collect();
            let want: Vec<u64> = (0..n as u64).map(|i| 10 + i).collect();
            if ids != want {
                bad.push(("C05:AsyncServer:frames-differ".into(), format!("{ctx}: response ids {ids:?}, expected {want:?}")));
            }
        }
        other => bad.push(("C05:AsyncServer:torn-or-interleaved".into(), format!("{ctx}: {:?}", other.map(|(f, r)| (f.len(), r))))),
    }
    srv.abort();
    (bad, 64)
}

const QUERY_LENS: [usize; 22] = [2, 16, 47, 48, 49, 63, 64, 65, 127, 128, 200, 207, 208, 209, 210, 255, 256, 257, 300, 4096, 8192, 70_000];

async fn client_long_queries(kind: Kind, chunk: usize) -> (Bad, u64) {
    let mut bad = Bad::new();
    let ctx = format!("{} requests with method paths of {QUERY_LENS:?} bytes, peer accepting at most {chunk} bytes per write (0 = unlimited)", kind.name());
    let Conn { cli, mut peer, .. } = clients::connect(kind).await;
    if chunk > 0 {
        peer.ctl().a_to_b.set_write_chunk(chunk);
    }
    let mut hs = Vec::new();
    for (i, len) in QUERY_LENS.iter().enumerate() {
        hs.push(tokio::spawn(cli.call_path(300 + i as u64, *len)));
        memstream::settle().await;
    }
    let key = format!("C05:{}:frames-differ", kind.name());
    match peer.drain_requests().await {
        Err(e) => bad.push((format!("C05:{}:torn-or-interleaved", kind.name()), format!("{ctx}: {e}"))),
        Ok(reqs) => {
            let ids = clients::tag_ids(&reqs);
            for (i, len) in QUERY_LENS.iter().enumerate() {
                match reqs.iter().find(|f| clients::tag_ids(std::slice::from_ref(*f)).contains_key(&(300 + i as u64))) {
                    None => bad.push((key.clone(), format!("{ctx}: the request with the {len}-byte path did not arrive as a frame ({} frames arrived)", reqs.len()))),
                    Some(f) if f.query.len() != (*len).max(2) => bad.push((key.clone(), format!("{ctx}: the request with the {len}-byte path arrived with a {}-byte query", f.query.len()))),
                    Some(_) => {}
                }
            }
            for (tag, id) in ids {
                let _ = tag;
                peer.send(&clients::reply(id)).await;
            }
        }
    }
    for h in hs {
        let _ = clients::join_call(h).await;
    }
    (bad, 2)
}

async fn server_long_error(ws: bool, len: usize, handler_error: bool) -> (Bad, u64) {
    let mut bad = Bad::new();
    let ctx = format!("{} answering an error whose text reflects {len} bytes of the request ({}), then a small request", if ws { "WebSocket server" } else { "AsyncServer" }, if handler_error { "handler error quoting its body" } else { "unknown method path" });
    let first = if handler_error {
        Frame::request(1, "/quote", format!("\"{}\"", "q".repeat(len)).as_bytes(), FMT_JSON, false)
    } else {
        Frame::request(1, &format!("/nope/{}", "p".repeat(len)), b"1", FMT_JSON, false)
    };
    let second = Frame::request(2, "/small", b"2", FMT_JSON, false);
    if ws {
        let shared = repe::WebSocketServer::new(big_router()).into_shared();
        let mut c = wsh::connect(&shared, Serve::Plain, None).await;
        for f in [&first, &second] {
            if c.send_frame(f).await.is_err() {
                bad.push(("C05:harness".into(), "send failed".into()));
            }
        }
        let mut ids = Vec::new();
        for _ in 0..2 {
            match c.next(Duration::from_secs(10)).await {
                Got::Frame(f) => ids.push(f.h.id),
                Got::BadBinary(b) => bad.push(("C05:WebSocketServer:message-not-one-frame".into(), format!("{ctx}: a binary message of {} bytes is not exactly one frame", b.len()))),
                other => {
                    bad.push(("C05:WebSocketServer:missing-frames".into(), format!("{ctx}: {other:?} after responses {ids:?}")));
                    break;
                }
            }
        }
        if bad.is_empty() && ids != [1, 2] {
            bad.push(("C05:WebSocketServer:frames-differ".into(), format!("{ctx}: response ids {ids:?}")));
        }
        drop(c.client);
        let _ = tokio::time::timeout(Duration::from_secs(10), c.server).await;
        return (bad, 128);
    }
    let (ctl, _client_end, srv) = async_server_conn(None, srv_slot()).await;
    ctl.b_to_a.push(&first.to_bytes());
    ctl.b_to_a.push(&second.to_bytes());
    memstream::settle().await;
    let wire = ctl.a_to_b.take();
    match frames::split_stream(&wire) {
        Ok((fr, 0)) => {
            let ids: Vec<u64> = fr.iter().map(|f| f.h.id).collect();
            if ids != [1, 2] {
                bad.push(("C05:AsyncServer:frames-differ".into(), format!("{ctx}: response ids {ids:?}, expected [1, 2]")));
            }
        }
        other => bad.push(("C05:AsyncServer:torn-or-interleaved".into(), format!("{ctx}: the {} bytes the peer received do not split into whole frames: {:?}", wire.len(), other.map(|(f, r)| (f.iter().map(|x| x.h.length).collect::<Vec<_>>(), r))))),
    }
    srv.abort();
    (bad, 64)
}

// ------------------------------------------------------------------ WebSocket server

async fn ws_server_mixed(n: usize, stall: usize) -> (Bad, u64) {
    let mut bad = Bad::new();
    let ctx = format!("WebSocket server, {n} off-reader requests each pushing 2 notifies, peer stalls after {stall} bytes");
    let router = Router::new().with_json_ctx_blocking("/work", |ctx: &CallContext, v: Value| -> Result<Value, (ErrorCode, String)> {
        if let Some(p) = ctx.peer() {
            let _ = p.send_notify("/n1", NotifyBody::Json(format!("{{\"of\":{v},\"pad\":\"{}\"}}", "n".repeat(3000)).into_bytes()));
            let _ = p.send_notify("/n2", NotifyBody::Json(format!("{{\"of\":{v}}}").into_bytes()));
        }
        Ok(json!({"done": v, "pad": "r".repeat(5000)}))
    });
    let shared = repe::WebSocketServer::new(router).with_offreader_limit(0).into_shared();
    let mut c = wsh::connect(&shared, Serve::Plain, None).await;
    c.ctl.a_to_b.set_credit(Some(stall));
    for i in 0..n {
        if c.send_frame(&Frame::request(50 + i as u64, "/work", i.to_string().as_bytes(), FMT_JSON, false)).await.is_err() {
            bad.push(("C05:harness".into(), "send failed".into()));
        }
    }
    // handlers run on blocking threads; give them (real) time to queue their output, then release
    for _ in 0..200 {
        tokio::task::yield_now().await;
        std::thread::sleep(Duration::from_micros(200));
    }
    c.ctl.a_to_b.set_credit(None);
    let mut responses = 0;
    let mut notifies = 0;
    let total = 3 * n;
    for _ in 0..total {
        match c.next(Duration::from_secs(10)).await {
            Got::Frame(f) => {
                if f.h.notify != 0 { notifies += 1 } else { responses += 1 }
            }
            Got::BadBinary(b) => {
                bad.push(("C05:WebSocketServer:message-not-one-frame".into(), format!("{ctx}: a binary message of {} bytes is not exactly one frame", b.len())));
            }
            other => {
                bad.push(("C05:WebSocketServer:missing-frames".into(), format!("{ctx}: {other:?} after {responses} responses and {notifies} notifies")));
                break;
            }
        }
    }
    if bad.is_empty() && (responses != n || notifies != 2 * n) {
        bad.push(("C05:WebSocketServer:frames-differ".into(), format!("{ctx}: {responses} responses and {notifies} notifies received")));
    }
    drop(c.client);
    let _ = tokio::time::timeout(Duration::from_secs(10), c.server).await;
    (bad, 128)
}

// ------------------------------------------------------------------ blocking Server over TCP

fn blocking_server(write_timeout: Option<Duration>) -> std::net::SocketAddr {
    let router = Router::new()
        .with_json("/huge", |v: Value| Ok(json!({"tag": v, "pad": "z".repeat(24 << 20)})))
        .with_json("/small", |v: Value| Ok(json!({"tag": v})));
    let server = repe::Server::new(router).write_timeout(write_timeout);
    let listener = server.listen("127.0.0.1:0").expect("listen");
    let addr = listener.local_addr().unwrap();
    std::thread::spawn(move || {
        let _ = server.serve(listener);
    });
    addr
}

fn blocking_server_write_timeout() -> (Bad, u64) {
    let mut bad = Bad::new();
    let ctx = "blocking Server write_timeout=300ms, 24 MiB response, peer stops reading";
    let addr = blocking_server(Some(Duration::from_millis(300)));
    let mut s = std::net::TcpStream::connect(addr).expect("connect");
    s.write_all(&Frame::request(1, "/huge", b"1", FMT_JSON, false).to_bytes()).unwrap();
    s.write_all(&Frame::request(2, "/small", b"2", FMT_JSON, false).to_bytes()).unwrap();
    // read only the header of the first response, then stop reading well past the timeout
    let mut hdr = [0u8; 48];
    s.set_read_timeout(Some(Duration::from_secs(10))).ok();
    if s.read_exact(&mut hdr).is_err() {
        return (vec![("C05:harness".into(), format!("{ctx}: no response header"))], 0);
    }
    std::thread::sleep(Duration::from_millis(1500));
    let mut rest = Vec::new();
    let _ = s.read_to_end(&mut rest);
    let mut wire = hdr.to_vec();
    wire.extend(rest);
    let mut flags = 0;
    match frames::split_stream(&wire) {
        Ok((fr, 0)) => {
            // the kernel buffers may have absorbed everything: then both responses are whole
            let _ = fr;
        }
        Ok((fr, rest)) => {
            flags |= 256; // really torn by the timeout
            if !fr.is_empty() {
                bad.push(("C05:Server:bytes-after-timed-out-write".into(), format!("{ctx}: {} whole frame(s) and then {rest} bytes of a torn one", fr.len())));
            }
        }
        Err(e) => bad.push(("C05:Server:bytes-after-timed-out-write".into(), format!("{ctx}: bytes after the torn response do not parse ({e})"))),
    }
    (bad, flags | 512)
}


/// Real sockets and real time: a finding must reproduce in a second execution of the same scenario.
fn blocking_server_write_timeout_paced(pause_ms: u64) -> (Bad, u64) {
    let (bad, flags) = blocking_server_write_timeout_paced_once(pause_ms);
    if bad.is_empty() {
        return (bad, flags);
    }
    let (again, _) = blocking_server_write_timeout_paced_once(pause_ms);
    (bad.into_iter().filter(|(k, _)| again.iter().any(|(k2, _)| k2 == k)).collect(), flags)
}

fn blocking_server_write_timeout_paced_once(pause_ms: u64) -> (Bad, u64) {
    let mut bad = Bad::new();
    let ctx = format!("blocking Server write_timeout=300ms, 24 MiB response, peer reads 2 MiB then pauses {pause_ms} ms, repeatedly");
    let addr = blocking_server(Some(Duration::from_millis(300)));
    let mut s = match std::net::TcpStream::connect(addr) {
        Ok(s) => s,
        Err(e) => return (vec![("C05:harness".into(), format!("{ctx}: connect: {e}"))], 0),
    };
    let _ = s.write_all(&Frame::request(1, "/huge", b"1", FMT_JSON, false).to_bytes());
    let _ = s.write_all(&Frame::request(2, "/small", b"2", FMT_JSON, false).to_bytes());
    s.set_read_timeout(Some(Duration::from_secs(5))).ok();
    let mut wire: Vec<u8> = Vec::new();
    let mut chunk = vec![0u8; 1 << 16];
    let begun = std::time::Instant::now();
    'outer: while begun.elapsed() < Duration::from_secs(40) {
        // one burst of (up to) 2 MiB
        let mut burst = 0usize;
        while burst < (2 << 20) {
            match s.read(&mut chunk) {
                Ok(0) => break 'outer,
                Ok(n) => {
                    wire.extend_from_slice(&chunk[..n]);
                    burst += n;
                }
                Err(_) => break 'outer,
            }
        }
        std::thread::sleep(Duration::from_millis(pause_ms));
    }
    let mut flags = 131072;
    // what the two responses look like when whole
    let want1 = serde_json::to_vec(&json!({"tag": 1, "pad": "z".repeat(24 << 20)})).unwrap();
    let want2 = serde_json::to_vec(&json!({"tag": 2})).unwrap();
    if wire.len() < 48 {
        return (vec![("C05:harness".into(), format!("{ctx}: only {} bytes received", wire.len()))], flags);
    }
    let h = frames::Hdr::decode_raw(&wire).unwrap();
    let (q, b) = (h.query_length as usize, h.body_length as usize);
    if h.consistent_total().is_none() || b != want1.len() {
        bad.push(("C05:Server:bytes-after-timed-out-write".into(), format!("{ctx}: the first response's header is not the expected one ({h:?})")));
        return (bad, flags);
    }
    let start = (48 + q).min(wire.len());
    let have = (wire.len() - start).min(b);
    if wire[start..start + have] != want1[..have] {
        let at = (0..have).find(|i| wire[start + i] != want1[*i]).unwrap_or(0);
        bad.push(("C05:Server:bytes-after-timed-out-write".into(), format!("{ctx}: {} bytes of the 24 MiB response body arrived; from body offset {at} on they are not the response's own bytes: something was written after the interrupted response ({} bytes received in all)", have, wire.len())));
        return (bad, flags);
    }
    if wire.len() < 48 + q + b {
        flags |= 262144; // really interrupted, and the peer kept reading afterwards
        return (bad, flags);
    }
    // the large response arrived whole (the kernel absorbed it): the rest must be the second response, whole
    let rest = &wire[48 + q + b..];
    match frames::split_stream(rest) {
        Ok((fr, 0)) if fr.len() == 1 && fr[0].body == want2 => {}
        other => bad.push(("C05:Server:torn-or-interleaved".into(), format!("{ctx}: after the whole first response: {:?}", other.map(|(f, r)| (f.len(), r))))),
    }
    (bad, flags)
}

fn blocking_server_large() -> (Bad, u64) {
    let mut bad = Bad::new();
    let addr = blocking_server(None);
    let hs: Vec<_> = (0..3u64)
        .map(|c| {
            std::thread::spawn(move || -> Result<(), String> {
                let mut s = std::net::TcpStream::connect(addr).map_err(|e| e.to_string())?;
                s.set_read_timeout(Some(Duration::from_secs(30))).ok();
                for i in 0..2u64 {
                    s.write_all(&Frame::request(c * 10 + i, if i == 0 { "/huge" } else { "/small" }, b"7", FMT_JSON, false).to_bytes()).map_err(|e| e.to_string())?;
                }
                s.shutdown(std::net::Shutdown::Write).ok();
                let mut back = Vec::new();
                s.read_to_end(&mut back).map_err(|e| e.to_string())?;
                let (fr, rest) = frames::split_stream(&back)?;
                let ids: Vec<u64> = fr.iter().map(|f| f.h.id).collect();
                if rest != 0 || ids != vec![c * 10, c * 10 + 1] {
                    return Err(format!("connection {c}: frames {ids:?}, {rest} trailing bytes"));
                }
                Ok(())
            })
        })
        .collect();
    for h in hs {
        if let Err(e) = h.join().unwrap() {
            bad.push(("C05:Server:torn-or-interleaved".into(), format!("blocking Server, 3 connections x (24 MiB + small) pipelined: {e}")));
        }
    }
    (bad, 1024)
}

/// The stream must be whole frames, optionally ending in the prefix of one more frame whose
/// received bytes all belong to that frame (nothing may follow an interrupted write).
fn check_client_stream(wire: &[u8], bodies: &[Vec<u8>]) -> Result<(usize, bool), String> {
    let mut off = 0;
    let mut whole = 0;
    while off < wire.len() {
        let rest = &wire[off..];
        if rest.len() < 48 {
            return Ok((whole, true));
        }
        let h = frames::Hdr::decode_raw(rest).unwrap();
        if h.consistent_total().is_none() {
            return Err(format!("at offset {off}: not a frame header ({h:?}): bytes followed an interrupted frame"));
        }
        let (q, b) = (h.query_length as usize, h.body_length as usize);
        let start = (48 + q).min(rest.len());
        let avail = (rest.len() - start).min(b);
        if !bodies.iter().any(|e| e.len() == b && e.starts_with(&rest[start..start + avail])) {
            return Err(format!("frame at offset {off} (id {}, body length {b}): its first {avail} body bytes are not a prefix of any body the client sent — another write continued inside an interrupted frame", h.id));
        }
        if rest.len() < 48 + q + b {
            return Ok((whole, true));
        }
        whole += 1;
        off += 48 + q + b;
    }
    Ok((whole, false))
}

fn blocking_client_write_timeout() -> (Bad, u64) {
    let mut bad = Bad::new();
    let ctx = "blocking Client set_write_timeout(300 ms): 24 MiB notify to a peer that is not reading, then the peer resumes and the client sends a small notify";
    let listener = std::net::TcpListener::bind("127.0.0.1:0").expect("bind");
    let addr = listener.local_addr().unwrap();
    let (go_tx, go_rx) = std::sync::mpsc::channel::<()>();
    let peer = std::thread::spawn(move || -> Vec<u8> {
        let (mut s, _) = listener.accept().expect("accept");
        // do not read until told to
        let _ = go_rx.recv();
        s.set_read_timeout(Some(Duration::from_secs(10))).ok();
        let mut all = Vec::new();
        let _ = s.read_to_end(&mut all);
        all
    });
    let client = repe::Client::connect(addr).expect("connect");
    client.set_write_timeout(Some(Duration::from_millis(300))).expect("set_write_timeout");
    let big = json!({"p": "x".repeat(24 << 20), "t": 1});
    let small = json!({"t": 2});
    let r1 = client.notify_json("/p", &big);
    let mut flags = 0;
    if r1.is_err() {
        flags |= 2048; // the large write really was interrupted
    }
    // the peer resumes reading; the client writes again
    go_tx.send(()).ok();
    let r2 = client.notify_json("/p", &small);
    drop(client);
    let wire = peer.join().unwrap();
    let bodies = vec![serde_json::to_vec(&big).unwrap(), serde_json::to_vec(&small).unwrap()];
    match check_client_stream(&wire, &bodies) {
        Ok(_) => {}
        Err(e) => bad.push(("C05:Client:bytes-after-timed-out-write".into(), format!("{ctx}: first notify returned {:?}, second {:?}; peer received {} bytes: {e}", r1.as_ref().map_err(|e| e.to_string()), r2.as_ref().map_err(|e| e.to_string()), wire.len()))),
    }
    (bad, flags | 4096)
}


/// Real sockets and real time: a finding must reproduce in a second execution of the same scenario.
fn blocking_client_timeout_seq(fill: usize, then: usize) -> (Bad, u64) {
    let (bad, flags) = blocking_client_timeout_seq_once(fill, then);
    if bad.is_empty() {
        return (bad, flags);
    }
    let (again, _) = blocking_client_timeout_seq_once(fill, then);
    (bad.into_iter().filter(|(k, _)| again.iter().any(|(k2, _)| k2 == k)).collect(), flags)
}

fn blocking_client_timeout_seq_once(fill: usize, then: usize) -> (Bad, u64) {
    let mut bad = Bad::new();
    let ctx = format!("blocking Client set_write_timeout(200 ms), peer not reading: notifies with {fill} pad bytes until one is interrupted, then one with {then} pad bytes, then the peer resumes and two small notifies follow");
    let listener = match std::net::TcpListener::bind("127.0.0.1:0") {
        Ok(l) => l,
        Err(e) => return (vec![("C05:harness".into(), format!("bind: {e}"))], 0),
    };
    let addr = listener.local_addr().unwrap();
    let (go_tx, go_rx) = std::sync::mpsc::channel::<()>();
    let peer = std::thread::spawn(move || -> Vec<u8> {
        let (mut s, _) = listener.accept().expect("accept");
        let _ = go_rx.recv();
        s.set_read_timeout(Some(Duration::from_secs(10))).ok();
        let mut all = Vec::new();
        let _ = s.read_to_end(&mut all);
        all
    });
    let client = match repe::Client::connect(addr) {
        Ok(c) => c,
        Err(e) => return (vec![("C05:harness".into(), format!("connect: {e}"))], 0),
    };
    client.set_write_timeout(Some(Duration::from_millis(200))).expect("set_write_timeout");
    let body = |tag: u64, pad: usize| json!({"p": "x".repeat(pad), "t": tag});
    let filler = body(1, fill);
    let mut sent_ok = 0u64;
    let mut interrupted = false;
    for _ in 0..400_000 {
        match client.notify_json("/p", &filler) {
            Ok(()) => sent_ok += 1,
            Err(_) => {
                interrupted = true;
                break;
            }
        }
    }
    let mut flags = 32768;
    if interrupted {
        flags |= 65536;
    }
    let r_then = client.notify_json("/p", &body(2, then));
    go_tx.send(()).ok();
    // give the peer time to drain what the kernel holds, so that a connection wrongly kept open can write again
    std::thread::sleep(Duration::from_millis(400));
    let r3 = client.notify_json("/p", &body(3, 0));
    let r4 = client.notify_json("/p", &body(4, 0));
    drop(client);
    let wire = peer.join().unwrap_or_default();
    let bodies: Vec<Vec<u8>> = [filler.clone(), body(2, then), body(3, 0), body(4, 0)].iter().map(|b| serde_json::to_vec(b).unwrap()).collect();
    let results = format!("{sent_ok} notifies accepted, interrupted={interrupted}, then {:?}, {:?}, {:?}", r_then.as_ref().map_err(|e| e.to_string()), r3.as_ref().map_err(|e| e.to_string()), r4.as_ref().map_err(|e| e.to_string()));
    if let Err(e) = check_client_stream(&wire, &bodies) {
        bad.push(("C05:Client:bytes-after-timed-out-write".into(), format!("{ctx}: {results}; peer received {} bytes: {e}", wire.len())));
    } else if interrupted {
        // the interrupted write must not be followed by further frames: none of the later notifies may appear
        let mut off = 0;
        while off + 48 <= wire.len() {
            let h = frames::Hdr::decode_raw(&wire[off..]).unwrap();
            let (q, b) = (h.query_length as usize, h.body_length as usize);
            if b != bodies[0].len() {
                bad.push(("C05:Client:frames-after-timed-out-write".into(), format!("{ctx}: {results}; a frame of a notify sent AFTER the interrupted one (body length {b}) is on the wire at offset {off}: the connection was not failed")));
                break;
            }
            off += 48 + q + b;
        }
    }
    (bad, flags)
}

fn run_one(rt: &tokio::runtime::Runtime, sc: &Scenario) -> (Bad, u64) {
    match sc {
        Scenario::WithApi(api, inner) => {
            clients::set_api(*api);
            let (bad, flags) = run_one(rt, inner);
            clients::set_api(clients::Api::Call);
            (bad.into_iter().map(|(k, w)| (k, format!("{w} [AsyncClient API: {api:?} = forward_message for all / even-tagged calls]"))).collect(), flags)
        }
        Scenario::ClientWriters { kind, pads, stall } => rt.block_on(client_writers(*kind, pads, *stall)),
        Scenario::ClientAbandon { kind, k, queued } => rt.block_on(client_abandon(*kind, *k, *queued, None, 20_000)),
        Scenario::ClientAbandonThen { kind, k, then } => rt.block_on(client_abandon(*kind, *k, false, Some(*then), 20_000)),
        Scenario::ClientLongQueries { kind, chunk } => rt.block_on(client_long_queries(*kind, *chunk)),
        Scenario::ServerLongError { ws, len, handler_error } => rt.block_on(server_long_error(*ws, *len, *handler_error)),
        Scenario::AsyncServerWriteTimeoutRoutes { k, pipelined, big_blocking, small_blocking } => {
            rt.block_on(async_server_write_timeout_on(*k, *pipelined, if *big_blocking { "/bigb" } else { "/big" }, if *small_blocking { "/smallb" } else { "/small" }))
        }
        Scenario::ClientAbandonBig { kind, k, pad, queued } => rt.block_on(client_abandon(*kind, *k, *queued, None, *pad)),
        Scenario::ManyWriters { kind, n, stall } => rt.block_on(many_writers(*kind, *n, *stall)),
        Scenario::AsyncServerWriteTimeout { k, pipelined } => rt.block_on(async_server_write_timeout(*k, *pipelined)),
        Scenario::AsyncServerStall { k, n, chunk } => rt.block_on(async_server_stall(*k, *n, *chunk)),
        Scenario::WsServerMixed { n, stall } => {
            // off-reader handlers need real time: use a runtime whose clock is not paused
            let rt2 = tokio::runtime::Builder::new_current_thread().enable_time().build().unwrap();
            rt2.block_on(ws_server_mixed(*n, *stall))
        }
        Scenario::BlockingServerWriteTimeout => blocking_server_write_timeout(),
        Scenario::BlockingServerLarge => blocking_server_large(),
        Scenario::BlockingClientWriteTimeout => blocking_client_write_timeout(),
        Scenario::BlockingClientTimeoutSeq { fill, then } => blocking_client_timeout_seq(*fill, *then),
        Scenario::BlockingServerWriteTimeoutPaced { pause_ms } => blocking_server_write_timeout_paced(*pause_ms),
    }
}

pub fn run(tier: Tier) -> ! {
    let ctx = Ctx::new("C05", tier);
    let all = scenarios(tier);
    let samples = Samples::new(4);
    samples.offer(|| json!(format!("{:?}", all[3])));
    samples.offer(|| json!(format!("{:?}", all[all.len() - 3])));
    let parts = par::for_each_index(
        all.len() as u64,
        4,
        |_| {
            let rt = tokio::runtime::Builder::new_current_thread().enable_time().start_paused(true).build().unwrap();
            (rt, Vec::<(usize, String, String)>::new(), BTreeMap::<u64, u64>::new(), 0u64)
        },
        |(rt, bad, flagc, n), i| {
            let (b, flags) = run_one(rt, &all[i as usize]);
            *n += 1;
            for bit in 0..19 {
                if flags & (1 << bit) != 0 {
                    *flagc.entry(bit).or_insert(0) += 1;
                }
            }
            for (k, w) in b {
                bad.push((i as usize, k, w));
            }
        },
    );
    let mut executed = 0;
    let mut flagc = BTreeMap::<u64, u64>::new();
    let mut bads = Vec::new();
    for (_, bad, f, n) in parts {
        executed += n;
        for (k, v) in f {
            *flagc.entry(k).or_insert(0) += v;
        }
        bads.extend(bad);
    }
    bads.sort_by_key(|b| b.0);
    for (i, k, w) in bads {
        ctx.violation(k, w, json!({"scenario": format!("{:?}", all[i]), "index": i, "tier": tier.name()}));
    }
    let g = |b: u64| flagc.get(&b).copied().unwrap_or(0);
    if !ctx.has_violation() && [0u64, 1, 2, 3, 4, 5, 6, 7, 9, 10, 11, 12, 13, 14, 15, 16, 17].iter().any(|b| g(*b) == 0) {
        ctx.machinery(format!("vacuous exploration: a scenario family never ran or never stalled: {flagc:?}"));
    }
    let coverage = json!({
        "evaluations": executed,
        "distinct_nontrivial": all.len(),
        "rule": "forced-stall scripts: (a) 2-4 concurrent calls + a notify on AsyncClient / WebSocketClient with payload sizes straddling the 8 KiB writer buffer, the peer accepting exactly k bytes (k over header/query/buffer boundary classes) before resuming; (b) a large call abandoned after exactly k accepted bytes, followed by another call and then by a notify / a forwarded notify / a batch; (a') 8 and 32 concurrent writers (calls and notifies, pads cycling over the buffer-boundary classes) against a peer that stalls at offset k and then reads a few bytes at a time, or accepts at most 7 / 4096 bytes per write; (c) AsyncServer with a 1 s write timeout whose response stalls after k bytes past the deadline, and pipelined responses stalled then released; (d) WebSocket server with concurrent off-reader responses and handler-pushed notifies against a stalled peer; (b') blocking Client over loopback TCP with a 200 ms write timeout against a peer that is not reading: notifies of 100 / 7000 / 8100 / 20000 pad bytes until one is interrupted, then one of 0 / 8200 / 70000 pad bytes, the peer resumes, two more notifies: whole frames only and none of the later notifies on the wire; (e') the same 24 MiB response read by a peer that pauses 540 / 400 ms between 2 MiB bursts, so that the timeout fires in a pause and whatever the server writes after the interrupted response is seen: the received body bytes must be the response's own; (e) blocking Server over loopback TCP with 24 MiB responses (peer stops reading past a 300 ms write timeout; three connections pipelining). Everything the peer receives must parse into whole frames, and nothing may follow an interrupted write.",
        "samples": samples.take(),
        "exhaustive": executed == all.len() as u64,
        "nonvacuity": {
            "client_writers_really_stalled": g(0), "client_writer_scenarios": g(1), "abandon_really_mid_write": g(2), "abandon_scenarios": g(3),
            "async_server_timeout_really_stalled": g(4), "async_server_timeout_scenarios": g(5), "async_server_stall_scenarios": g(6),
            "ws_server_mixed_scenarios": g(7), "blocking_server_response_really_torn_by_timeout": g(8), "blocking_server_timeout_scenarios": g(9), "blocking_server_large_scenarios": g(10), "blocking_client_large_write_really_interrupted": g(11), "blocking_client_timeout_scenarios": g(12), "abandon_then_other_sender_scenarios": g(13), "many_writer_scenarios(8,32)": g(14), "blocking_client_timeout_sequences": g(15), "blocking_client_small_frame_really_interrupted": g(16), "blocking_server_paced_reader_scenarios": g(17), "blocking_server_response_interrupted_with_the_peer_reading_on": g(18),
        },
    });
    ctx.finish(
        "fault_enumeration",
        coverage,
        &[
            "in-memory rows are exact (write credit = stall offset, paused clock); the blocking Server rows depend on the kernel actually filling its socket buffers with a 24 MiB response (counter blocking_server_response_really_torn_by_timeout reports whether it did)",
            "32 writers are explored on the single-threaded runtime under forced stalls (their interleaving is what the stalls induce), not free-running on several OS threads",
        ],
    )
}

pub fn replay(case: &Value) -> Result<(), String> {
    let tier = if case["tier"].as_str() == Some("thorough") { Tier::Thorough } else { Tier::Quick };
    let all = scenarios(tier);
    let i = case["index"].as_u64().ok_or("index")? as usize;
    let sc = all.get(i).ok_or("index out of range")?;
    let rt = tokio::runtime::Builder::new_current_thread().enable_time().start_paused(true).build().unwrap();
    let (b, _) = run_one(&rt, sc);
    if b.is_empty() { Ok(()) } else { Err(b.into_iter().map(|(k, w)| format!("{k}: {w}")).collect::<Vec<_>>().join("\n")) }
}

#[allow(dead_code)]
fn _unused(_: Cli) {}
