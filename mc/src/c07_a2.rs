//! C07 / A2 — routing: exact routes, registry mounts, struct mounts and
//! middleware in every registration order, against a reference router.

use super::{Backing, Fwd, Resp, Totals, Via, invoke, request, rfc6901, show_bytes};
use crate::ctx::Tier;
use crate::par;
use repe::server::{HandlerErased, Router};
use repe::{Message, Registry, RepeError, RepeStruct, StructError};
use serde_json::{Map, Value, json};
use std::collections::HashMap;
use std::sync::atomic::{AtomicU64, Ordering};
use std::sync::{Arc, Mutex};

#[derive(Clone, Copy, PartialEq, Eq, Debug)]
enum Item {
    Exact,
    Reg,
    Struct,
    Mw1,
    Mw2,
}
const ITEMS: [Item; 5] = [Item::Exact, Item::Reg, Item::Struct, Item::Mw1, Item::Mw2];

impl Item {
    fn name(self) -> &'static str {
        match self {
            Item::Exact => "exact",
            Item::Reg => "registry",
            Item::Struct => "struct",
            Item::Mw1 => "mw1",
            Item::Mw2 => "mw2",
        }
    }
}

fn permutations() -> Vec<[Item; 5]> {
    fn rec(cur: &mut Vec<Item>, used: &mut [bool; 5], out: &mut Vec<[Item; 5]>) {
        if cur.len() == 5 {
            out.push([cur[0], cur[1], cur[2], cur[3], cur[4]]);
            return;
        }
        for i in 0..5 {
            if !used[i] {
                used[i] = true;
                cur.push(ITEMS[i]);
                rec(cur, used, out);
                cur.pop();
                used[i] = false;
            }
        }
    }
    let mut out = Vec::new();
    rec(&mut Vec::new(), &mut [false; 5], &mut out);
    out
}

fn prefixes(tier: Tier) -> Vec<&'static str> {
    let mut v = vec!["", "/", "/a", "/a/", "a", "/a/b"];
    if tier == Tier::Thorough {
        v.extend(["/ab", "a/b", "/a/b/", "/b"]);
    }
    v
}

fn exact_paths(tier: Tier) -> Vec<&'static str> {
    let mut v = vec!["/a", "/a/b", ""];
    if tier == Tier::Thorough {
        v.extend(["/ab", "/a/", "/", "/a/b/a"]);
    }
    v
}

/// all strings of <= 3 segments over {"a","b","ab",""} (each segment preceded by
/// '/'), plus the boundary set
fn request_paths() -> Vec<String> {
    let segs = ["a", "b", "ab", ""];
    let mut out = vec![String::new()];
    let mut level = vec![String::new()];
    for _ in 0..3 {
        let mut next = Vec::new();
        for p in &level {
            for s in segs {
                next.push(format!("{p}/{s}"));
            }
        }
        out.extend(next.iter().cloned());
        level = next;
    }
    for b in ["/ab", "/a/bc", "/a/b/", "/a//b", "/a~1b", "/a/b~0", "/abc", "/a/b~0/a", "/a~1b/b", "/b/a/ab/a"] {
        if !out.iter().any(|p| p == b) {
            out.push(b.to_string());
        }
    }
    out
}

/// The registry content: every node carries its own canonical pointer, so two
/// different handed-down pointers never give the same answer.
fn tree(at: &str, depth: usize) -> Value {
    let mut m = Map::new();
    m.insert("__at".into(), Value::String(at.to_string()));
    if depth > 0 {
        for k in ["a", "b", "ab", ""] {
            m.insert(k.to_string(), tree(&format!("{at}/{k}"), depth - 1));
        }
        if at.is_empty() {
            m.insert("a/b".into(), json!({"__at": "/a~1b", "b": {"__at": "/a~1b/b"}}));
        }
        if at == "/a" {
            m.insert("b~".into(), json!({"__at": "/a/b~0", "a": {"__at": "/a/b~0/a"}}));
        }
    }
    Value::Object(m)
}

fn new_registry() -> Arc<Registry> {
    let r = Arc::new(Registry::new());
    r.set_root(tree("", 3));
    r
}

/// the exactly registered route: counts its invocations, answers `{"exact":true}`
struct ExactRoute(Arc<AtomicU64>);
impl HandlerErased for ExactRoute {
    fn handle(&self, req: &Message) -> Result<Message, RepeError> {
        self.0.fetch_add(1, Ordering::Relaxed);
        Ok(Message::builder()
            .id(req.header.id)
            .query_format_code(req.header.query_format)
            .body_bytes(br#"{"exact":true}"#.to_vec())
            .body_format_code(2)
            .build())
    }
}

/// records the segments of every call
#[derive(Default)]
pub(crate) struct Recorder {
    pub log: Vec<Vec<String>>,
}

impl RepeStruct for Recorder {
    fn repe_handle(&mut self, segments: &[&str], _body: Option<Value>) -> Result<Option<Value>, StructError> {
        self.log.push(segments.iter().map(|s| s.to_string()).collect());
        Ok(Some(json!(segments)))
    }
}

/// Admissible effective prefixes of a mount registered under `p`: "" and "/"
/// mount at the root; a missing leading '/' is supplied; a trailing '/' may be
/// kept or trimmed (unspecified by the statement, see `run`'s assumptions).
fn candidates(p: &str) -> Vec<String> {
    if p.is_empty() || p == "/" {
        return vec![String::new()];
    }
    let full = if p.starts_with('/') { p.to_string() } else { format!("/{p}") };
    if full.len() > 1 && full.ends_with('/') {
        vec![full.trim_end_matches('/').to_string(), full]
    } else {
        vec![full]
    }
}

/// Reference `matches`: the path equals the prefix or extends it at a '/' boundary.
/// Returns the remainder (path minus exactly the prefix).
fn remainder<'a>(prefix: &str, path: &'a str) -> Option<&'a str> {
    if path == prefix {
        return Some("");
    }
    let rest = path.strip_prefix(prefix)?;
    if rest.starts_with('/') { Some(rest) } else { None }
}

#[derive(Clone, PartialEq, Eq, Debug)]
enum Target {
    None,
    Exact,
    Struct(Vec<String>),
    Registry,
    StructRejected,
    RegistryRejected,
    Confused(String),
}

impl Target {
    fn name(&self) -> &'static str {
        match self {
            Target::None => "none",
            Target::Exact => "exact",
            Target::Struct(_) => "struct",
            Target::Registry => "registry",
            Target::StructRejected => "struct-handler-rejected",
            Target::RegistryRejected => "registry-handler-rejected",
            Target::Confused(_) => "several-handlers",
        }
    }
}

/// what the reference registry answers for a pointer: (ec, body)
type RefAns = (u32, Vec<u8>);

struct World {
    reference: Arc<Registry>,
    cache: HashMap<String, RefAns>,
    paths: Vec<String>,
    backing: Backing,
}

impl World {
    fn new() -> World {
        World { reference: new_registry(), cache: HashMap::new(), paths: request_paths(), backing: Backing::new() }
    }
    fn reference_answer(&mut self, pointer: &str) -> RefAns {
        if let Some(a) = self.cache.get(pointer) {
            return a.clone();
        }
        let a = match self.reference.dispatch(pointer, None) {
            Ok(v) => (0u32, serde_json::to_vec(&v).expect("serialise")),
            Err(e) => (u32::from(e.code()), e.to_string().into_bytes()),
        };
        self.cache.insert(pointer.to_string(), a.clone());
        a
    }
}

struct Config {
    /// position in the canonical enumeration of configurations
    index: u64,
    perm: [Item; 5],
    pr: String,
    ps: String,
    x: String,
}

impl Config {
    fn case(&self) -> Value {
        json!({
            "space": "A2",
            "order": self.perm.iter().map(|i| i.name()).collect::<Vec<_>>(),
            "registry_prefix": self.pr,
            "struct_prefix": self.ps,
            "exact_path": self.x,
        })
    }
    fn describe(&self) -> String {
        format!(
            "router built as [{}] with exact route {:?}, registry at {:?}, struct at {:?}",
            self.perm.iter().map(|i| i.name()).collect::<Vec<_>>().join(", "),
            self.x,
            self.pr,
            self.ps
        )
    }
    fn pos(&self, it: Item) -> usize {
        self.perm.iter().position(|p| *p == it).unwrap()
    }
}

fn run_config(cfg: &Config, w: &mut World, t: &mut Totals, sample: bool) {
    let exact_hits = Arc::new(AtomicU64::new(0));
    let mwlog: Arc<Mutex<Vec<u8>>> = Arc::new(Mutex::new(Vec::new()));
    let rec = Arc::new(Mutex::new(Recorder::default()));
    let mut router = Router::new();
    let mut chain: Vec<u8> = Vec::new();
    for it in cfg.perm {
        router = match it {
            Item::Exact => {
                let hits = Arc::clone(&exact_hits);
                router.with_erased_handler(&cfg.x, Arc::new(ExactRoute(hits)))
            }
            Item::Reg => router.with_registry(&cfg.pr, new_registry()),
            Item::Struct => router.with_struct_shared::<Recorder, Mutex<Recorder>>(&cfg.ps, Arc::clone(&rec)),
            Item::Mw1 => {
                chain.push(1);
                router.with_middleware(Fwd { id: 1, log: Arc::clone(&mwlog) })
            }
            Item::Mw2 => {
                chain.push(2);
                router.with_middleware(Fwd { id: 2, log: Arc::clone(&mwlog) })
            }
        };
    }
    let cr = candidates(&cfg.pr);
    let cs = candidates(&cfg.ps);
    let mut alive_r: u8 = (1u8 << cr.len()) - 1;
    let mut alive_s: u8 = (1u8 << cs.len()) - 1;
    let first_mw = cfg.pos(Item::Mw1).min(cfg.pos(Item::Mw2));
    let last_mw = cfg.pos(Item::Mw1).max(cfg.pos(Item::Mw2));

    let paths = std::mem::take(&mut w.paths);
    for (pi, q) in paths.iter().enumerate() {
        t.states += 1;
        t.order = cfg.index * 1024 + pi as u64;
        let id = 0x0200_0000_0000_0000u64 | pi as u64;
        let case = || {
            let mut c = cfg.case();
            c["failing_path"] = json!(q);
            c
        };
        let Some(h) = router.get(q) else {
            t.transitions += 1;
            t.c.add("outcome:none", 1);
            // ---- nothing may match ------------------------------------------------
            if *q == cfg.x {
                t.fail(
                    "C07:A2:exact-route-not-found".into(),
                    format!("{}: get({q:?}) is None although {q:?} is registered exactly", cfg.describe()),
                    case(),
                );
                continue;
            }
            let nr = mask(&cr, alive_r, |e| remainder(e, q).is_none());
            let ns = mask(&cs, alive_s, |e| remainder(e, q).is_none());
            if nr == 0 {
                t.fail(
                    "C07:A2:matching-path-not-routed:registry".into(),
                    format!("{}: get({q:?}) is None although the registry prefix matches it", cfg.describe()),
                    case(),
                );
            } else {
                alive_r = nr;
            }
            if ns == 0 {
                t.fail(
                    "C07:A2:matching-path-not-routed:struct".into(),
                    format!("{}: get({q:?}) is None although the struct prefix matches it", cfg.describe()),
                    case(),
                );
            } else {
                alive_s = ns;
            }
            if cr.iter().chain(cs.iter()).any(|e| !e.is_empty() && q.starts_with(e.as_str()) && remainder(e, q).is_none()) {
                t.c.add("path_shares_string_prefix_without_boundary_not_routed", 1);
            }
            continue;
        };
        let (req, wire) = match request(id, q, b"", 2) {
            Ok(x) => x,
            Err(e) => {
                t.machinery = Some(e);
                break;
            }
        };
        let mut first: Option<(Target, Resp)> = None;
        for via in [Via::Handle, Via::Ctx, Via::View(0)] {
            mwlog.lock().unwrap().clear();
            rec.lock().unwrap_or_else(|p| p.into_inner()).log.clear();
            let hits0 = exact_hits.load(Ordering::Relaxed);
            let r = invoke(h.as_ref(), &req, &wire, &mut w.backing, via);
            t.transitions += 1;
            let r = match r {
                Ok(r) => r,
                Err(p) => {
                    t.fail(
                        format!("C07:A2:panic:{}", via.family()),
                        format!("{}: {} of {q:?} panicked: {p}", cfg.describe(), via.name()),
                        case(),
                    );
                    continue;
                }
            };
            let hits = exact_hits.load(Ordering::Relaxed) - hits0;
            let log = std::mem::take(&mut rec.lock().unwrap_or_else(|p| p.into_inner()).log);
            let target = if hits + log.len() as u64 > 1 {
                Target::Confused(format!("exact ran {hits}x, struct ran {}x", log.len()))
            } else if hits == 1 {
                Target::Exact
            } else if log.len() == 1 {
                Target::Struct(log.into_iter().next().unwrap())
            } else if r.body().starts_with(b"path is not below struct root") {
                Target::StructRejected
            } else if r.body().starts_with(b"path is not below registry prefix") {
                Target::RegistryRejected
            } else {
                Target::Registry
            };
            // ---- middleware: once each, in registration order, for every route ------
            let ran = mwlog.lock().unwrap().clone();
            if ran != chain {
                let (item, label) = match &target {
                    Target::Exact => (Some(Item::Exact), "exact"),
                    Target::Struct(_) | Target::StructRejected => (Some(Item::Struct), "struct"),
                    Target::Registry | Target::RegistryRejected => (Some(Item::Reg), "registry"),
                    _ => (None, "unknown"),
                };
                let when = match item.map(|i| cfg.pos(i)) {
                    Some(p) if p < first_mw => "route-registered-before-middleware",
                    Some(p) if p > last_mw => "route-registered-after-middleware",
                    Some(_) => "route-registered-between-middlewares",
                    None => "route-unknown",
                };
                t.fail(
                    format!("C07:A2:middleware:{label}:{when}"),
                    format!(
                        "{}: {} of {q:?} reached the {label} handler but middleware ran as {ran:?}, expected {chain:?}",
                        cfg.describe(),
                        via.name()
                    ),
                    case(),
                );
            } else {
                let item = match &target {
                    Target::Struct(_) => Some(Item::Struct),
                    Target::Registry => Some(Item::Reg),
                    _ => None,
                };
                if let Some(p) = item.map(|i| cfg.pos(i)) {
                    if p < first_mw {
                        t.c.add("mount_registered_before_middleware_and_wrapped", 1);
                    } else if p > last_mw {
                        t.c.add("mount_registered_after_middleware_and_wrapped", 1);
                    }
                }
            }
            match &first {
                None => first = Some((target, r)),
                Some((t0, r0)) => {
                    if *t0 != target || r0.wire != r.wire {
                        t.fail(
                            format!("C07:A2:{}-differs-from-handle:{}", via.family(), t0.name()),
                            format!(
                                "{}: {q:?} via handle reached {} -> {}, via {} reached {} -> {}",
                                cfg.describe(),
                                t0.name(),
                                r0.describe(),
                                via.name(),
                                target.name(),
                                r.describe()
                            ),
                            case(),
                        );
                    }
                }
            }
        }
        let Some((target, resp)) = first else { continue };
        t.c.add(&format!("outcome:{}", target.name()), 1);
        let ec = resp.hdr().ec;
        // ---- reference router --------------------------------------------------------
        if *q == cfg.x {
            // an exactly registered path always wins over a mounted prefix
            if target != Target::Exact {
                t.fail(
                    format!("C07:A2:exact-route-shadowed-by:{}", target.name()),
                    format!(
                        "{}: {q:?} is registered exactly but the request reached {} -> {}",
                        cfg.describe(),
                        target.name(),
                        resp.describe()
                    ),
                    case(),
                );
            } else {
                if cr.iter().chain(cs.iter()).any(|e| remainder(e, q).is_some()) {
                    t.c.add("exact_won_over_matching_mount", 1);
                }
                if ec != 0 || resp.body() != br#"{"exact":true}"# {
                    t.fail(
                        "C07:A2:exact-route-wrong-answer".into(),
                        format!("{}: exact route {q:?} answered {}", cfg.describe(), resp.describe()),
                        case(),
                    );
                }
            }
            continue;
        }
        match &target {
            Target::None => unreachable!(),
            Target::Exact => t.fail(
                "C07:A2:exact-handler-got-other-path".into(),
                format!("{}: {q:?} is not the exact path but reached the exact route's handler", cfg.describe()),
                case(),
            ),
            Target::Confused(s) => t.fail(
                "C07:A2:several-handlers-ran".into(),
                format!("{}: one dispatch of {q:?}: {s}", cfg.describe()),
                case(),
            ),
            Target::StructRejected | Target::RegistryRejected => t.fail(
                format!("C07:A2:unmatched-path-routed:{}", target.name()),
                format!(
                    "{}: get({q:?}) selected a mount whose own handler says the path is not below it: {}",
                    cfg.describe(),
                    resp.describe()
                ),
                case(),
            ),
            Target::Struct(segs) => {
                let matching = mask(&cs, alive_s, |e| remainder(e, q).is_some());
                let good = mask(&cs, matching, |e| {
                    remainder(e, q).and_then(rfc6901).is_some_and(|exp| exp == *segs)
                });
                if matching == 0 {
                    t.fail(
                        "C07:A2:unmatched-path-routed:struct".into(),
                        format!(
                            "{}: {q:?} neither equals the struct prefix nor extends it at a '/' boundary, yet the struct received segments {segs:?}",
                            cfg.describe()
                        ),
                        case(),
                    );
                } else if good == 0 {
                    let exp: Vec<_> = cs.iter().filter_map(|e| remainder(e, q).and_then(rfc6901)).collect();
                    t.fail(
                        "C07:A2:struct:wrong-remainder".into(),
                        format!("{}: {q:?} handed segments {segs:?} to the struct, expected {exp:?}", cfg.describe()),
                        case(),
                    );
                } else {
                    if good != alive_s {
                        t.c.add("trailing_slash_prefix_disambiguated", 1);
                    }
                    alive_s = good;
                    let want = serde_json::to_vec(&json!(segs)).unwrap();
                    if ec != 0 || resp.body() != want.as_slice() {
                        t.fail(
                            "C07:A2:struct:wrong-answer".into(),
                            format!("{}: {q:?}: struct returned its segments {segs:?} but the response is {}", cfg.describe(), resp.describe()),
                            case(),
                        );
                    }
                    if mask(&cr, alive_r, |e| remainder(e, q).is_some()) != 0 {
                        t.c.add("both_mounts_matched_precedence_unchecked", 1);
                    }
                    if cs.iter().any(|e| e == q) {
                        t.c.add("path_equal_to_prefix_routed", 1);
                    }
                }
            }
            Target::Registry => {
                let matching = mask(&cr, alive_r, |e| remainder(e, q).is_some());
                let mut good = 0u8;
                let mut expected = Vec::new();
                for (i, e) in cr.iter().enumerate() {
                    if matching & (1 << i) == 0 {
                        continue;
                    }
                    let rel = remainder(e, q).unwrap();
                    let (rec, rbody) = w.reference_answer(rel);
                    if rec == ec && rbody.as_slice() == resp.body() {
                        good |= 1 << i;
                    }
                    expected.push(format!("pointer {rel:?} -> (ec={rec} body={})", show_bytes(&rbody, 60)));
                }
                if matching == 0 {
                    t.fail(
                        "C07:A2:unmatched-path-routed:registry".into(),
                        format!(
                            "{}: {q:?} neither equals the registry prefix nor extends it at a '/' boundary, yet the registry answered {}",
                            cfg.describe(),
                            resp.describe()
                        ),
                        case(),
                    );
                } else if good == 0 {
                    t.fail(
                        "C07:A2:registry:wrong-remainder".into(),
                        format!(
                            "{}: {q:?}: the mounted registry answered {} but Registry::dispatch of the path minus the prefix gives {}",
                            cfg.describe(),
                            resp.describe(),
                            expected.join(" | ")
                        ),
                        case(),
                    );
                } else {
                    if good != alive_r {
                        t.c.add("trailing_slash_prefix_disambiguated", 1);
                    }
                    alive_r = good;
                    if mask(&cs, alive_s, |e| remainder(e, q).is_some()) != 0 {
                        t.c.add("both_mounts_matched_precedence_unchecked", 1);
                    }
                    if cr.iter().any(|e| e == q) {
                        t.c.add("path_equal_to_prefix_routed", 1);
                    }
                    if ec != 0 {
                        t.c.add("registry_answered_error_for_remainder", 1);
                    }
                }
            }
        }
        if sample && (q == "/a/b" || q == "/ab" || q == "/a") {
            t.samples.push(json!({"space": "A2", "config": cfg.case(), "path": q, "reached": target.name(), "response": resp.describe()}));
        }
    }
    // how a trailing-'/' prefix turned out to be interpreted (informational)
    for (label, c, alive) in [("registry", &cr, alive_r), ("struct", &cs, alive_s)] {
        if c.len() == 2 {
            match alive {
                1 => t.c.add(&format!("trailing_slash_prefix:{label}:behaves-as-trimmed"), 1),
                2 => t.c.add(&format!("trailing_slash_prefix:{label}:behaves-as-literal"), 1),
                _ => t.c.add(&format!("trailing_slash_prefix:{label}:undetermined"), 1),
            }
        }
    }
    w.paths = paths;
}

fn mask(c: &[String], alive: u8, f: impl Fn(&str) -> bool) -> u8 {
    let mut m = 0u8;
    for (i, e) in c.iter().enumerate() {
        if alive & (1 << i) != 0 && f(e) {
            m |= 1 << i;
        }
    }
    m
}

pub(crate) fn bound(tier: Tier) -> Value {
    json!({
        "registration_orders": permutations().len(),
        "mount_prefixes": prefixes(tier),
        "exact_paths": exact_paths(tier),
        "request_paths": request_paths().len(),
        "request_paths_rule": "all strings of <= 3 segments over {a,b,ab,\"\"} (each preceded by '/') plus /ab /a/bc /a/b/ /a//b /a~1b /a/b~0 /abc /a/b~0/a /a~1b/b /b/a/ab/a",
        "dispatch_paths": ["handle", "handle_with_ctx", "handle_view"],
    })
}

pub(crate) fn sweep(tier: Tier) -> Totals {
    let perms = permutations();
    let pre = prefixes(tier);
    let xs = exact_paths(tier);
    let n = (perms.len() * pre.len() * pre.len() * xs.len()) as u64;
    let parts = par::for_each_index(
        n,
        16,
        |_| (Totals::default(), World::new()),
        |st: &mut (Totals, World), i| {
            if st.0.machinery.is_some() {
                return;
            }
            let index = i;
            let mut i = i as usize;
            let x = xs[i % xs.len()];
            i /= xs.len();
            let ps = pre[i % pre.len()];
            i /= pre.len();
            let pr = pre[i % pre.len()];
            i /= pre.len();
            let cfg = Config { index, perm: perms[i], pr: pr.to_string(), ps: ps.to_string(), x: x.to_string() };
            st.0.c.add("configurations", 1);
            let sample = cfg.pr == "/a" && cfg.ps == "/a/b" && cfg.x == "/a" && i == 77;
            run_config(&cfg, &mut st.1, &mut st.0, sample);
        },
    );
    let mut total = Totals::default();
    for (p, _) in parts {
        total.merge(p);
    }
    total.expected_states = n * request_paths().len() as u64;
    total
}

pub(crate) fn replay(case: &Value, t: &mut Totals) -> Result<(), String> {
    let order = case["order"].as_array().ok_or("order")?;
    let mut perm = [Item::Exact; 5];
    if order.len() != 5 {
        return Err("order must have 5 items".into());
    }
    for (i, o) in order.iter().enumerate() {
        perm[i] = *ITEMS.iter().find(|it| Some(it.name()) == o.as_str()).ok_or("order item")?;
    }
    let cfg = Config {
        index: 0,
        perm,
        pr: case["registry_prefix"].as_str().ok_or("registry_prefix")?.to_string(),
        ps: case["struct_prefix"].as_str().ok_or("struct_prefix")?.to_string(),
        x: case["exact_path"].as_str().ok_or("exact_path")?.to_string(),
    };
    let mut w = World::new();
    run_config(&cfg, &mut w, t, false);
    Ok(())
}
