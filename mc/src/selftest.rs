//! `mc SELFTEST quick`: smoke test of the in-memory transports (worked example
//! for memstream / wsh / the repe_verif transport seam). Not a property check.

use crate::frames::{Frame, parse_one, split_stream};
use crate::memstream;
use crate::wsh::{self, Got, Serve};
use repe::{Router, WebSocketServer};
use serde_json::json;
use std::time::Duration;

pub fn run() -> ! {
    // ---- WebSocket server over memstream, paused current-thread runtime
    memstream::run_paused(async {
        let router = Router::new().with_json("/echo", |v: serde_json::Value| Ok(json!({"got": v})));
        let shared = WebSocketServer::new(router).into_shared();
        let mut c = wsh::connect(&shared, Serve::Plain, None).await;
        c.send_frame(&Frame::request(7, "/echo", br#"{"a":1}"#, 2, false)).await.unwrap();
        match c.next(Duration::from_secs(3600)).await {
            Got::Frame(f) => {
                assert_eq!(f.h.id, 7);
                assert_eq!(f.query, b"/echo");
                assert_eq!(f.body, br#"{"got":{"a":1}}"#);
            }
            other => panic!("unexpected {other:?}"),
        }
        // unknown path -> error response with the same id
        c.send_frame(&Frame::request(8, "/nope", b"", 2, false)).await.unwrap();
        match c.next(Duration::from_secs(3600)).await {
            Got::Frame(f) => assert!(f.h.id == 8 && f.h.ec != 0),
            other => panic!("unexpected {other:?}"),
        }
        drop(c.client);
        let r = tokio::time::timeout(Duration::from_secs(3600), c.server).await;
        assert!(r.is_ok(), "server task did not end after the client went away");
    });
    // ---- AsyncServer through the verif listener seam
    memstream::run_paused(async {
        let router = Router::new().with_json("/echo", |v: serde_json::Value| Ok(v));
        let tx = repe::verif_io::register_listener(1);
        let listener = repe::AsyncServer::listen(("127.254.77.1", 1)).await.unwrap();
        let srv = tokio::spawn(repe::AsyncServer::new(router).serve(listener));
        let (server_end, _client_end, ctl) = memstream::pair();
        tx.send(Box::new(server_end)).ok();
        ctl.b_to_a.push(&Frame::request(1, "/echo", b"[1,2]", 2, false).to_bytes());
        ctl.b_to_a.push(&Frame::request(2, "/echo", b"3", 2, true).to_bytes());
        ctl.b_to_a.push(&Frame::request(3, "/echo", b"4", 2, false).to_bytes());
        memstream::settle().await;
        let out = ctl.a_to_b.take();
        let (frames, rest) = split_stream(&out).unwrap();
        assert_eq!(rest, 0);
        assert_eq!(frames.iter().map(|f| f.h.id).collect::<Vec<_>>(), vec![1, 3]);
        assert_eq!(frames[0].body, b"[1,2]");
        srv.abort();
    });
    // ---- AsyncClient through the verif stream seam
    memstream::run_paused(async {
        let (client_end, _server_end, ctl) = memstream::pair();
        repe::verif_io::register_stream(2, client_end);
        let client = repe::AsyncClient::connect(("127.254.77.1", 2)).await.unwrap();
        let c2 = client.clone();
        let call = tokio::spawn(async move { c2.call_json("/x", &json!(5)).await });
        memstream::settle().await;
        let req = ctl.a_to_b.take();
        let (f, n) = parse_one(&req).unwrap().unwrap();
        assert_eq!(n, req.len());
        assert_eq!(client.verif_pending_len(), 1);
        let mut resp = Frame::request(f.h.id, "/x", b"6", 2, false);
        resp.h.notify = 0;
        ctl.b_to_a.push(&resp.to_bytes());
        let v = call.await.unwrap().unwrap();
        assert_eq!(v, json!(6));
        assert_eq!(client.verif_pending_len(), 0);
        // connection dies: later call must error, not hang
        ctl.b_to_a.close();
        memstream::settle().await;
        let r = tokio::time::timeout(Duration::from_secs(3600), client.call_json("/x", &json!(1))).await;
        assert!(matches!(r, Ok(Err(_))), "call on a dead connection: {r:?}");
    });
    println!("SELFTEST ok");
    std::process::exit(0)
}
