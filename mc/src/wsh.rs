//! WebSocket harness helpers: an in-memory connection to a real
//! `SharedWebSocketServer` (served through `adopt_upgraded` + a `serve_connection*`
//! variant over `memstream`), with a raw tungstenite client as the peer.
#![allow(dead_code)]

use crate::frames::{self, Frame};
use crate::memstream::{self, Ctl, End};
use futures_util::{SinkExt, StreamExt};
use repe::RepeError;
use repe::websocket_server::{HandshakeContext, SharedWebSocketServer, ShutdownToken};
use std::time::Duration;
use tokio::task::JoinHandle;
use tokio_tungstenite::WebSocketStream;
use tokio_tungstenite::tungstenite::Message as WsMessage;
use tokio_tungstenite::tungstenite::protocol::{Role, WebSocketConfig};

pub enum Serve {
    Plain,
    WithHandshake(HandshakeContext),
    WithCancel(ShutdownToken),
    WithCancelAndHandshake(ShutdownToken, HandshakeContext),
}

pub struct WsConn {
    pub client: WebSocketStream<End>,
    /// a_to_b = bytes the server wrote; b_to_a = bytes the client wrote
    pub ctl: Ctl,
    pub server: JoinHandle<Result<(), RepeError>>,
}

#[derive(Debug, Clone, PartialEq)]
pub enum Got {
    Frame(Frame),
    /// binary message that is not exactly one well-formed REPE frame
    BadBinary(Vec<u8>),
    Text(String),
    Close,
    /// stream ended / transport error
    End(String),
    /// nothing arrived within the (virtual) waiting time
    Nothing,
}

/// Open an in-memory connection served by `shared`. The client side applies
/// `client_cfg` (None = tungstenite defaults) to its own inbound limits.
pub async fn connect(shared: &SharedWebSocketServer, serve: Serve, client_cfg: Option<WebSocketConfig>) -> WsConn {
    let (server_end, client_end, ctl) = memstream::pair();
    let ws = shared.adopt_upgraded(server_end).await;
    let sh = shared.clone();
    let server = tokio::spawn(async move {
        match serve {
            Serve::Plain => sh.serve_connection(ws).await,
            Serve::WithHandshake(h) => sh.serve_connection_with_handshake(ws, h).await,
            Serve::WithCancel(t) => sh.serve_connection_with_cancel(ws, &t).await,
            Serve::WithCancelAndHandshake(t, h) => sh.serve_connection_with_cancel_and_handshake(ws, h, &t).await,
        }
    });
    let client = WebSocketStream::from_raw_socket(client_end, Role::Client, client_cfg).await;
    WsConn { client, ctl, server }
}

impl WsConn {
    pub async fn send_frame(&mut self, f: &Frame) -> Result<(), String> {
        self.client.send(WsMessage::Binary(f.to_bytes())).await.map_err(|e| e.to_string())
    }
    pub async fn send_raw(&mut self, m: WsMessage) -> Result<(), String> {
        self.client.send(m).await.map_err(|e| e.to_string())
    }
    /// Next message, waiting at most `wait` of (possibly virtual) time.
    pub async fn next(&mut self, wait: Duration) -> Got {
        loop {
            match tokio::time::timeout(wait, self.client.next()).await {
                Err(_) => return Got::Nothing,
                Ok(None) => return Got::End("stream ended".into()),
                Ok(Some(Err(e))) => return Got::End(e.to_string()),
                Ok(Some(Ok(WsMessage::Binary(b)))) => {
                    return match frames::parse_one(&b) {
                        Ok(Some((f, n))) if n == b.len() => Got::Frame(f),
                        _ => Got::BadBinary(b),
                    };
                }
                Ok(Some(Ok(WsMessage::Text(t)))) => return Got::Text(t),
                Ok(Some(Ok(WsMessage::Close(_)))) => return Got::Close,
                Ok(Some(Ok(_))) => continue, // ping/pong
            }
        }
    }
    /// Collect messages until `n` arrived or nothing more arrives within `wait`.
    pub async fn collect(&mut self, n: usize, wait: Duration) -> Vec<Got> {
        let mut out = Vec::new();
        while out.len() < n {
            match self.next(wait).await {
                Got::Nothing => break,
                g @ (Got::End(_) | Got::Close) => {
                    out.push(g);
                    break;
                }
                g => out.push(g),
            }
        }
        out
    }
}

/// Multi-thread-safe gate a parked handler waits on; the harness opens it.
/// (Handlers run on blocking threads, so this uses std primitives.)
#[derive(Clone, Default)]
pub struct Gate {
    inner: std::sync::Arc<(std::sync::Mutex<GateState>, std::sync::Condvar)>,
}

#[derive(Default)]
struct GateState {
    open: bool,
    waiting: usize,
    passed: usize,
}

impl Gate {
    pub fn new() -> Self {
        Self::default()
    }
    /// Block until opened (with a generous real-time watchdog so a harness bug
    /// cannot hang the process: returns false on watchdog expiry).
    pub fn wait(&self) -> bool {
        let (m, cv) = &*self.inner;
        let mut g = m.lock().unwrap();
        g.waiting += 1;
        cv.notify_all();
        let deadline = std::time::Instant::now() + Duration::from_secs(20);
        while !g.open {
            let now = std::time::Instant::now();
            if now >= deadline {
                g.waiting -= 1;
                return false;
            }
            g = cv.wait_timeout(g, deadline - now).unwrap().0;
        }
        g.waiting -= 1;
        g.passed += 1;
        true
    }
    pub fn open(&self) {
        let (m, cv) = &*self.inner;
        m.lock().unwrap().open = true;
        cv.notify_all();
    }
    pub fn waiting(&self) -> usize {
        self.inner.0.lock().unwrap().waiting
    }
    pub fn passed(&self) -> usize {
        self.inner.0.lock().unwrap().passed
    }
    /// Wait (real time, bounded) until `n` threads are parked on the gate.
    pub fn await_waiting(&self, n: usize) -> bool {
        let (m, cv) = &*self.inner;
        let mut g = m.lock().unwrap();
        let deadline = std::time::Instant::now() + Duration::from_secs(20);
        while g.waiting < n {
            let now = std::time::Instant::now();
            if now >= deadline {
                return false;
            }
            g = cv.wait_timeout(g, deadline - now).unwrap().0;
        }
        true
    }
}
