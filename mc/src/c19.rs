//! C19 — fleet calls retry only transport failures, boundedly, and recover
//! afterwards (E3, fault sequences against the real `Fleet` / `AsyncFleet`).
//!
//! A scenario = (fleet flavour, call API, max_attempts, script). The script is a
//! sequence over the seven per-attempt outcomes of the property; a fake node
//! (`c19_node.rs`) presents them to the fleet one per attempt, in order, and
//! records every attempt with the call it belongs to. The harness issues calls
//! one at a time until the script is used up, then two more calls against the
//! now healthy node. Every sequence of length <= max_attempts+2 is run.
//!
//! The oracle is the property text, clause by clause (inequalities, not a copy
//! of the retry loop):
//!   O1  attempts observed in one call <= max_attempts
//!   O2  an attempt that is not the first of its call follows a transport-level
//!       failure (or a malformed reply, which the property does not classify),
//!       never a reply (success or application error)
//!   O3  the call reports the reply if one was received, otherwise a transport
//!       error, namely the one of its last attempt
//!   O4  once the script is exhausted and the node answers normally, a later
//!       call succeeds (the node is not wedged)
//!   O5  a broadcast returns exactly one result per node whose tags include all
//!       requested tags and contacts no other node
//! Agreement with the exact loop (attempts == min(first non-retryable, max)) is
//! only counted.
//!
//! Two further families of scenarios widen the driver, with the same clauses:
//!   * `c19_maint.rs` (axis A): how the cached connection came to be and what
//!     happened to it before the judged calls -- prefixes made of earlier calls,
//!     connect_all, health_check, reconnect_disconnected, disconnect_all, the node
//!     dead meanwhile -- and one such maintenance call between the last scripted
//!     outcome and the healthy calls. O1..O4 on every fleet call; the maintenance
//!     calls themselves only have to return.
//!   * `c19_dyn.rs` (axis B): O5 while the node set changes (add_node /
//!     remove_node sequences), for broadcast_json and map_reduce_json, with
//!     filter_nodes as a differential oracle, nodes up / dead / behind a
//!     half-open cached client.
//!
//! Timing discipline. Every step waits for a predicted positive event (connect
//! call, whole request readable, EOF, call returned) under a 10 s watchdog. The
//! one real-time element is the fleet's own node timeout (150 ms) which a
//! silent attempt has to run into. Verdicts use counts and results only. A run
//! in which something that never waits took about a node timeout (or a request
//! surfaced after its call had returned) was disturbed by the machine and is
//! repeated; a violation is reported only if it reproduces from its recorded
//! case in the re-runs (`settle`), so neither a scheduling hiccup nor a one-off
//! watchdog expiry can become a verdict.

#[path = "c19_node.rs"]
mod node;
#[path = "c19_maint.rs"]
mod maint;
#[path = "c19_dyn.rs"]
mod dynset;

use crate::ctx::{Ctx, Samples, Tier};
use node::{ALPHABET, Attempt, FakeNode, Garbage, Out, Realized, Watch};
use repe::{AsyncFleet, Fleet, FleetOptions, NodeConfig, RemoteResult, RepeError, RetryPolicy};
use serde_json::{Value, json};
use std::collections::{BTreeMap, BTreeSet};
use std::sync::atomic::{AtomicU64, Ordering};
use std::time::{Duration, Instant};

const NODE_TIMEOUT: Duration = Duration::from_millis(150);
const RETRY_DELAY: Duration = Duration::from_millis(1);
const HEALTHY_CALLS: usize = 2;
/// A call that overran by about a node timeout or more is taken for a
/// scheduling hiccup and its scenario is repeated this many times at most (a
/// call that never returns is not a hiccup: it is judged, and must reproduce).
const DISTURBED_RETRIES: usize = 5;
const TAGS: [&str; 2] = ["a", "b"];
const TAG_NODES: usize = 4;
const TAG_MAX_ATTEMPTS: usize = 2;
const TAG_NODE_TIMEOUT: Duration = Duration::from_secs(3);

#[derive(Clone, Copy, PartialEq, Eq, Debug, PartialOrd, Ord)]
enum Kind {
    Blocking,
    Async,
}

impl Kind {
    fn name(self) -> &'static str {
        match self {
            Kind::Blocking => "fleet",
            Kind::Async => "async",
        }
    }
    fn parse(s: &str) -> Option<Kind> {
        match s {
            "fleet" => Some(Kind::Blocking),
            "async" => Some(Kind::Async),
            _ => None,
        }
    }
}

#[derive(Clone, Copy, PartialEq, Eq, Debug, PartialOrd, Ord)]
enum Api {
    Json,
    Message,
    /// `call_json` with `params = None` (the retry loops send an empty-body request through `call_message_with_timeout`)
    JsonNoParams,
}

impl Api {
    fn name(self) -> &'static str {
        match self {
            Api::Json => "call_json",
            Api::Message => "call_message",
            Api::JsonNoParams => "call_json(None)",
        }
    }
    fn parse(s: &str) -> Option<Api> {
        match s {
            "call_json" => Some(Api::Json),
            "call_message" => Some(Api::Message),
            "call_json(None)" => Some(Api::JsonNoParams),
            _ => None,
        }
    }
}

// ---------------------------------------------------------------------------
// normalised call results

#[derive(Clone, Debug, PartialEq)]
enum Res {
    Ok(Value),
    Server { code: u32, msg: String },
    Io { kind: String, msg: String },
    Other { msg: String },
    Missing,
    FleetErr(String),
    Panic(String),
    Hang,
}

impl Res {
    fn class(&self) -> String {
        match self {
            Res::Ok(_) => "Ok".into(),
            Res::Server { code, .. } => format!("ServerError({code})"),
            Res::Io { kind, .. } => format!("Io({kind})"),
            Res::Other { msg } => format!("Other({})", msg.split(':').next().unwrap_or("")),
            Res::Missing => "Missing".into(),
            Res::FleetErr(_) => "FleetError".into(),
            Res::Panic(_) => "Panic".into(),
            Res::Hang => "Hang".into(),
        }
    }
    fn show(&self) -> String {
        match self {
            Res::Ok(v) => format!("Ok({v})"),
            Res::Server { code, msg } => format!("ServerError({code}, {msg:?})"),
            Res::Io { kind, msg } => format!("Io({kind}, {msg:?})"),
            Res::Other { msg } => format!("Err({msg:?})"),
            Res::Missing => "no value and no error".into(),
            Res::FleetErr(e) => format!("FleetError({e})"),
            Res::Panic(p) => format!("PANIC({p})"),
            Res::Hang => "no return within the watchdog (100 beats of 100 ms)".into(),
        }
    }
    fn is_io(&self) -> bool {
        matches!(self, Res::Io { .. })
    }
    fn is_err(&self) -> bool {
        matches!(self, Res::Server { .. } | Res::Io { .. } | Res::Other { .. })
    }
}

fn norm_err(e: RepeError) -> Res {
    match e {
        RepeError::Io(io) => Res::Io { kind: format!("{:?}", io.kind()), msg: io.to_string() },
        RepeError::ServerError { code, message } => Res::Server { code: u32::from(code), msg: message },
        other => Res::Other { msg: other.to_string() },
    }
}

fn norm_value(r: RemoteResult<Value>) -> Res {
    match (r.value, r.error) {
        (Some(v), None) => Res::Ok(v),
        (_, Some(e)) => norm_err(e),
        (None, None) => Res::Missing,
    }
}

fn norm_message(r: RemoteResult<repe::Message>) -> Res {
    match (r.value, r.error) {
        (Some(m), None) => match serde_json::from_slice::<Value>(&m.body) {
            Ok(v) => Res::Ok(v),
            Err(e) => Res::Other { msg: format!("reply body is not the JSON the node sent: {e}") },
        },
        (_, Some(e)) => norm_err(e),
        (None, None) => Res::Missing,
    }
}

fn panic_text(p: Box<dyn std::any::Any + Send>) -> String {
    p.downcast_ref::<&str>()
        .map(|s| s.to_string())
        .or_else(|| p.downcast_ref::<String>().cloned())
        .unwrap_or_else(|| "panic".into())
}

// ---------------------------------------------------------------------------
// watchdog (beats of this process, see c19_node.rs)

fn wait_result<T>(rx: &std::sync::mpsc::Receiver<T>) -> Option<T> {
    let w = Watch::start();
    loop {
        match rx.recv_timeout(Watch::SLICE) {
            Ok(v) => return Some(v),
            Err(std::sync::mpsc::RecvTimeoutError::Timeout) if !w.expired() => {}
            Err(_) => return None,
        }
    }
}

async fn watched<F: std::future::Future>(fut: F) -> Option<F::Output> {
    let w = Watch::start();
    tokio::pin!(fut);
    loop {
        match tokio::time::timeout(Watch::SLICE, &mut fut).await {
            Ok(v) => return Some(v),
            Err(_) if !w.expired() => {}
            Err(_) => return None,
        }
    }
}

// ---------------------------------------------------------------------------
// the two fleets behind one driver

enum Driver {
    B(Fleet),
    A { fleet: AsyncFleet, rt: Option<tokio::runtime::Runtime> },
}

/// The call number travels in the path so that the node can tell a request
/// that surfaces after its call has already returned.
fn path(call: u64) -> String {
    format!("/c19/op/{call}")
}

impl Driver {
    fn new(kind: Kind, configs: Vec<NodeConfig>, max: usize) -> Result<Driver, String> {
        let opts = FleetOptions {
            default_timeout: Duration::from_secs(5),
            retry_policy: RetryPolicy { max_attempts: max, delay: RETRY_DELAY },
        };
        match kind {
            Kind::Blocking => Fleet::with_options(configs, opts).map(Driver::B).map_err(|e| e.to_string()),
            Kind::Async => {
                let rt = tokio::runtime::Builder::new_multi_thread()
                    .worker_threads(1)
                    .thread_stack_size(512 * 1024)
                    .enable_all()
                    .build()
                    .map_err(|e| format!("tokio runtime: {e}"))?;
                let fleet = AsyncFleet::with_options(configs, opts).map_err(|e| e.to_string())?;
                Ok(Driver::A { fleet, rt: Some(rt) })
            }
        }
    }

    fn call(&self, node_name: &str, api: Api, call: u64) -> Res {
        let params = json!({"call": call});
        let path = path(call);
        let path = path.as_str();
        match self {
            Driver::B(f) => {
                let f = f.clone();
                let name = node_name.to_string();
                let path = path.to_string();
                let (tx, rx) = std::sync::mpsc::channel();
                let spawned = std::thread::Builder::new()
                    .name("c19-call".into())
                    .stack_size(512 * 1024)
                    .spawn(move || {
                        let r = std::panic::catch_unwind(std::panic::AssertUnwindSafe(|| match api {
                            Api::Json => match f.call_json(&name, &path, Some(&params)) {
                                Ok(r) => norm_value(r),
                                Err(e) => Res::FleetErr(e.to_string()),
                            },
                            Api::JsonNoParams => match f.call_json(&name, &path, None) {
                                Ok(r) => norm_value(r),
                                Err(e) => Res::FleetErr(e.to_string()),
                            },
                            Api::Message => match f.call_message(&name, &path) {
                                Ok(r) => norm_message(r),
                                Err(e) => Res::FleetErr(e.to_string()),
                            },
                        }));
                        let _ = tx.send(r.unwrap_or_else(|p| Res::Panic(panic_text(p))));
                    });
                if spawned.is_err() {
                    return Res::Panic("could not spawn the call thread".into());
                }
                wait_result(&rx).unwrap_or(Res::Hang)
            }
            Driver::A { fleet, rt } => {
                let rt = rt.as_ref().unwrap();
                let r = std::panic::catch_unwind(std::panic::AssertUnwindSafe(|| {
                    rt.block_on(async {
                        let fut = async {
                            match api {
                                Api::Json => match fleet.call_json(node_name, path, Some(&params)).await {
                                    Ok(r) => norm_value(r),
                                    Err(e) => Res::FleetErr(e.to_string()),
                                },
                                Api::JsonNoParams => match fleet.call_json(node_name, path, None).await {
                                    Ok(r) => norm_value(r),
                                    Err(e) => Res::FleetErr(e.to_string()),
                                },
                                Api::Message => match fleet.call_message(node_name, path).await {
                                    Ok(r) => norm_message(r),
                                    Err(e) => Res::FleetErr(e.to_string()),
                                },
                            }
                        };
                        watched(fut).await.unwrap_or(Res::Hang)
                    })
                }));
                r.unwrap_or_else(|p| Res::Panic(panic_text(p)))
            }
        }
    }

    fn broadcast(&self, tags: &[&str], call: u64) -> Result<BTreeMap<String, Res>, Res> {
        let params = json!({"call": call});
        let path = path(call);
        let path = path.as_str();
        match self {
            Driver::B(f) => {
                let f = f.clone();
                let tags: Vec<String> = tags.iter().map(|s| s.to_string()).collect();
                let path = path.to_string();
                let (tx, rx) = std::sync::mpsc::channel();
                let spawned = std::thread::Builder::new()
                    .name("c19-bcast".into())
                    .stack_size(512 * 1024)
                    .spawn(move || {
                        let r = std::panic::catch_unwind(std::panic::AssertUnwindSafe(|| {
                            f.broadcast_json(&path, Some(&params), &tags)
                                .into_iter()
                                .map(|(k, v)| (k, norm_value(v)))
                                .collect::<BTreeMap<_, _>>()
                        }));
                        let _ = tx.send(r.map_err(|p| Res::Panic(panic_text(p))));
                    });
                if spawned.is_err() {
                    return Err(Res::Panic("could not spawn the broadcast thread".into()));
                }
                wait_result(&rx).unwrap_or(Err(Res::Hang))
            }
            Driver::A { fleet, rt } => {
                let rt = rt.as_ref().unwrap();
                let r = std::panic::catch_unwind(std::panic::AssertUnwindSafe(|| {
                    rt.block_on(async {
                        let fut = async {
                            fleet
                                .broadcast_json(path, Some(&params), tags)
                                .await
                                .into_iter()
                                .map(|(k, v)| (k, norm_value(v)))
                                .collect::<BTreeMap<_, _>>()
                        };
                        watched(fut).await.ok_or(Res::Hang)
                    })
                }));
                r.unwrap_or_else(|p| Err(Res::Panic(panic_text(p))))
            }
        }
    }

    fn is_connected(&self, node_name: &str) -> Option<bool> {
        match self {
            Driver::B(f) => f.is_connected(node_name).ok(),
            Driver::A { fleet, rt } => rt.as_ref().unwrap().block_on(fleet.is_connected(node_name)).ok(),
        }
    }
}

impl Drop for Driver {
    fn drop(&mut self) {
        if let Driver::A { rt, .. } = self {
            if let Some(rt) = rt.take() {
                rt.shutdown_background();
            }
        }
    }
}

// ---------------------------------------------------------------------------
// single-node scenarios

#[derive(Clone, Debug, PartialEq)]
struct Scenario {
    kind: Kind,
    api: Api,
    max: usize,
    garbage: Garbage,
    /// error code of scripted application-error replies (0: the node alternates 4096 / 6)
    err_code: u32,
    script: Vec<Out>,
}

fn letters(s: &[Out]) -> String {
    s.iter().map(|o| o.letter()).collect::<Vec<_>>().join("")
}

impl Scenario {
    fn to_json(&self) -> Value {
        json!({
            "shape": "single",
            "fleet": self.kind.name(),
            "api": self.api.name(),
            "max_attempts": self.max,
            "malformed": self.garbage.name(),
            "error_code": self.err_code,
            "script": self.script.iter().map(|o| o.letter()).collect::<Vec<_>>(),
            "legend": "R refused, A accepted-then-closed, I closed-while-idle (answered, then closed idle), T silent-until-timeout, M malformed reply, E application error, S success",
        })
    }
    fn from_json(v: &Value) -> Option<Scenario> {
        let script = v["script"]
            .as_array()?
            .iter()
            .map(|x| x.as_str().and_then(Out::from_letter))
            .collect::<Option<Vec<_>>>()?;
        Some(Scenario {
            kind: Kind::parse(v["fleet"].as_str()?)?,
            api: Api::parse(v["api"].as_str()?)?,
            max: v["max_attempts"].as_u64()? as usize,
            garbage: Garbage::parse(v["malformed"].as_str()?)?,
            err_code: v["error_code"].as_u64().unwrap_or(0) as u32,
            script,
        })
    }
    fn label(&self) -> String {
        format!(
            "{} {} max_attempts={} script=[{}]{}",
            self.kind.name(),
            self.api.name(),
            self.max,
            letters(&self.script),
            if self.script.contains(&Out::Malformed) { format!(" malformed={}", self.garbage.name()) } else { String::new() }
        ) + &(if self.err_code != 0 { format!(" error_code={}", self.err_code) } else { String::new() })
    }
}

#[derive(Clone, Debug)]
struct CallObs {
    healthy_phase: bool,
    /// a connection of this node was killed since the previous call began, so a
    /// fleet that still holds its client may fail once without reaching the node
    excused: bool,
    remaining_at_start: Vec<Out>,
    last_failure_before: Option<Out>,
    attempts: Vec<Attempt>,
    res: Res,
    connected_after: Option<bool>,
    elapsed: Duration,
    /// connect(2) calls to the node during this call (None: not recorded)
    new_connects: Option<u64>,
}

#[derive(Clone, Debug)]
struct ScenObs {
    calls: Vec<CallObs>,
    /// the script phase was abandoned: a call reached nothing and had no excuse
    stalled: bool,
    dropped_outcomes: usize,
    expected_replies: BTreeMap<u64, Value>,
    expected_errors: BTreeMap<u64, String>,
    /// the run was disturbed by the machine (something that never waits took
    /// about a node timeout): it is repeated, never judged on its timing
    disturbed: Option<String>,
    /// maintenance calls made in between (prefixed scenarios), each with the
    /// number of fleet calls that came before it
    maint: Vec<maint::MaintObs>,
    /// how many of `calls` belong to the prefix
    prefix_calls: usize,
    prefix_outcomes_unused: usize,
}

impl ScenObs {
    fn empty() -> ScenObs {
        ScenObs {
            calls: Vec::new(),
            stalled: false,
            dropped_outcomes: 0,
            expected_replies: BTreeMap::new(),
            expected_errors: BTreeMap::new(),
            disturbed: None,
            maint: Vec::new(),
            prefix_calls: 0,
            prefix_outcomes_unused: 0,
        }
    }
}

/// A call that overran by about a node timeout beyond its silent attempts: the
/// machine disturbed the run (the only thing in a call that waits is a silent attempt).
fn mark_slow_calls(obs: &mut ScenObs) {
    for (i, c) in obs.calls.iter().enumerate() {
        let silent = c.attempts.iter().filter(|a| a.realized == Realized::Silent).count() as u32;
        let excess = c.elapsed.saturating_sub(NODE_TIMEOUT * silent);
        if excess >= NODE_TIMEOUT * 4 / 5 && !matches!(c.res, Res::Hang) {
            obs.disturbed = Some(format!(
                "call #{} took {} ms with {silent} silent attempt(s)",
                i + 1,
                c.elapsed.as_millis()
            ));
            break;
        }
    }
}

fn run_single(sc: &Scenario) -> Result<ScenObs, String> {
    let node = FakeNode::start("n0", sc.script.clone(), sc.garbage, sc.err_code)?;
    let cfg = NodeConfig::new("127.0.0.1", node.port())
        .and_then(|c| c.with_name("n0"))
        .and_then(|c| c.with_timeout(NODE_TIMEOUT))
        .map_err(|e| e.to_string())?;
    let driver = Driver::new(sc.kind, vec![cfg], sc.max)?;
    let mut obs = ScenObs::empty();
    let cap = 2 * sc.script.len() + 2;
    let mut call_no: u64 = 0;
    let mut abort = false;

    let one_call = |healthy: bool, obs: &mut ScenObs, call_no: &mut u64| -> Result<bool, String> {
        *call_no += 1;
        let start = node.begin_call(*call_no)?;
        let connects0 = node.connects_seen();
        let t_call = Instant::now();
        let res = driver.call("n0", sc.api, *call_no);
        let elapsed = t_call.elapsed();
        let hung = matches!(res, Res::Hang);
        if hung {
            eprintln!("[C19] call #{} of {} hung; node: {}", *call_no, sc.label(), node.debug_state());
        }
        let attempts = if hung { Vec::new() } else { node.end_call(*call_no)? };
        for a in &attempts {
            match a.realized {
                Realized::ReplyOk => {
                    obs.expected_replies.insert(a.serial, node.sh.reply_value(a.serial));
                }
                Realized::ReplyErr { .. } => {
                    obs.expected_errors.insert(a.serial, node.sh.error_message(a.serial));
                }
                _ => {}
            }
        }
        let connected_after = if hung { None } else { driver.is_connected("n0") };
        obs.calls.push(CallObs {
            healthy_phase: healthy,
            excused: start.excused,
            remaining_at_start: start.remaining,
            last_failure_before: start.last_failure,
            attempts,
            res,
            connected_after,
            elapsed,
            new_connects: Some(node.connects_seen() - connects0),
        });
        Ok(hung)
    };

    while node.remaining() > 0 && obs.calls.len() < cap {
        if one_call(false, &mut obs, &mut call_no)? {
            abort = true;
            break;
        }
        let c = obs.calls.last().unwrap();
        if c.attempts.is_empty() && !c.excused {
            obs.stalled = true;
            break;
        }
    }
    if !abort {
        if node.remaining() > 0 {
            obs.stalled = true;
        }
        obs.dropped_outcomes = node.set_healthy();
        for _ in 0..HEALTHY_CALLS {
            if one_call(true, &mut obs, &mut call_no)? {
                break;
            }
        }
    }
    let errs = node.errors();
    let anomalies = node.anomalies();
    drop(driver);
    node.stop();
    if !errs.is_empty() {
        return Err(format!("fake node trouble: {}", errs.join("; ")));
    }
    if let Some(a) = anomalies.first() {
        obs.disturbed = Some(a.clone());
    }
    mark_slow_calls(&mut obs);
    Ok(obs)
}

#[derive(Clone, Debug, PartialEq, Eq, PartialOrd, Ord)]
struct Viol {
    key: String,
    what: String,
}

/// io::ErrorKind names a transport failure of this kind may surface as.
fn transport_class(r: Realized) -> &'static [&'static str] {
    match r {
        Realized::Refused => &["ConnectionRefused"],
        Realized::Reset | Realized::DownReset => {
            &["ConnectionReset", "UnexpectedEof", "ConnectionAborted", "BrokenPipe", "NotConnected"]
        }
        Realized::Silent => &["TimedOut", "WouldBlock"],
        _ => &[],
    }
}

fn show_attempts(a: &[Attempt]) -> String {
    format!("[{}]", a.iter().map(|x| x.outcome.letter()).collect::<Vec<_>>().join(","))
}

fn show_calls(obs: &ScenObs) -> String {
    let mut parts: Vec<String> = Vec::new();
    for (i, c) in obs.calls.iter().enumerate() {
        parts.extend(obs.maint.iter().filter(|m| m.at_call == i).map(maint::show_maint));
        parts.push(show_call(i, c));
    }
    parts.extend(obs.maint.iter().filter(|m| m.at_call >= obs.calls.len()).map(maint::show_maint));
    parts.join(" | ")
}

fn show_call(i: usize, c: &CallObs) -> String {
    format!(
        "#{}{}{} attempts={} -> {}{}",
        i + 1,
        if c.healthy_phase { "(healthy)" } else { "" },
        if c.excused { "(after a killed connection)" } else { "" },
        show_attempts(&c.attempts),
        c.res.show(),
        match c.connected_after {
            Some(b) => format!(" is_connected={b}"),
            None => String::new(),
        }
    )
}

fn judge_single(sc: &Scenario, obs: &ScenObs) -> Vec<Viol> {
    judge_calls(sc.kind, sc.max, &sc.label(), obs)
}

/// The clauses O1..O4 over the calls of one single-node scenario (whatever
/// brought the fleet into the state in which each call began).
fn judge_calls(kind: Kind, max_attempts: usize, label: &str, obs: &ScenObs) -> Vec<Viol> {
    struct Sc {
        max: usize,
    }
    let sc = Sc { max: max_attempts };
    let f = kind.name();
    let mut out: Vec<Viol> = Vec::new();
    let mut add = |key: String, what: String| {
        if !out.iter().any(|v| v.key == key) {
            out.push(Viol { key, what: format!("{what}; scenario {label}; calls: {}", show_calls(obs)) });
        }
    };
    for (i, c) in obs.calls.iter().enumerate() {
        let n = c.attempts.len();
        let callno = i + 1;
        match &c.res {
            Res::Panic(p) => add(format!("C19:panic:{f}"), format!("call #{callno} panicked: {p}")),
            Res::Hang => add(format!("C19:call-hung:{f}"), format!("call #{callno} did not return within the watchdog (>= 10 s of this process running)")),
            Res::FleetErr(e) => add(format!("C19:fleet-error:{f}"), format!("call #{callno} was rejected by the fleet: {e}")),
            _ => {}
        }
        if matches!(c.res, Res::Panic(_) | Res::Hang | Res::FleetErr(_)) {
            continue;
        }
        // O1: at most the configured number of attempts
        if n > sc.max {
            add(
                format!("C19:too-many-attempts:{f}"),
                format!("call #{callno} made {n} attempts at the node with max_attempts={}", sc.max),
            );
        }
        // O2: retries only after transport-level failures; stops at the first reply
        for w in c.attempts.windows(2) {
            if w[0].outcome.is_reply() || w[0].realized == Realized::ReplyUndecodable {
                let cls = if w[0].realized == Realized::ReplyUndecodable {
                    "undecodable-success"
                } else if w[0].outcome == Out::AppErr {
                    "application-error"
                } else {
                    "success"
                };
                add(
                    format!("C19:attempt-after-reply:{cls}:{f}"),
                    format!(
                        "call #{callno} made another attempt (#{}) after attempt #{} had been answered ({})",
                        w[1].serial,
                        w[0].serial,
                        w[0].outcome.name()
                    ),
                );
            }
        }
        // O3: reports that reply, or the last transport error
        if let Some(reply) = c.attempts.iter().find(|a| a.outcome.is_reply() || a.realized == Realized::ReplyUndecodable) {
            let good = match reply.realized {
                // the node's reply cannot be decoded: the call reports that (any error), never a later attempt's value
                Realized::ReplyUndecodable => c.res.is_err(),
                Realized::ReplyOk => obs.expected_replies.get(&reply.serial).is_some_and(|v| c.res == Res::Ok(v.clone())),
                Realized::ReplyErr { code } => match &c.res {
                    Res::Server { code: got, msg } => {
                        // the client API can only name the codes of `ErrorCode`; any other wire code is
                        // reported under a stand-in code (that mapping is the client's, not the fleet's)
                        (*got == code || repe::ErrorCode::try_from(code).is_err())
                            && obs.expected_errors.get(&reply.serial).is_some_and(|m| m == msg)
                    }
                    _ => false,
                },
                _ => false,
            };
            if !good {
                add(
                    format!("C19:result-not-the-reply:{f}"),
                    format!(
                        "call #{callno} received the reply of attempt #{} ({}) but reported {}",
                        reply.serial,
                        reply.outcome.name(),
                        c.res.show()
                    ),
                );
            }
        } else if let Some(last) = c.attempts.last() {
            if last.outcome == Out::Malformed {
                // unclassified by the property: any error will do, a value will not
                if !c.res.is_err() {
                    add(
                        format!("C19:value-without-reply:{f}"),
                        format!("call #{callno} ended on a malformed reply yet reported {}", c.res.show()),
                    );
                }
            } else {
                let cls = transport_class(last.realized);
                match &c.res {
                    Res::Io { kind, .. } if cls.contains(&kind.as_str()) => {}
                    Res::Io { kind, .. }
                        if c.attempts.iter().any(|a| transport_class(a.realized).contains(&kind.as_str())) =>
                    {
                        add(
                            format!("C19:result-not-last-transport-error:{f}"),
                            format!(
                                "call #{callno} got no reply; its last attempt failed as {} but it reported {} (the error of an earlier attempt)",
                                last.outcome.name(),
                                c.res.show()
                            ),
                        );
                    }
                    _ => add(
                        format!("C19:result-not-transport-error:{f}"),
                        format!(
                            "call #{callno} got no reply; its last attempt failed as {} but it reported {}",
                            last.outcome.name(),
                            c.res.show()
                        ),
                    ),
                }
            }
        } else if c.excused && !c.res.is_io() {
            // nothing reached the node (a dead cached connection): only a transport error fits
            add(
                format!("C19:result-not-transport-error:{f}"),
                format!("call #{callno} reached the node with no attempt yet reported {}", c.res.show()),
            );
        }
        // O5: "a later attempt ... reconnects and succeeds once the node is reachable again": when the outcomes
        // the node had in store at the start of the call are j transport failures followed by a reply, with
        // j < max_attempts, the attempt budget reaches that reply, so the node must have seen j + 1 attempts
        // (O2 / O3 then demand that the reply is what the call reports). A malformed reply before it leaves
        // the question open (the property does not classify it), as does a dead cached connection (`excused`:
        // an attempt is then spent without reaching the node).
        if !c.excused {
            let store = &c.remaining_at_start;
            let j = store.iter().position(|o| !matches!(o, Out::Refused | Out::AcceptClose | Out::Silent));
            let reply_at = match j {
                Some(j) if store[j].is_reply() => Some(j),
                // the script is exhausted after j failures: the node answers healthily from then on
                None if !store.is_empty() || c.healthy_phase => Some(store.len()),
                _ => None,
            };
            if let Some(j) = reply_at {
                if j < sc.max && n < j + 1 && !matches!(c.res, Res::Ok(_) | Res::Server { .. }) {
                    add(
                        format!("C19:reachable-node-not-retried:{f}"),
                        format!(
                            "call #{callno}: the node was going to fail {j} attempt(s) at the transport level and answer the next one, max_attempts={} allows that, yet the node saw only {n} attempt(s) and the call reported {}",
                            sc.max,
                            c.res.show()
                        ),
                    );
                }
            }
        }
        // O4: never wedged
        if c.healthy_phase && !c.excused && !matches!(c.res, Res::Ok(_)) {
            let cause = c.last_failure_before.map(|o| o.name()).unwrap_or("nothing");
            add(
                format!("C19:wedged-after:{cause}:{f}"),
                format!(
                    "node healthy and listening, no connection killed since the previous call, yet call #{callno} made {n} attempt(s) and reported {} (is_connected={:?}); last failure the node inflicted: {cause}",
                    c.res.show(),
                    c.connected_after
                ),
            );
        }
    }
    out
}

// ---------------------------------------------------------------------------
// broadcast / tag addressing

#[derive(Clone, Debug, PartialEq)]
struct TagScenario {
    kind: Kind,
    /// bit t set = node carries TAGS[t]
    assign: [u8; TAG_NODES],
    /// the node that fails in the last round is silent until its timeout on every attempt (instead of
    /// refusing); node timeouts are then the short NODE_TIMEOUT
    silent: bool,
}

impl TagScenario {
    fn to_json(&self) -> Value {
        json!({"shape": "tags", "fleet": self.kind.name(), "assign": self.assign.to_vec(), "tags": TAGS, "silent": self.silent})
    }
    fn from_json(v: &Value) -> Option<TagScenario> {
        let a = v["assign"].as_array()?;
        if a.len() != TAG_NODES {
            return None;
        }
        let mut assign = [0u8; TAG_NODES];
        for (i, x) in a.iter().enumerate() {
            assign[i] = x.as_u64()? as u8;
        }
        Some(TagScenario { kind: Kind::parse(v["fleet"].as_str()?)?, assign, silent: v["silent"].as_bool().unwrap_or(false) })
    }
    fn label(&self) -> String {
        format!(
            "{} broadcast{} nodes=[{}]",
            self.kind.name(),
            if self.silent { " (failing node silent until timeout on every attempt)" } else { "" },
            self.assign.iter().enumerate().map(|(i, m)| format!("n{i}:{{{}}}", mask_tags(*m).join(","))).collect::<Vec<_>>().join(" ")
        )
    }
}

fn mask_tags(m: u8) -> Vec<&'static str> {
    TAGS.iter().enumerate().filter(|(t, _)| m & (1 << t) != 0).map(|(_, s)| *s).collect()
}

#[derive(Clone, Debug)]
struct BcastObs {
    requested: u8,
    down: Option<usize>,
    results: Result<BTreeMap<String, Res>, Res>,
    attempts: Vec<Vec<Attempt>>,
    expected_replies: BTreeMap<(usize, u64), Value>,
}

/// Node timeout of the `silent` tag scenarios is NODE_TIMEOUT x this factor: a run in which a HEALTHY node's
/// answer missed the timeout was disturbed by the machine (the fake node answers at once) and is repeated
/// with a four times longer timeout.
static TAG_TIMEOUT_SCALE: [u32; 4] = [1, 4, 16, 40];

fn run_tags(ts: &TagScenario) -> Result<Vec<BcastObs>, String> {
    run_tags_scaled(ts, 1)
}

fn run_tags_scaled(ts: &TagScenario, scale: u32) -> Result<Vec<BcastObs>, String> {
    let mut nodes = Vec::new();
    let mut cfgs = Vec::new();
    for i in 0..TAG_NODES {
        let n = FakeNode::start(&format!("n{i}"), vec![], Garbage::BadSpec, 0)?;
        let cfg = NodeConfig::new("127.0.0.1", n.port())
            .and_then(|c| c.with_name(format!("n{i}")))
            .and_then(|c| c.with_timeout(if ts.silent { NODE_TIMEOUT * scale } else { TAG_NODE_TIMEOUT }))
            .map_err(|e| e.to_string())?
            .with_tags(mask_tags(ts.assign[i]));
        cfgs.push(cfg);
        nodes.push(n);
    }
    let driver = Driver::new(ts.kind, cfgs, TAG_MAX_ATTEMPTS)?;
    let mut out = Vec::new();
    let mut call: u64 = 0;
    let full = (1u8 << TAGS.len()) - 1;
    // every requested set with all nodes up (first round on a fleet that has no
    // connection yet, later rounds on cached ones), then once more the empty
    // set with one node down
    let down_node = ts.assign.iter().map(|m| *m as usize).sum::<usize>() % TAG_NODES;
    let mut rounds: Vec<(u8, Option<usize>, bool)> = (0..=full).map(|q| (q, None, false)).collect();
    // the same requested sets spelled differently: every tag twice, the second time in reverse order
    // (the REQUESTED TAGS are the same set, so exactly the same nodes are addressed)
    rounds.extend((1..=full).map(|q| (q, None, true)));
    rounds.push((0, Some(down_node), false));
    for (q, down, respelled) in rounds {
        call += 1;
        if let Some(d) = down {
            nodes[d].sh_push(vec![if ts.silent { Out::Silent } else { Out::Refused }; TAG_MAX_ATTEMPTS]);
        }
        for n in &nodes {
            n.begin_call(call)?;
        }
        let request: Vec<&'static str> = if respelled {
            let t = mask_tags(q);
            t.iter().copied().chain(t.iter().rev().copied()).collect()
        } else {
            mask_tags(q)
        };
        let results = driver.broadcast(&request, call);
        let hung = matches!(results, Err(Res::Hang));
        let mut attempts = Vec::new();
        let mut expected = BTreeMap::new();
        for (i, n) in nodes.iter().enumerate() {
            let a = if hung { Vec::new() } else { n.end_call(call)? };
            for x in &a {
                if x.realized == Realized::ReplyOk {
                    expected.insert((i, x.serial), n.sh.reply_value(x.serial));
                }
            }
            attempts.push(a);
        }
        out.push(BcastObs { requested: q, down, results, attempts, expected_replies: expected });
        if hung {
            break;
        }
    }
    let mut errs = Vec::new();
    for n in &nodes {
        errs.extend(n.errors());
    }
    drop(driver);
    for n in nodes {
        n.stop();
    }
    if !errs.is_empty() {
        return Err(format!("fake node trouble: {}", errs.join("; ")));
    }
    Ok(out)
}

fn judge_tags(ts: &TagScenario, obs: &[BcastObs]) -> Vec<Viol> {
    let f = ts.kind.name();
    let mut out: Vec<Viol> = Vec::new();
    for (round, b) in obs.iter().enumerate() {
        let ctx_txt = |b: &BcastObs| {
            format!(
                "scenario {}; round {} requested={{{}}}{}; results={}; attempts per node={:?}",
                ts.label(),
                round + 1,
                mask_tags(b.requested).join(","),
                b.down.map(|d| format!(" (n{d} down)")).unwrap_or_default(),
                match &b.results {
                    Ok(m) => format!("{{{}}}", m.iter().map(|(k, v)| format!("{k}: {}", v.show())).collect::<Vec<_>>().join(", ")),
                    Err(e) => e.show(),
                },
                b.attempts.iter().map(|a| a.len()).collect::<Vec<_>>()
            )
        };
        let mut add = |key: String, what: String| {
            if !out.iter().any(|v| v.key == key) {
                out.push(Viol { key, what: format!("{what}; {}", ctx_txt(b)) });
            }
        };
        let results = match &b.results {
            Ok(m) => m,
            Err(Res::Hang) => {
                add(format!("C19:call-hung:{f}"), "broadcast did not return within the watchdog (>= 10 s of this process running)".into());
                continue;
            }
            Err(e) => {
                add(format!("C19:panic:{f}"), format!("broadcast panicked: {}", e.show()));
                continue;
            }
        };
        for i in 0..TAG_NODES {
            let name = format!("n{i}");
            let addressed = ts.assign[i] & b.requested == b.requested;
            let n = b.attempts[i].len();
            match (addressed, results.get(&name)) {
                (true, None) => add(
                    format!("C19:broadcast-missing-result:{f}"),
                    format!("{name} carries all requested tags but the broadcast returned no result for it"),
                ),
                (false, Some(_)) => add(
                    format!("C19:broadcast-extra-result:{f}"),
                    format!("{name} does not carry all requested tags but the broadcast returned a result for it"),
                ),
                _ => {}
            }
            if !addressed && n > 0 {
                add(
                    format!("C19:broadcast-contacted-nonmatching-node:{f}"),
                    format!("{name} does not carry all requested tags but received {n} attempt(s)"),
                );
            }
            if addressed {
                if n > TAG_MAX_ATTEMPTS {
                    add(
                        format!("C19:too-many-attempts:{f}"),
                        format!("{name} received {n} attempts in one broadcast with max_attempts={TAG_MAX_ATTEMPTS}"),
                    );
                }
                if let Some(r) = results.get(&name) {
                    if b.down == Some(i) {
                        if !r.is_io() {
                            add(
                                format!("C19:result-not-transport-error:{f}"),
                                format!("{name} is down but its broadcast result is {}", r.show()),
                            );
                        }
                    } else {
                        let reply = b.attempts[i].iter().find(|a| a.realized == Realized::ReplyOk);
                        let good = reply
                            .and_then(|a| b.expected_replies.get(&(i, a.serial)))
                            .is_some_and(|v| *r == Res::Ok(v.clone()));
                        if !good {
                            add(
                                format!("C19:broadcast-wrong-result:{f}"),
                                format!("{name} is healthy and addressed but its broadcast result is {} (attempts seen: {n})", r.show()),
                            );
                        }
                    }
                }
            }
        }
        let extra: Vec<&String> = results.keys().filter(|k| !(0..TAG_NODES).any(|i| format!("n{i}") == **k)).collect();
        if !extra.is_empty() {
            add(format!("C19:broadcast-extra-result:{f}"), format!("results for unknown nodes {extra:?}"));
        }
    }
    out
}

// ---------------------------------------------------------------------------
// enumeration

#[derive(Clone, Debug, PartialEq)]
enum Case {
    Single(Scenario),
    Tags(TagScenario),
    Prefixed(maint::PScenario),
    Dyn(dynset::DynScenario),
}

impl Case {
    fn to_json(&self) -> Value {
        match self {
            Case::Single(s) => s.to_json(),
            Case::Tags(t) => t.to_json(),
            Case::Prefixed(p) => p.to_json(),
            Case::Dyn(d) => d.to_json(),
        }
    }
    fn from_json(v: &Value) -> Option<Case> {
        match v["shape"].as_str()? {
            "single" => Scenario::from_json(v).map(Case::Single),
            "tags" => TagScenario::from_json(v).map(Case::Tags),
            "prefixed" => maint::PScenario::from_json(v).map(Case::Prefixed),
            "dynamic" => dynset::DynScenario::from_json(v).map(Case::Dyn),
            _ => None,
        }
    }
    fn label(&self) -> String {
        match self {
            Case::Single(s) => s.label(),
            Case::Tags(t) => t.label(),
            Case::Prefixed(p) => p.label(),
            Case::Dyn(d) => d.label(),
        }
    }
}

/// Every protocol-level code, both reserved-range neighbours of the application base, and the extremes:
/// an error *reply* of any code is a reply (the property distinguishes transport failures from replies,
/// not one error code from another).
const ERR_CODES: [u32; 14] = [1, 2, 3, 4, 5, 6, 7, 8, 9, 10, 4095, 4096, 4097, u32::MAX];

fn code_scripts() -> Vec<Vec<Out>> {
    let mut v = vec![vec![Out::AppErr]];
    for a in ALPHABET {
        for b in ALPHABET {
            if a == Out::AppErr || b == Out::AppErr {
                v.push(vec![a, b]);
            }
        }
    }
    v
}

#[derive(Clone, Debug)]
enum Block {
    Single { kind: Kind, api: Api, max: usize, len: usize, garbage: Garbage },
    Tags { kind: Kind },
    /// 16 tag assignments; the failing node of the last round is silent until timeout on every attempt
    TagsSilent { kind: Kind },
    /// every error code of `ERR_CODES` x every script of length 1..=2 that contains an application error
    Codes { kind: Kind, api: Api, max: usize },
    /// one prefix x one recovery op x every script of one length (axis A)
    Prefixed { kind: Kind, api: Api, max: usize, len: usize, prefix: usize, recover: Option<maint::MOp> },
    /// one initial node set x every add/remove sequence of one length (axis B)
    Dyn { kind: Kind, init: usize, warm: bool, len: usize },
}

impl Block {
    fn count(&self) -> u64 {
        match self {
            Block::Single { len, .. } => crate::par::pow(ALPHABET.len() as u64, *len as u32),
            Block::Tags { .. } => crate::par::pow(1 << TAGS.len(), TAG_NODES as u32),
            Block::TagsSilent { .. } => 16,
            Block::Codes { .. } => (ERR_CODES.len() * code_scripts().len()) as u64,
            Block::Prefixed { len, .. } => crate::par::pow(ALPHABET.len() as u64, *len as u32),
            Block::Dyn { len, .. } => crate::par::pow(dynset::OP_LETTERS, *len as u32),
        }
    }
    fn case(&self, i: u64) -> Case {
        match self {
            Block::Single { kind, api, max, len, garbage } => {
                let mut d = Vec::new();
                crate::par::digits(i, ALPHABET.len() as u64, *len, &mut d);
                // most significant digit first, so scripts come in lexicographic order
                d.reverse();
                Case::Single(Scenario {
                    kind: *kind,
                    api: *api,
                    max: *max,
                    garbage: *garbage,
                    err_code: 0,
                    script: d.iter().map(|x| ALPHABET[*x as usize]).collect(),
                })
            }
            Block::Codes { kind, api, max } => {
                let scripts = code_scripts();
                let (ci, si) = ((i as usize) / scripts.len(), (i as usize) % scripts.len());
                Case::Single(Scenario { kind: *kind, api: *api, max: *max, garbage: Garbage::BadSpec, err_code: ERR_CODES[ci], script: scripts[si].clone() })
            }
            Block::Prefixed { kind, api, max, len, prefix, recover } => {
                let mut d = Vec::new();
                crate::par::digits(i, ALPHABET.len() as u64, *len, &mut d);
                d.reverse();
                Case::Prefixed(maint::PScenario {
                    kind: *kind,
                    api: *api,
                    max: *max,
                    garbage: Garbage::BadSpec,
                    prefix: *prefix,
                    recover: *recover,
                    script: d.iter().map(|x| ALPHABET[*x as usize]).collect(),
                })
            }
            Block::Dyn { kind, init, warm, len } => {
                let mut d = Vec::new();
                crate::par::digits(i, dynset::OP_LETTERS, *len, &mut d);
                d.reverse();
                // the health assignment of the mixed round walks through all 3^4 as the sequences go by
                let mut h = Vec::new();
                crate::par::digits((i + 7 * *init as u64 + 40 * *warm as u64) % 81, 3, TAG_NODES, &mut h);
                let mut health = [0u8; TAG_NODES];
                health.copy_from_slice(&h);
                Case::Dyn(dynset::DynScenario {
                    kind: *kind,
                    init: *init,
                    warm: *warm,
                    ops: d.iter().map(|x| dynset::DynOp::from_digit(*x)).collect(),
                    health,
                })
            }
            Block::Tags { kind } => {
                let mut d = Vec::new();
                crate::par::digits(i, 1 << TAGS.len(), TAG_NODES, &mut d);
                let mut assign = [0u8; TAG_NODES];
                assign.copy_from_slice(&d);
                Case::Tags(TagScenario { kind: *kind, assign, silent: false })
            }
            Block::TagsSilent { kind } => {
                // assignments 17 * i mod 256: spread over the 256 possible ones
                let mut d = Vec::new();
                crate::par::digits((i * 17) % crate::par::pow(1 << TAGS.len(), TAG_NODES as u32), 1 << TAGS.len(), TAG_NODES, &mut d);
                let mut assign = [0u8; TAG_NODES];
                assign.copy_from_slice(&d);
                Case::Tags(TagScenario { kind: *kind, assign, silent: true })
            }
        }
    }
}

struct Plan {
    blocks: Vec<Block>,
    starts: Vec<u64>,
    total: u64,
}

impl Plan {
    fn new(tier: Tier) -> Plan {
        let max_hi = tier.pick(2usize, 3usize);
        let mut blocks = Vec::new();
        let cat = maint::catalogue();
        let kinds = [Kind::Blocking, Kind::Async];
        // axis A, the prefixes in which health_check runs into its own 5 s timeout: first, so
        // that they wait while everything else runs
        for (pi, _) in cat.iter().enumerate().filter(|(_, p)| p.slow) {
            for max in 1..=max_hi {
                for len in 0..=tier.pick(0usize, 1usize) {
                    for kind in kinds {
                        blocks.push(Block::Prefixed { kind, api: Api::Json, max, len, prefix: pi, recover: None });
                    }
                }
            }
        }
        for kind in [Kind::Blocking, Kind::Async] {
            blocks.push(Block::Tags { kind });
            blocks.push(Block::TagsSilent { kind });
        }
        for max in 2..=max_hi {
            for kind in [Kind::Blocking, Kind::Async] {
                for api in [Api::Json, Api::Message] {
                    if api == Api::Message && max > 2 && tier == Tier::Quick {
                        continue;
                    }
                    blocks.push(Block::Codes { kind, api, max });
                }
            }
        }
        // simplest first: by length, then max_attempts, fleet, API
        for len in 0..=max_hi + 2 {
            for max in 1..=max_hi {
                if len > max + 2 {
                    continue;
                }
                for kind in [Kind::Blocking, Kind::Async] {
                    for api in [Api::Json, Api::Message, Api::JsonNoParams] {
                        // quick runs call_message and call_json(None) (further branches of the same
                        // loop) only on the short scripts; thorough on everything
                        if api != Api::Json && len > tier.pick(2, usize::MAX) {
                            continue;
                        }
                        blocks.push(Block::Single { kind, api, max, len, garbage: Garbage::BadSpec });
                        // the other malformation on the short scripts
                        if len >= 1 && len <= tier.pick(2, 3) && api == Api::Json {
                            blocks.push(Block::Single { kind, api, max, len, garbage: Garbage::BadLength });
                        }
                        // a well-framed success reply whose JSON body ends early / is empty (the decoding entry points)
                        if len >= 1 && len <= tier.pick(2, 3) && api != Api::Message {
                            blocks.push(Block::Single { kind, api, max, len, garbage: Garbage::TruncatedJson });
                            if len <= 2 {
                                blocks.push(Block::Single { kind, api, max, len, garbage: Garbage::EmptyJson });
                            }
                        }
                    }
                }
            }
        }
        // axis A: every prefix x scripts (quick: length <= 2 for max_attempts 1, <= 1 for 2;
        // thorough: the prefixes named in the assignment at full depth max_attempts+2 for
        // max_attempts <= 2, everything else at length <= 2)
        for len in 0..=max_hi + 2 {
            for max in 1..=max_hi {
                for (pi, p) in cat.iter().enumerate().skip(1).filter(|(_, p)| !p.slow) {
                    let deepest = match tier {
                        Tier::Quick => if max == 1 { 2 } else { 1 },
                        Tier::Thorough => if p.core && max <= 2 { max + 2 } else { 2 },
                    };
                    if len > deepest {
                        continue;
                    }
                    for kind in kinds {
                        blocks.push(Block::Prefixed { kind, api: Api::Json, max, len, prefix: pi, recover: None });
                        if tier == Tier::Thorough && len <= 1 {
                            blocks.push(Block::Prefixed { kind, api: Api::Message, max, len, prefix: pi, recover: None });
                        }
                    }
                }
            }
        }
        // axis A: a maintenance call between the last scripted outcome and the healthy calls
        for len in 0..=tier.pick(2usize, 3usize) {
            for max in 1..=max_hi {
                for op in maint::RECOVER_OPS {
                    for kind in kinds {
                        blocks.push(Block::Prefixed { kind, api: Api::Json, max, len, prefix: 0, recover: Some(op) });
                    }
                }
            }
        }
        // axis A: prefix x recovery op on the shortest scripts
        for len in 0..=tier.pick(0usize, 1usize) {
            for max in 1..=max_hi {
                for (pi, _) in cat.iter().enumerate().skip(1).filter(|(_, p)| !p.slow) {
                    for op in maint::RECOVER_OPS {
                        for kind in kinds {
                            blocks.push(Block::Prefixed { kind, api: Api::Json, max, len, prefix: pi, recover: Some(op) });
                        }
                    }
                }
            }
        }
        // axis B: add/remove sequences, then the broadcast sweep
        for len in 0..=tier.pick(2usize, 3usize) {
            for (init, warm) in [(0usize, true), (2, false), (0, false), (1, true), (1, false)] {
                // all members present and connected, and the empty fleet, get the long sequences
                let long = (init == 0 && warm) || init == 2;
                if !long && len > tier.pick(1, 2) {
                    continue;
                }
                for kind in kinds {
                    blocks.push(Block::Dyn { kind, init, warm, len });
                }
            }
        }
        // debug aid (never set by ./run): C19_ONLY=classic|prefixed|dynamic keeps one family of blocks;
        // the non-vacuity requirements of the others then fail the run as a machinery error
        if let Ok(only) = std::env::var("C19_ONLY") {
            blocks.retain(|b| match b {
                Block::Prefixed { .. } => only == "prefixed",
                Block::Dyn { .. } => only == "dynamic",
                _ => only == "classic",
            });
        }
        let mut starts = Vec::new();
        let mut total = 0u64;
        for b in &blocks {
            starts.push(total);
            total += b.count();
        }
        Plan { blocks, starts, total }
    }
    fn case(&self, i: u64) -> Case {
        let b = match self.starts.binary_search(&i) {
            Ok(mut b) => {
                // skip empty blocks sharing a start (none today, be safe)
                while self.blocks[b].count() == 0 {
                    b += 1;
                }
                b
            }
            Err(b) => b - 1,
        };
        self.blocks[b].case(i - self.starts[b])
    }
}

// ---------------------------------------------------------------------------
// execution + statistics

#[derive(Default)]
struct Stats {
    counters: BTreeMap<String, u64>,
    signatures: BTreeSet<String>,
    candidates: Vec<(u64, Vec<Viol>)>,
    machinery: Vec<String>,
    scenarios: u64,
    calls: u64,
    attempts: u64,
}

impl Stats {
    fn bump(&mut self, k: &str) {
        *self.counters.entry(k.to_string()).or_insert(0) += 1;
    }
    fn add(&mut self, k: &str, n: u64) {
        *self.counters.entry(k.to_string()).or_insert(0) += n;
    }
    fn merge(&mut self, o: Stats) {
        for (k, v) in o.counters {
            *self.counters.entry(k).or_insert(0) += v;
        }
        self.signatures.extend(o.signatures);
        self.candidates.extend(o.candidates);
        self.machinery.extend(o.machinery);
        self.scenarios += o.scenarios;
        self.calls += o.calls;
        self.attempts += o.attempts;
    }
}

fn account_single(st: &mut Stats, sc: &Scenario, obs: &ScenObs) {
    let f = sc.kind.name();
    st.scenarios += 1;
    if obs.stalled {
        st.bump(&format!("{f}:scenarios_stalled_in_script_phase"));
        st.add(&format!("{f}:script_outcomes_never_reached"), obs.dropped_outcomes as u64);
    }
    for c in &obs.calls {
        st.calls += 1;
        st.attempts += c.attempts.len() as u64;
        for a in &c.attempts {
            st.bump(&format!("{f}:attempts:{}", a.outcome.name()));
            if a.realized == Realized::DownReset {
                st.bump(&format!("{f}:refused_realised_as_reset_of_live_connection"));
            }
            if !a.fresh_conn && a.conn != 0 {
                st.bump(&format!("{f}:attempts_on_cached_connection"));
            }
        }
        let n = c.attempts.len();
        if n >= 2 {
            st.bump(&format!("{f}:calls_with_retry"));
        }
        if n == sc.max && sc.max >= 2 && c.attempts.iter().all(|a| !a.outcome.is_reply()) {
            st.bump(&format!("{f}:calls_budget_exhausted_without_reply"));
        }
        if n >= 2 && c.attempts.last().is_some_and(|a| a.outcome.is_reply()) {
            st.bump(&format!("{f}:calls_reply_after_retry"));
        }
        if n >= 1 && n < sc.max && c.attempts.last().is_some_and(|a| matches!(a.outcome, Out::Refused | Out::AcceptClose | Out::Silent)) {
            st.bump(&format!("{f}:calls_stopped_early_on_transport_failure(info)"));
        }
        if c.excused {
            st.bump(&format!("{f}:calls_after_killed_connection"));
            if n == 0 {
                st.bump(&format!("{f}:calls_failed_on_dead_cached_connection"));
            }
        }
        if c.healthy_phase {
            st.bump(&format!("{f}:healthy_calls"));
            if matches!(c.res, Res::Ok(_)) {
                st.bump(&format!("{f}:healthy_calls_succeeded"));
            }
        }
        if c.connected_after == Some(true) && !matches!(c.res, Res::Ok(_) | Res::Server { .. }) && n == 0 {
            st.bump(&format!("{f}:is_connected_true_after_unreached_call(info)"));
        }
        st.bump(&format!("{f}:result:{}", c.res.class()));
        // informational: agreement with the exact retry loop
        if !c.excused && n >= 1 && !c.healthy_phase {
            let mut predicted = 0usize;
            for o in c.remaining_at_start.iter().take(sc.max) {
                predicted += 1;
                if !matches!(o, Out::Refused | Out::AcceptClose | Out::Silent) {
                    break;
                }
            }
            if predicted == n {
                st.bump("info:calls_agreeing_with_exact_loop");
            } else {
                st.bump("info:calls_differing_from_exact_loop");
            }
        }
        st.signatures.insert(format!("{f}|{}|max{}|{}->{}", sc.api.name(), sc.max, show_attempts(&c.attempts), c.res.class()));
    }
}

fn account_tags(st: &mut Stats, ts: &TagScenario, obs: &[BcastObs]) {
    let f = ts.kind.name();
    st.scenarios += 1;
    for b in obs {
        st.calls += 1;
        let addressed = (0..TAG_NODES).filter(|i| ts.assign[*i] & b.requested == b.requested).count();
        st.bump(&format!("{f}:broadcasts"));
        st.bump(&format!("{f}:broadcasts_addressing_{addressed}_of_{TAG_NODES}"));
        if b.down.is_some() {
            st.bump(&format!("{f}:broadcasts_with_a_node_down"));
        }
        for a in &b.attempts {
            st.attempts += a.len() as u64;
        }
        if let Ok(m) = &b.results {
            st.add(&format!("{f}:broadcast_results"), m.len() as u64);
            st.signatures.insert(format!(
                "{f}|broadcast|req{}|{}",
                b.requested,
                (0..TAG_NODES)
                    .map(|i| match m.get(&format!("n{i}")) {
                        Some(r) => r.class(),
                        None => "-".into(),
                    })
                    .collect::<Vec<_>>()
                    .join(",")
            ));
        }
    }
}

/// Debug aid: `C19_DUMP=<file>` writes one line per accepted single-node scenario.
static DUMP: std::sync::OnceLock<std::sync::Mutex<std::fs::File>> = std::sync::OnceLock::new();

/// One execution of one case: verdicts, its statistics, a printable trace.
struct Exec {
    viols: Vec<Viol>,
    stats: Stats,
    trace: String,
    disturbed: Option<String>,
}

/// Run one case; repeat it while the machine disturbs it (bounded: a
/// "disturbance" that shows every time is the code's own slowness and is judged
/// as observed).
fn execute(case: &Case) -> Result<Exec, String> {
    let mut last = execute_once(case)?;
    let mut n = 0;
    while last.disturbed.is_some() && n < DISTURBED_RETRIES {
        n += 1;
        DISTURBED_RERUNS.fetch_add(1, Ordering::Relaxed);
        last = execute_once(case)?;
    }
    if last.disturbed.is_some() {
        DISTURBED_KEPT.fetch_add(1, Ordering::Relaxed);
    }
    Ok(last)
}

static DISTURBED_RERUNS: AtomicU64 = AtomicU64::new(0);
static DISTURBED_KEPT: AtomicU64 = AtomicU64::new(0);

/// Run one case once. Err = harness trouble (never a verdict).
fn execute_once(case: &Case) -> Result<Exec, String> {
    let mut stats = Stats::default();
    match case {
        Case::Single(sc) => {
            let obs = run_single(sc)?;
            let viols = judge_single(sc, &obs);
            account_single(&mut stats, sc, &obs);
            let disturbed = obs.disturbed.clone();
            Ok(Exec { viols, stats, trace: show_calls(&obs), disturbed })
        }
        Case::Prefixed(ps) => {
            let obs = maint::run_prefixed(ps)?;
            let viols = maint::judge_prefixed(ps, &obs);
            maint::account_prefixed(&mut stats, ps, &obs);
            let disturbed = obs.disturbed.clone();
            Ok(Exec { viols, stats, trace: show_calls(&obs), disturbed })
        }
        Case::Dyn(ds) => {
            let obs = dynset::run_dyn(ds)?;
            let viols = dynset::judge_dyn(ds, &obs);
            dynset::account_dyn(&mut stats, ds, &obs);
            let disturbed = obs.disturbed.clone();
            Ok(Exec { viols, stats, trace: dynset::trace(&obs), disturbed })
        }
        Case::Tags(ts) => {
            let mut obs = run_tags(ts)?;
            if ts.silent {
                // a healthy node whose broadcast result is a timeout although the node answered: the answer was late
                let late = |obs: &[BcastObs]| {
                    obs.iter().any(|b| match &b.results {
                        Ok(m) => (0..TAG_NODES).any(|i| b.down != Some(i) && matches!(m.get(&format!("n{i}")), Some(Res::Io { kind, .. }) if kind == "TimedOut" || kind == "WouldBlock")),
                        Err(_) => false,
                    })
                };
                for scale in &TAG_TIMEOUT_SCALE[1..] {
                    if !late(&obs) {
                        break;
                    }
                    DISTURBED_RERUNS.fetch_add(1, Ordering::Relaxed);
                    obs = run_tags_scaled(ts, *scale)?;
                }
            }
            let viols = judge_tags(ts, &obs);
            account_tags(&mut stats, ts, &obs);
            let trace = obs
                .iter()
                .map(|b| {
                    format!(
                        "req={{{}}}{} -> {}",
                        mask_tags(b.requested).join(","),
                        b.down.map(|d| format!(" n{d} down")).unwrap_or_default(),
                        match &b.results {
                            Ok(m) => m.iter().map(|(k, v)| format!("{k}:{}", v.class())).collect::<Vec<_>>().join(","),
                            Err(e) => e.show(),
                        }
                    )
                })
                .collect::<Vec<_>>()
                .join(" | ");
            Ok(Exec { viols, stats, trace, disturbed: None })
        }
    }
}

fn keys_of(v: &[Viol]) -> BTreeSet<String> {
    v.iter().map(|x| x.key.clone()).collect()
}

static CONFIRMED: std::sync::Mutex<BTreeSet<String>> = std::sync::Mutex::new(BTreeSet::new());

enum Settled {
    /// the accepted execution and the violations that reproduced in every run
    Done { exec: Exec, confirmed: Vec<Viol>, dropped: Vec<String> },
    Trouble(String),
}

/// Execute a case; anything that looks like a violation (or like harness
/// trouble) must reproduce from the same case before it counts: a violation key
/// is kept if it shows in the first run and in both re-runs (or, after a single
/// miss, in two further runs). What does not reproduce is dropped and counted;
/// a key that keeps flickering is harness nondeterminism.
fn settle(case: &Case) -> Settled {
    let mut trouble = Vec::new();
    let mut first = None;
    for _ in 0..3 {
        match execute(case) {
            Ok(e) => {
                first = Some(e);
                break;
            }
            Err(e) => trouble.push(e),
        }
    }
    let Some(first) = first else {
        return Settled::Trouble(trouble.join(" / "));
    };
    let mut dropped: Vec<String> = trouble.iter().map(|t| format!("harness trouble that did not persist: {t}")).collect();
    if first.viols.is_empty() {
        return Settled::Done { exec: first, confirmed: Vec::new(), dropped };
    }
    // a key that already reproduced on an earlier case needs no new proof (the
    // verdict cannot change any more, only the count of cases)
    let all_known = {
        let g = CONFIRMED.lock().unwrap_or_else(|p| p.into_inner());
        first.viols.iter().all(|v| g.contains(&v.key))
    };
    if all_known {
        let confirmed = first.viols.clone();
        return Settled::Done { exec: first, confirmed, dropped };
    }
    let mut runs: Vec<Exec> = vec![first];
    let extra = |runs: &mut Vec<Exec>, n: usize| -> Result<(), String> {
        for _ in 0..n {
            runs.push(execute(case)?);
        }
        Ok(())
    };
    if let Err(e) = extra(&mut runs, 2) {
        return Settled::Trouble(format!("re-run failed: {e}"));
    }
    let keys = keys_of(&runs[0].viols);
    let mut confirmed = Vec::new();
    for key in &keys {
        let hits = |runs: &[Exec]| runs.iter().filter(|r| r.viols.iter().any(|v| &v.key == key)).count();
        let mut h = hits(&runs);
        let mut of = runs.len();
        if h == 2 {
            // one miss among the three: two more decide
            let from = runs.len();
            if let Err(e) = extra(&mut runs, 2) {
                return Settled::Trouble(format!("re-run failed: {e}"));
            }
            h = hits(&runs[from..]);
            of = 2;
            if h == 1 {
                return Settled::Trouble(format!("nondeterministic observation: {key} on {} shows in some runs only", case.label()));
            }
        }
        if h == of {
            confirmed.push(runs[0].viols.iter().find(|v| &v.key == key).unwrap().clone());
            CONFIRMED.lock().unwrap_or_else(|p| p.into_inner()).insert(key.clone());
        } else {
            let what = runs.iter().flat_map(|r| r.viols.iter()).find(|v| &v.key == key).map(|v| v.what.chars().take(700).collect::<String>()).unwrap_or_default();
            dropped.push(format!("candidate {key} on {} did not reproduce; it read: {what}", case.label()));
        }
    }
    // the accepted execution: the first one if something was confirmed, else
    // the first clean one, else the last
    let pick = if !confirmed.is_empty() {
        0
    } else {
        runs.iter().position(|r| r.viols.is_empty()).unwrap_or(runs.len() - 1)
    };
    let exec = runs.swap_remove(pick);
    Settled::Done { exec, confirmed, dropped }
}

pub fn run(tier: Tier) -> ! {
    let ctx = Ctx::new("C19", tier);
    let hook = std::panic::take_hook();
    std::panic::set_hook(Box::new(|_| {}));

    if let Err(e) = node::seam_works() {
        ctx.machinery(format!("connect seam: {e}"));
    }
    if let Ok(p) = std::env::var("C19_DUMP") {
        if let Ok(f) = std::fs::File::create(&p) {
            let _ = DUMP.set(std::sync::Mutex::new(f));
        }
    }
    if let Ok(p) = std::env::var("C19_STRESS") {
        // debug aid: run one recorded case many times in parallel
        let doc: Value = serde_json::from_slice(&std::fs::read(&p).expect("stress file")).expect("stress json");
        let case = Case::from_json(&doc["case"]).expect("stress case");
        let n: u64 = std::env::var("C19_STRESS_N").ok().and_then(|s| s.parse().ok()).unwrap_or(1000);
        let cursor = AtomicU64::new(0);
        let odd = AtomicU64::new(0);
        std::thread::scope(|scope| {
            for _ in 0..(crate::par::workers() * 2) {
                scope.spawn(|| {
                    while cursor.fetch_add(1, Ordering::Relaxed) < n {
                        match execute_once(&case) {
                            Ok(e) if e.viols.is_empty() => {}
                            Ok(e) => {
                                odd.fetch_add(1, Ordering::Relaxed);
                                eprintln!("STRESS odd: {:?} :: {}", keys_of(&e.viols), e.trace);
                            }
                            Err(e) => eprintln!("STRESS trouble: {e}"),
                        }
                    }
                });
            }
        });
        eprintln!("STRESS done: {} odd of {n}", odd.load(Ordering::Relaxed));
        std::process::exit(0);
    }
    let plan = Plan::new(tier);
    let samples = Samples::new(12);
    let samples_prefixed = Samples::new(6);
    let samples_dyn = Samples::new(4);
    // scenarios mostly wait (150 ms node timeouts), so run two per core
    let jobs = (crate::par::workers() * 2).max(2);
    let cursor = AtomicU64::new(0);
    let t0 = Instant::now();
    let mut total = Stats::default();
    let mut dropped_all: Vec<String> = Vec::new();
    std::thread::scope(|scope| {
        let mut hs = Vec::new();
        for _ in 0..jobs {
            let cursor = &cursor;
            let plan = &plan;
            let samples = &samples;
            let samples_prefixed = &samples_prefixed;
            let samples_dyn = &samples_dyn;
            hs.push(scope.spawn(move || {
                let mut st = Stats::default();
                let mut dropped_here = Vec::new();
                loop {
                    let i = cursor.fetch_add(1, Ordering::Relaxed);
                    if i >= plan.total {
                        break;
                    }
                    let case = plan.case(i);
                    match settle(&case) {
                        Settled::Done { exec, confirmed, dropped } => {
                            if let Some(d) = DUMP.get() {
                                use std::io::Write;
                                let _ = writeln!(d.lock().unwrap(), "{} :: {}", case.label(), exec.trace);
                            }
                            if matches!(&case, Case::Single(s) if s.script.len() >= 2) || i % 97 == 0 {
                                samples.offer(|| json!({"case": case.label(), "observed": exec.trace, "violations": confirmed.len()}));
                            }
                            match &case {
                                Case::Prefixed(p) if !p.script.is_empty() && i % 53 == 0 => {
                                    samples_prefixed.offer(|| json!({"case": case.label(), "observed": exec.trace, "violations": confirmed.len()}))
                                }
                                Case::Dyn(d) if d.ops.len() >= 2 && i % 211 == 0 => {
                                    samples_dyn.offer(|| json!({"case": case.label(), "observed": exec.trace, "violations": confirmed.len()}))
                                }
                                _ => {}
                            }
                            st.merge(exec.stats);
                            if !confirmed.is_empty() {
                                st.candidates.push((i, confirmed));
                            }
                            dropped_here.extend(dropped);
                        }
                        Settled::Trouble(e) => st.machinery.push(format!("{}: {e}", case.label())),
                    }
                }
                (st, dropped_here)
            }));
        }
        for h in hs {
            match h.join() {
                Ok((s, d)) => {
                    total.merge(s);
                    dropped_all.extend(d);
                }
                Err(e) => std::panic::resume_unwind(e),
            }
        }
    });
    std::panic::set_hook(hook);
    let sweep_s = t0.elapsed().as_secs_f64();
    if let Some(m) = total.machinery.first() {
        ctx.machinery(format!("{} scenario(s) could not be run; first: {m}", total.machinery.len()));
    }
    dropped_all.sort();
    for d in dropped_all.iter().take(if std::env::var_os("C19_ONLY").is_some() { 200 } else { 6 }) {
        ctx.note(format!("dropped (not reproducible): {d}"));
    }
    let transient = dropped_all.len() as u64;
    let hangs_gone = dropped_all.iter().filter(|d| d.contains("C19:call-hung")).count();
    if hangs_gone > 2 {
        ctx.machinery(format!("{hangs_gone} watchdog expiries did not reproduce on re-run"));
    }
    if transient * 50 > plan.total {
        ctx.machinery(format!(
            "{transient} of {} scenarios produced observations that did not reproduce: the machine is too loaded for the {} ms node timeout",
            plan.total,
            NODE_TIMEOUT.as_millis()
        ));
    }

    // report, in enumeration order
    total.candidates.sort_by_key(|(i, _)| *i);
    let mut confirmed_keys: BTreeSet<String> = BTreeSet::new();
    for (i, vs) in &total.candidates {
        for v in vs {
            confirmed_keys.insert(v.key.clone());
            ctx.violation(v.key.clone(), v.what.clone(), plan.case(*i).to_json());
        }
    }
    let confirmed_keys = confirmed_keys.len() as u64;

    let c = |k: &str| total.counters.get(k).copied().unwrap_or(0);
    // non-vacuity: every outcome really inflicted, every interesting branch taken
    if !ctx.has_violation() {
        let mut missing = Vec::new();
        for f in ["fleet", "async"] {
            for o in ALPHABET {
                if c(&format!("{f}:attempts:{}", o.name())) == 0 {
                    missing.push(format!("{f}:attempts:{}", o.name()));
                }
            }
            for k in [
                "calls_with_retry",
                "calls_budget_exhausted_without_reply",
                "calls_reply_after_retry",
                "calls_after_killed_connection",
                "attempts_on_cached_connection",
                "healthy_calls_succeeded",
                "broadcasts_addressing_0_of_4",
                "broadcasts_addressing_2_of_4",
                "broadcasts_addressing_4_of_4",
                "broadcasts_with_a_node_down",
                // axis A: every maintenance call really made, in every role, and the states it is there to produce
                "maint:connect_all:made_a_connection",
                "maint:connect_all:against_dead_node_returned",
                "maint:connect_all:while_cached_connection_was_killed",
                "maint:connect_all:recover",
                "maint:health_check:reported_healthy",
                "maint:health_check:reported_unhealthy",
                "maint:health_check:against_dead_node_returned",
                "maint:health_check:request_travelled_on_cached_connection",
                "maint:health_check:request_met:accepted-then-closed",
                "maint:health_check:request_met:malformed-reply",
                "maint:health_check:request_met:application-error",
                "maint:health_check:request_met:closed-while-idle",
                "maint:health_check:request_met:silent-until-timeout",
                "maint:health_check:while_cached_connection_was_killed",
                "maint:health_check:recover",
                "maint:reconnect_disconnected:made_a_connection",
                "maint:reconnect_disconnected:while_cached_connection_was_killed",
                "maint:reconnect_disconnected:recover",
                "maint:disconnect_all:with_a_client_cached",
                "maint:disconnect_all:while_cached_connection_was_killed",
                "maint:disconnect_all:recover",
                "prefixed:call_answered_on_connection_left_by:connect_all",
                "prefixed:call_answered_on_connection_left_by:health_check",
                "prefixed:call_answered_on_connection_left_by:reconnect_disconnected",
                "prefixed:healthy_calls_succeeded",
                "prefixed:healthy_calls_excused",
                // axis B: the node set really changed, and the fan-outs met it in every health state
                "dyn:add_node:added",
                "dyn:add_node:rejected",
                "dyn:add_node:re-added_with_different_tags",
                "dyn:remove_node:removed",
                "dyn:remove_node:not-found",
                "dyn:remove_node:of_a_node_with_cached_connection",
                "dyn:broadcast_json:after_a_removal",
                "dyn:map_reduce_json:after_a_removal",
                "dyn:broadcast_json:addressing_0_of_4",
                "dyn:broadcast_json:addressing_4_of_4",
                "dyn:map_reduce_json:addressing_0_of_4",
                "dyn:map_reduce_json:addressing_4_of_4",
                "dyn:broadcast_json:addressing_a_dead_node",
                "dyn:map_reduce_json:addressing_a_dead_node",
                "dyn:broadcast_json:addressing_a_node_behind_a_half_open_client",
                "dyn:map_reduce_json:addressing_a_node_behind_a_half_open_client",
                "dyn:broadcast_json:mixed_health_among_addressed",
                "dyn:map_reduce_json:mixed_health_among_addressed",
                "dyn:filter_nodes_compared",
            ] {
                if c(&format!("{f}:{k}")) == 0 {
                    missing.push(format!("{f}:{k}"));
                }
            }
        }
        if !missing.is_empty() {
            ctx.machinery(format!("vacuous exploration, never observed: {}", missing.join(", ")));
        }
        if total.signatures.len() < 2 {
            ctx.machinery("fewer than two distinct observations");
        }
    }
    ctx.note(format!(
        "sweep {:.1}s, {} scenarios, {} fleet calls/broadcasts, {} attempts at fake nodes, {} jobs",
        sweep_s, total.scenarios, total.calls, total.attempts, jobs
    ));

    let max_hi = tier.pick(2, 3);
    let maint_calls_made: BTreeMap<String, u64> = maint::RECOVER_OPS
        .iter()
        .map(|o| (o.name().to_string(), c(&format!("fleet:maint:{}", o.name())) + c(&format!("async:maint:{}", o.name()))))
        .collect();
    let initial_node_sets: Vec<Vec<Option<Vec<&str>>>> = dynset::INITS.iter().map(|m| m.iter().map(|t| t.map(mask_tags)).collect()).collect();
    let mut all_samples = samples.take();
    all_samples.extend(samples_prefixed.take());
    all_samples.extend(samples_dyn.take());
    let coverage = json!({
        "evaluations": total.scenarios,
        "fleet_calls_checked": total.calls,
        "attempts_observed": total.attempts,
        "distinct_nontrivial": total.signatures.len(),
        "exhaustive": true,
        "rule": "for max_attempts in 1..=M, both fleets: every script over the 7 outcomes of length 0..=max_attempts+2 (one outcome per attempt, in order), then 2 calls against the healthy node; call_json on all of them, call_message on lengths <= L; malformed = bad spec magic everywhere, a length mismatch on the short scripts, and (call_json) a correctly framed success reply whose JSON body ends early or is empty on the short scripts (that one IS a reply: no attempt may follow it and no later value may be reported); broadcast: 4 nodes, every assignment of subsets of 2 tags (4^4) x every requested subset, plus one round with a node down; AXIS A (prefixed scenarios): each prefix of `prefixes` (steps run in order against one node: calls meeting scripted outcomes, connect_all, health_check, reconnect_disconnected, disconnect_all, the node dead meanwhile) x every script of the stated length x {no recovery op} + every recovery op of `recovery_ops` (run between the last scripted outcome and the 2 healthy calls) x every script + prefix x recovery op on the shortest scripts; the clauses on attempts, retries, reported result and not-wedged are judged on every fleet call of the scenario, the maintenance calls only for returning; AXIS B (dynamic scenarios): each initial node set of `initial_node_sets` (warmed up by one broadcast or not) x every sequence of the stated length over the 20 letters remove_node(n0..n3) / add_node(n0..n3 x 4 tag subsets) x a health assignment in {up, dead, cached connection closed while idle}^4 that walks through all 81 as the sequences go by; then for every requested tag subset filter_nodes + broadcast_json + map_reduce_json with all nodes up, one broadcast after which the idle-closing nodes close, the same sweep with the dead nodes dead, one final broadcast with everything up; 4 fake nodes listen throughout, members or not",
        "bound": {"max_attempts": format!("1..={max_hi}"), "script_length": "0..=max_attempts+2", "call_message_script_length": tier.pick("0..=2", "all"), "healthy_calls": HEALTHY_CALLS, "tag_nodes": TAG_NODES, "tags": TAGS.len()},
        "bound_axis_A": {
            "prefixes": maint::catalogue().iter().skip(1).map(|p| p.name).collect::<Vec<_>>(),
            "recovery_ops": maint::RECOVER_OPS.iter().map(|o| o.name()).collect::<Vec<_>>(),
            "prefix_x_script": tier.pick(
                "script length 0..=2 for max_attempts 1, 0..=1 for max_attempts 2; call_json; the prefix that runs into health_check's 5 s timeout: empty script only",
                "script length 0..=max_attempts+2 for max_attempts 1..=2 on the prefixes call / connect_all / health_check / fail-R,reconnect_disconnected / call,disconnect_all / dead:connect_all; length 0..=2 otherwise (all prefixes, max_attempts 1..=3); call_message on length 0..=1; the prefix that runs into health_check's 5 s timeout: length 0..=1"),
            "recovery_op_x_script": tier.pick("script length 0..=2, max_attempts 1..=2", "script length 0..=3, max_attempts 1..=3"),
            "prefix_x_recovery_op": tier.pick("empty script, max_attempts 1..=2", "script length 0..=1, max_attempts 1..=3"),
            "scenarios_executed": c("fleet:prefixed:scenarios") + c("async:prefixed:scenarios"),
            "fleet_calls_in_them": c("fleet:prefixed:calls") + c("async:prefixed:calls"),
            "maintenance_calls_made": maint_calls_made,
        },
        "bound_axis_B": {
            "initial_node_sets": initial_node_sets,
            "letters": dynset::OP_LETTERS,
            "sequence_length": tier.pick(
                "0..=2 from {all four members, warmed up} and from the empty fleet; 0..=1 from {all four, cold}, {n0:{a,b} n2:{a}, warmed up / cold}",
                "0..=3 from {all four members, warmed up} and from the empty fleet; 0..=2 from {all four, cold}, {n0:{a,b} n2:{a}, warmed up / cold}"),
            "max_attempts": TAG_MAX_ATTEMPTS,
            "scenarios_executed": c("fleet:dyn:scenarios") + c("async:dyn:scenarios"),
            "broadcast_json_calls": c("fleet:dyn:broadcast_json") + c("async:dyn:broadcast_json"),
            "map_reduce_json_calls": c("fleet:dyn:map_reduce_json") + c("async:dyn:map_reduce_json"),
            "filter_nodes_comparisons": c("fleet:dyn:filter_nodes_compared") + c("async:dyn:filter_nodes_compared"),
        },
        "alphabet": ALPHABET.iter().map(|o| o.name()).collect::<Vec<_>>(),
        "node_timeout_ms": NODE_TIMEOUT.as_millis() as u64,
        "retry_delay_ms": RETRY_DELAY.as_millis() as u64,
        "scenarios_planned": plan.total,
        "candidate_violations_not_reproduced": transient,
        "watchdog_expiries_not_reproduced": hangs_gone,
        "fake_nodes_on_a_port_below_the_ephemeral_range(bind(0) found none free)": node::PRIVATE_PORTS_USED.load(Ordering::Relaxed),
        "runs_repeated_because_the_machine_disturbed_them": DISTURBED_RERUNS.load(Ordering::Relaxed),
        "scenarios_slow_in_every_repetition": DISTURBED_KEPT.load(Ordering::Relaxed),
        "violation_keys_confirmed_by_rerun": confirmed_keys,
        "nonvacuity": total.counters,
        "samples": all_samples,
    });
    ctx.finish(
        "fault_enumeration",
        coverage,
        &[
            "attempts are what the fake node can see: a connect() to its port (counted at the process's connect(2) boundary, which the harness interposes), or a whole request arriving on a connection; an attempt that dies inside the fleet on a connection the node already closed is invisible and is granted once per killed connection",
            "refused = the node's socket is taken out of LISTEN for exactly that connect; if 'refused' is due while the fleet still holds a live connection the node first goes down (closes it while idle)",
            "accepted-then-closed = the request has arrived but is never read and the connection is closed (RST), so the fleet's write has completed; closed-while-idle = the attempt is answered normally and, once the call has returned, the node half-closes and waits for the fleet's FIN before the next call",
            "verdicts depend on counts and results only; time is used for one thing: a run in which a call overran by about a node timeout (>= 120 ms beyond its silent attempts) or in which a request surfaced after its call had returned was disturbed by the machine and is repeated (up to 5 times, then judged as observed); a silent-node broadcast scenario in which a healthy node's answer missed the 150 ms node timeout is repeated with the timeout x4, x16, x40",
            "a violation is reported only if the same key shows in the first run of its case and in both re-runs (after a single miss: in two further runs); what does not reproduce is dropped and counted, more than 2% of scenarios dropped or more than two unreproduced watchdog expiries are a machinery error; a key proven once is not re-proven on later cases",
            "maintenance calls (connect_all, health_check, reconnect_disconnected, disconnect_all, is_connected_all, connected_nodes) are judged only for returning without a panic; what they report is counted. The excuse of one failed attempt after a connection killed while idle goes to the next operation that uses the cached client: a call or a health_check; connect_all and reconnect_disconnected do not use an existing client (the excuse carries over them), disconnect_all discards every client (nothing is left to excuse, so the next call must reconnect and succeed)",
            "a dead node refuses every connect for as long as the maintenance call or the mixed round lasts (each refused connect is counted as an attempt); a connection that connect_all / reconnect_disconnected made and on which no request has travelled yet counts as held by the fleet once the call has returned and the node has accepted it",
            "node-set membership follows what add_node / remove_node returned (Ok / true = changed, Err / false = unchanged); whether that return fits the previous membership is counted, not judged. filter_nodes is compared with the fan-out that follows it under the same membership: the two document the same selection rule, so a difference is reported under a key of its own",
            "loopback TCP on Linux; kernel behaviours other than the scripted ones are not covered",
        ],
    )
}

pub fn replay(case: &Value) -> Result<(), String> {
    let Some(case) = Case::from_json(case) else {
        return Err("C19 replay: case does not parse".into());
    };
    let hook = std::panic::take_hook();
    std::panic::set_hook(Box::new(|_| {}));
    let r = execute(&case);
    std::panic::set_hook(hook);
    match r {
        Ok(e) if e.viols.is_empty() => {
            println!("observed: {}", e.trace);
            Ok(())
        }
        Ok(e) => Err(e.viols.iter().map(|x| format!("key={} :: {}", x.key, x.what)).collect::<Vec<_>>().join("\n")),
        Err(e) => Err(format!("harness trouble (not a verdict): {e}")),
    }
}
