//! C14 (sequential part) — the registry behaves as a JSON tree addressed by
//! RFC 6901 pointers. The real `repe::Registry` is driven (a) by every
//! operation x every pointer of a large pointer universe from three start
//! trees and (b) by every history of a small scope (tree + BFS engines), next
//! to a reference model "plain JSON document + set of callables + call log"
//! with an independent RFC 6901 tokenizer. Every request is also issued
//! through `Router::with_registry` under three prefixes and all body formats.
//! The concurrent part (linearizability) is `lm/src/c14.rs`.

#[path = "c14_check.rs"]
mod check;
#[path = "c14_oracle.rs"]
mod oracle;

use crate::ctx::{Ctx, Samples, Tier};
use crate::explore::{self, Bad, Outcome, Stats, System, key_of};
use crate::par;
use check::*;
use oracle::{self as o, Op};
use serde_json::{Value, json};
use std::collections::BTreeSet;
use std::panic::{AssertUnwindSafe, catch_unwind};
use std::time::{Duration, Instant};

const TOKENS: [&str; 9] = ["a", "b", "", "0", "1", "~0", "~1", "a~1b", "~01"];
const MALFORMED: [&str; 6] = ["a", "a/b", "/~", "/a~", "/~2", "/a/~x"];

fn values() -> Vec<Value> {
    vec![json!(1), json!("s"), json!({"k": 2}), json!([10, 20]), Value::Null]
}

/// Pointers the small-scope histories are observed at (also part of the big universe).
fn scope_observed() -> Vec<String> {
    ["", "/", "/a", "/a/0", "/a~10", "/a/1", "/a/k", "/k", "/0", "/a/0/k", "/a/0/0", "/a~10/k", "/a~10/0", "/a/", "/a~1", "/a~0", "a", "/a~", "/~2", "/a/0~"]
        .iter()
        .map(|s| s.to_string())
        .collect()
}

fn base_universe() -> Vec<String> {
    let mut v: Vec<String> = vec![String::new()];
    for a in TOKENS {
        v.push(format!("/{a}"));
        for b in TOKENS {
            v.push(format!("/{a}/{b}"));
            for c in TOKENS {
                v.push(format!("/{a}/{b}/{c}"));
            }
        }
    }
    v.extend(MALFORMED.iter().map(|s| s.to_string()));
    v
}

/// Every key name of length <= 3 over {a, ~, /}, spelled by the oracle's escape.
fn extra_token_pointers() -> Vec<String> {
    let alpha = ['a', '~', '/'];
    let mut names: Vec<String> = Vec::new();
    for x in alpha {
        names.push(x.to_string());
        for y in alpha {
            names.push(format!("{x}{y}"));
            for z in alpha {
                names.push(format!("{x}{y}{z}"));
            }
        }
    }
    names.iter().map(|n| format!("/{}", o::escape(n))).collect()
}

fn full_universe() -> Vec<String> {
    let mut seen = BTreeSet::new();
    let mut out = Vec::new();
    for p in base_universe().into_iter().chain(extra_token_pointers()).chain(scope_observed()) {
        if seen.insert(p.clone()) {
            out.push(p);
        }
    }
    out
}

const SEED_NAMES: [&str; 3] = ["empty", "tree", "functions"];

fn seed_ops(name: &str) -> Option<Vec<Op>> {
    Some(match name {
        "empty" => vec![],
        "tree" => vec![
            Op::SetRoot(json!({
                "a": {"b": {"0": 1, "": "e"}, "": {"a": 5}, "0": [10, 20]},
                "b": [{"a": 1}, [10, 20], "x"],
                "0": "zero"
            })),
            Op::RegValue("/a/~0".into(), json!("t")),
            Op::RegValue("/a/~1/~01".into(), json!(7)),
            Op::RegValue("//".into(), json!({"": 3})),
            Op::RegValue("/1/1/1".into(), Value::Null),
            Op::RegValue("/~0".into(), json!({"a": 1, "~": [1]})),
            Op::RegValue("/~1".into(), json!([0, {"b": true}])),
            Op::RegValue("/a~1b/a~1b".into(), json!({"~1": 2})),
            Op::RegValue("~01/0".into(), json!(0)),
            Op::MergeAt("/a/b".into(), json!({"1": [10, 20]})),
        ],
        "functions" => vec![
            Op::MergeRoot(json!({"a": {"a": 1, "": 2}, "b": {"": {"b": 1}}, "0": [10, 20], "1": {"0": {"1": 1}}})),
            Op::RegFn("/a".into()),
            Op::RegFn("/b/".into()),
            Op::RegFn("/~1".into()),
            Op::RegFn("/a~1b/0".into()),
            Op::RegFn("/1/~01/b".into()),
            Op::RegFn("~0".into()),
            Op::RegFn("/b/0/1".into()),
            Op::RegValue("/~0".into(), json!(5)),
        ],
        _ => return None,
    })
}

fn single_ops(p: &str) -> Vec<Op> {
    let p = p.to_string();
    let mut v = vec![Op::Read(p.clone()), Op::ReadValue(p.clone()), Op::RegFn(p.clone())];
    for x in values() {
        v.push(Op::Send(p.clone(), x.clone()));
        v.push(Op::RegValue(p.clone(), x));
    }
    v.push(Op::MergeAt(p.clone(), json!({"k": 2})));
    v.push(Op::MergeAt(p, json!({"a": "m", "": 0})));
    v
}

fn guarded(cfg: &Cfg, seed: &[Op], ops: &[Op], check_from: usize, acc: &mut Acc) -> Option<Final> {
    guarded_with(cfg, seed, ops, check_from, None, acc)
}

fn guarded_with(cfg: &Cfg, seed: &[Op], ops: &[Op], check_from: usize, before0: Option<&[LiveRes]>, acc: &mut Acc) -> Option<Final> {
    match catch_unwind(AssertUnwindSafe(|| cfg.run_case_with(seed, ops, check_from, before0, acc))) {
        Ok(f) => f,
        Err(e) => {
            let msg = e.downcast_ref::<String>().cloned().or_else(|| e.downcast_ref::<&str>().map(|s| s.to_string())).unwrap_or_default();
            acc.bad.push(Bad { key: "C14:panic".into(), what: format!("panic while executing the case: {msg}"), step: ops.len().saturating_sub(1) });
            None
        }
    }
}

// ---------------------------------------------------------------- small-scope histories

const SCOPE_POINTERS: [&str; 4] = ["", "/a", "/a/0", "/a~10"];

fn scope_letters() -> Vec<Op> {
    let vals = [json!({"k": 2}), json!([10, 20]), json!(1)];
    let mut l = Vec::new();
    for p in SCOPE_POINTERS {
        l.push(Op::Read(p.into()));
    }
    for p in SCOPE_POINTERS {
        for v in &vals {
            l.push(Op::Send(p.into(), v.clone()));
        }
    }
    for p in SCOPE_POINTERS {
        for v in &vals {
            l.push(Op::RegValue(p.into(), v.clone()));
        }
    }
    for p in SCOPE_POINTERS {
        l.push(Op::RegFn(p.into()));
    }
    for p in SCOPE_POINTERS {
        l.push(Op::MergeAt(p.into(), json!({"0": "m"})));
    }
    l
}

struct RegSys {
    cfg: Cfg,
    letters: Vec<Op>,
}

impl RegSys {
    fn ops(&self, h: &[u8]) -> Vec<Op> {
        h.iter().map(|l| self.letters[*l as usize].clone()).collect()
    }
}

impl System for RegSys {
    fn letters(&self) -> usize {
        self.letters.len()
    }
    fn letter_name(&self, l: u8) -> String {
        self.letters[l as usize].short()
    }
    fn run(&self, history: &[u8], check_from: usize) -> Outcome {
        let ops = self.ops(history);
        let mut acc = Acc::new();
        let fin = guarded(&self.cfg, &[], &ops, check_from, &mut acc);
        self.cfg.ctr.flush(&acc.ctr);
        let key = fin.map(|f| {
            let funcs: Vec<&String> = f.model.funcs.iter().collect();
            key_of(&(o::canon_json(&f.model.doc), funcs, f.model.calls.len(), &f.impl_root, &f.impl_reads))
        });
        Outcome { key, bad: acc.bad, flags: 0 }
    }
}

/// Oracle on the last step only: every shorter history is enumerated on its own.
struct LastOnly<'a>(&'a RegSys);
impl System for LastOnly<'_> {
    fn letters(&self) -> usize {
        self.0.letters()
    }
    fn letter_name(&self, l: u8) -> String {
        self.0.letter_name(l)
    }
    fn run(&self, history: &[u8], _check_from: usize) -> Outcome {
        self.0.run(history, history.len().saturating_sub(1))
    }
}

fn record(ctx: &Ctx, sys: &RegSys, st: &Stats) {
    for (hist, bad) in &st.first_bad {
        let ops = sys.ops(hist);
        ctx.violation(
            bad.key.clone(),
            format!("{} [history: {}]", bad.what, ops.iter().map(|o| o.short()).collect::<Vec<_>>().join("; ")),
            json!({"mode": "history", "seed": "empty", "ops": ops.iter().map(|o| o.to_json()).collect::<Vec<_>>(), "failed_after_step": bad.step}),
        );
    }
}

// ---------------------------------------------------------------- clauses (4) and (6)

fn check_tokens_and_json_pointer(ctx: &Ctx, universe: &[String]) -> (u64, u64, u64) {
    let mut tokens_checked = 0u64;
    // oracle-level round trip: escape . unescape = id on well-formed spellings,
    // unescape . escape = id on key names
    let mut spellings: BTreeSet<String> = TOKENS.iter().map(|s| s.to_string()).collect();
    for p in extra_token_pointers() {
        spellings.insert(p[1..].to_string());
    }
    for s in &spellings {
        tokens_checked += 1;
        match o::unescape(s) {
            Some(name) => {
                if &o::escape(&name) != s || o::unescape(&o::escape(&name)).as_deref() != Some(&name) {
                    ctx.machinery(format!("oracle escape/unescape do not round-trip on {s:?}"));
                }
            }
            None => ctx.machinery(format!("oracle rejects the well-formed token spelling {s:?}")),
        }
    }
    // clause (6): repe::parse_json_pointer / eval_json_pointer against the oracle
    let docs: Vec<Value> = {
        let mut d = Vec::new();
        for name in SEED_NAMES {
            let mut m = oracle::Model::new();
            for op in seed_ops(name).unwrap() {
                m.apply(&op);
            }
            d.push(m.doc);
        }
        d.push(json!([{"a": [1, 2]}, [10, 20], "x"]));
        d.push(json!(5));
        d
    };
    let (mut compared, mut malformed_seen) = (0u64, 0u64);
    for p in universe {
        let wellformed = p.is_empty() || p.starts_with('/');
        match (o::rfc_tokens(p), wellformed) {
            (Some(want), _) => {
                let got = match catch_unwind(|| repe::parse_json_pointer(p)) {
                    Ok(g) => g,
                    Err(_) => {
                        ctx.violation("C14:json_pointer:panic", format!("parse_json_pointer({p:?}) panicked"), json!({"mode": "json_pointer", "pointer": p}));
                        continue;
                    }
                };
                compared += 1;
                if got != want {
                    ctx.violation(
                        "C14:json_pointer:parse",
                        format!("parse_json_pointer({p:?}) = {got:?}, RFC 6901 tokens are {want:?}"),
                        json!({"mode": "json_pointer", "pointer": p}),
                    );
                }
                for d in &docs {
                    compared += 1;
                    let got = repe::eval_json_pointer(d, p).cloned();
                    let want_v = o::get(d, &want).cloned();
                    if got != want_v {
                        ctx.violation(
                            "C14:json_pointer:eval",
                            format!("eval_json_pointer(doc, {p:?}) = {got:?}, RFC 6901 evaluation gives {want_v:?} (doc {})", o::canon_json(d)),
                            json!({"mode": "json_pointer", "pointer": p, "doc": d}),
                        );
                    }
                }
            }
            (None, _) => {
                // malformed escape or missing leading '/': behaviour not stated; only "does not crash" is looked at
                malformed_seen += 1;
                if catch_unwind(|| repe::parse_json_pointer(p)).is_err() {
                    ctx.note(format!("parse_json_pointer panics on the malformed pointer {p:?} (not stated by C14)"));
                }
            }
        }
    }
    (tokens_checked, compared, malformed_seen)
}

// ---------------------------------------------------------------- unstated index spellings: model-free clauses

/// Array-index spellings RFC 6901 does not allow but `usize::from_str` (or a hand-written
/// parser) may accept, plus out-of-range and append markers. Whether the registry accepts
/// them is not stated; *if* a write through one succeeds, the stated clauses still apply.
const ODD_INDEX: [&str; 12] = ["01", "00", "+1", "+0", "-0", "-1", "1 ", " 1", "0x1", "1e0", "-", "18446744073709551616"];

fn odd_pointers() -> Vec<String> {
    // array locations of the "tree" start document: /a/0 = [10,20], /b = [{..},[10,20],"x"], /b/1 = [10,20]
    let mut v = Vec::new();
    for t in ODD_INDEX {
        v.push(format!("/a/0/{t}"));
        v.push(format!("/b/{t}"));
        v.push(format!("/b/1/{t}"));
        v.push(format!("/b/{t}/0"));
        v.push(format!("/b/{t}/a"));
        v.push(format!("/b/{t}/{t}"));
    }
    v
}

/// Tokens of a pointer with every index-like token reduced to the number any lenient
/// parser could read it as (so "/b/01" and "/b/1" count as related).
fn loose_tokens(p: &str) -> Vec<String> {
    p.split('/').skip(1).map(|t| {
        let u = t.trim().trim_start_matches('+');
        match u.parse::<u128>() {
            Ok(n) => n.to_string(),
            Err(_) => t.to_string(),
        }
    }).collect()
}

fn related(p: &str, q: &str) -> bool {
    // "" and "/" both spell the root in the registry's request form
    if q.is_empty() || q == "/" || !q.starts_with('/') {
        return true;
    }
    let (a, b) = (loose_tokens(p), loose_tokens(q));
    let n = a.len().min(b.len());
    a[..n] == b[..n]
}

fn odd_case(p: &str, op: &Op) -> (bool, Vec<(String, String)>) {
    let mut bad = Vec::new();
    let live = Live::new();
    for s in seed_ops("tree").unwrap() {
        let _ = live.apply(&s);
    }
    let mut observed: Vec<String> = full_universe().into_iter().filter(|q| q.matches('/').count() <= 3).collect();
    observed.extend(odd_pointers());
    let before: Vec<LiveRes> = observed.iter().map(|q| live.read(q)).collect();
    let r = live.apply(op);
    let v = match op {
        Op::Send(_, v) | Op::RegValue(_, v) => v.clone(),
        _ => return (false, bad),
    };
    if r.is_ok() {
        // "a successful write to a non-root pointer is returned by the next read of that pointer"
        let back = live.read(p);
        if back != Ok(v.clone()) {
            bad.push(("C14:write-not-read-back".to_string(), format!("{} succeeded, yet the next read of {p:?} returned {back:?} instead of {v}", op.short())));
        }
        let back2 = live.apply(&Op::ReadValue(p.to_string()));
        if back2 != Ok(v.clone()) {
            bad.push(("C14:write-not-read-back".to_string(), format!("{} succeeded, yet read_value({p:?}) returned {back2:?} instead of {v}", op.short())));
        }
        // "... and changes nothing at unrelated pointers"
        // (for requests only: a registration may replace a non-object ancestor by an object,
        // which is not stated either way and moves its siblings)
        for (q, b) in observed.iter().zip(&before) {
            if matches!(op, Op::Send(..)) && !related(p, q) && live.read(q) != *b {
                bad.push(("C14:unrelated-pointer-changed".to_string(), format!("{} succeeded and changed the unrelated pointer {q:?} from {b:?} to {:?}", op.short(), live.read(q))));
                break;
            }
        }
    }
    (r.is_ok(), bad)
}

/// Returns (cases, successful writes).
fn check_odd_spellings(ctx: &Ctx) -> (u64, u64) {
    let (mut cases, mut wrote) = (0u64, 0u64);
    for p in odd_pointers() {
        for v in values() {
            for op in [Op::Send(p.clone(), v.clone()), Op::RegValue(p.clone(), v.clone())] {
                cases += 1;
                let out = catch_unwind(AssertUnwindSafe(|| odd_case(&p, &op)));
                let case = json!({"mode": "odd-index", "seed": "tree", "ops": [op.to_json()]});
                match out {
                    Err(_) => ctx.violation("C14:panic", format!("panic while executing {} on the tree start document", op.short()), case),
                    Ok((accepted, bad)) => {
                        if accepted {
                            wrote += 1;
                        }
                        for (k, w) in bad {
                            ctx.violation(k, format!("{w} [start tree \"tree\"]"), case.clone());
                        }
                    }
                }
            }
        }
    }
    (cases, wrote)
}

fn replay_json_pointer(case: &Value) -> Result<(), String> {
    let p = case["pointer"].as_str().ok_or("pointer")?;
    let want = o::rfc_tokens(p).ok_or("malformed pointer: nothing stated")?;
    let got = repe::parse_json_pointer(p);
    if got != want {
        return Err(format!("parse_json_pointer({p:?}) = {got:?}, RFC 6901 tokens are {want:?}"));
    }
    if let Some(d) = case.get("doc") {
        let got = repe::eval_json_pointer(d, p).cloned();
        let want_v = o::get(d, &want).cloned();
        if got != want_v {
            return Err(format!("eval_json_pointer(doc, {p:?}) = {got:?}, RFC 6901 evaluation gives {want_v:?}"));
        }
    }
    Ok(())
}

// ---------------------------------------------------------------- driver

pub fn run(tier: Tier) -> ! {
    let ctx = Ctx::new("C14", tier);
    let t0 = Instant::now();
    std::panic::set_hook(Box::new(|_| {}));
    let samples = Samples::new(6);
    let universe = full_universe();

    // harness sanity (machinery, not verdicts)
    for p in &universe {
        if let Some(t) = o::reg_tokens(p) {
            if t.iter().any(|x| o::lenient_index(x)) {
                ctx.machinery(format!("universe pointer {p:?} contains a lenient array index spelling"));
            }
        }
    }
    for v in values() {
        let rt = beve::to_vec(&v).ok().filter(|b| !b.is_empty()).and_then(|b| beve::from_slice::<Value>(&b).ok());
        if rt.as_ref() != Some(&v) {
            ctx.machinery(format!("BEVE does not round-trip the harness value {v} (got {rt:?})"));
        }
    }

    let (tokens_checked, jp_compared, jp_malformed) = check_tokens_and_json_pointer(&ctx, &universe);
    let (odd_cases, odd_accepted) = check_odd_spellings(&ctx);

    // ---- (a) single-step sweep: every operation x every pointer x three start trees
    let full = Cfg::new(&universe, true, true);
    let seeds: Vec<Vec<Op>> = SEED_NAMES.iter().map(|n| seed_ops(n).unwrap()).collect();
    // the seed histories themselves are checked step by step
    for (si, seed) in seeds.iter().enumerate() {
        let mut acc = Acc::new();
        guarded(&full, &[], seed, 0, &mut acc);
        full.ctr.flush(&acc.ctr);
        for b in acc.bad {
            ctx.violation(b.key, format!("{} [building the start tree {:?}]", b.what, SEED_NAMES[si]), json!({"mode": "history", "seed": "empty", "ops": seed.iter().map(|o| o.to_json()).collect::<Vec<_>>()}));
        }
    }
    let befores: Vec<Vec<LiveRes>> = seeds.iter().map(|s| full.observe_seed(s)).collect();
    let per_pointer = single_ops("").len() as u64;
    let n_single = seeds.len() as u64 * universe.len() as u64 * per_pointer;
    let parts = par::for_each_index(
        n_single,
        32,
        |_| std::collections::BTreeMap::<String, (u64, usize, String, Value)>::new(),
        |found, i| {
            let si = (i / (universe.len() as u64 * per_pointer)) as usize;
            let rest = i % (universe.len() as u64 * per_pointer);
            let p = &universe[(rest / per_pointer) as usize];
            let op = single_ops(p).swap_remove((rest % per_pointer) as usize);
            let mut acc = Acc::new();
            guarded_with(&full, &seeds[si], std::slice::from_ref(&op), 0, Some(&befores[si]), &mut acc);
            full.ctr.flush(&acc.ctr);
            // per violation key the case with the smallest index is kept (deterministic)
            for (pos, b) in acc.bad.into_iter().enumerate() {
                if found.get(&b.key).is_none_or(|(j, ..)| i < *j) {
                    found.insert(b.key, (i, pos, format!("{} [start tree {:?}]", b.what, SEED_NAMES[si]), json!({"mode": "single", "seed": SEED_NAMES[si], "ops": [op.to_json()]})));
                }
            }
        },
    );
    let mut first: std::collections::BTreeMap<String, (u64, usize, String, Value)> = std::collections::BTreeMap::new();
    for (k, v) in parts.into_iter().flatten() {
        if first.get(&k).is_none_or(|(j, ..)| v.0 < *j) {
            first.insert(k, v);
        }
    }
    // report in (case index, order of detection within the case) order
    let mut ordered: Vec<(u64, usize, String, String, Value)> = first.into_iter().map(|(k, (i, pos, w, c))| (i, pos, k, w, c)).collect();
    ordered.sort_by(|a, b| (a.0, a.1, &a.2).cmp(&(b.0, b.1, &b.2)));
    for (_, _, k, w, c) in ordered {
        ctx.violation(k, w, c);
    }
    for i in [7u64, 9_001, 20_011, 33_333] {
        let i = i % n_single;
        let si = (i / (universe.len() as u64 * per_pointer)) as usize;
        let rest = i % (universe.len() as u64 * per_pointer);
        let op = single_ops(&universe[(rest / per_pointer) as usize]).swap_remove((rest % per_pointer) as usize);
        samples.offer(|| json!({"start_tree": SEED_NAMES[si], "op": op.to_json()}));
    }
    let single_wall = t0.elapsed().as_secs_f64();

    // ---- (b) small-scope histories
    let sys = RegSys { cfg: Cfg::new(&scope_observed(), false, true), letters: scope_letters() };
    // same system without the router twins: used for the deepest tree level only
    let lean = RegSys { cfg: Cfg::new(&scope_observed(), false, false), letters: scope_letters() };
    let bfs_depth = tier.pick(6, 10);
    let bfs_budget = Instant::now() + Duration::from_secs(crate::ctx::budget_secs(tier.pick(12, 400)));
    let b = explore::bfs(&sys, bfs_depth, tier.pick(400_000, 6_000_000), Some(bfs_budget));
    record(&ctx, &sys, &b);
    let bfs_wall = t0.elapsed().as_secs_f64() - single_wall;
    let tree_depth = tier.pick(3, 5);
    let routed_tree_depth = tier.pick(3, 4);
    let budget = Instant::now() + Duration::from_secs(crate::ctx::budget_secs(tier.pick(15, 900)));
    let mut tree_hist = 0u64;
    let mut tree_complete = true;
    let mut tree_depth_done = 0;
    for d in 1..=tree_depth {
        let which = if d <= routed_tree_depth { &sys } else { &lean };
        let t = explore::tree(&LastOnly(which), d, Some(budget));
        record(&ctx, &sys, &t);
        tree_hist += t.histories;
        tree_complete &= t.complete;
        if t.complete {
            tree_depth_done = d;
        }
        if ctx.has_violation() {
            break;
        }
    }
    let tree_wall = t0.elapsed().as_secs_f64() - single_wall - bfs_wall;
    samples.offer(|| json!({"history": sys.ops(&[21, 13, 5, 1]).iter().map(|o| o.short()).collect::<Vec<_>>()}));

    // ---- non-vacuity
    let c = |i: usize| full.ctr.get(i) + sys.cfg.ctr.get(i) + lean.cfg.ctr.get(i);
    let mut routed = serde_json::Map::new();
    let mut routed_min = u64::MAX;
    for (pi, prefix) in PREFIXES.iter().enumerate() {
        let mut per = serde_json::Map::new();
        for (fi, name) in FMT_NAMES.iter().enumerate() {
            let n = c(C_ROUTED + pi * 7 + fi);
            routed_min = routed_min.min(n);
            per.insert(name.to_string(), json!(n));
        }
        routed.insert(format!("prefix {prefix:?}"), Value::Object(per));
    }
    let needed: [(&str, u64); 14] = [
        ("successful_writes", c(C_WRITE_OK)),
        ("rejected_writes", c(C_WRITE_REJ)),
        ("rejected_malformed_pointers", c(C_MALFORMED_REJ)),
        ("callable_invocations", c(C_INVOCATIONS)),
        ("fast_path_dispatches", c(C_FAST)),
        ("canonicalising_path_dispatches", c(C_CANON)),
        ("array_index_writes", c(C_ARRAY_WRITE)),
        ("root_merges", c(C_ROOT_MERGE)),
        ("empty_body_requests", c(C_EMPTY_BODY)),
        ("reads_of_callable_pointers", c(C_FN_READ)),
        ("paths_not_below_prefix", c(C_NOT_ROUTED)),
        ("callable_probes", c(C_PROBES)),
        ("failing_callable_invocations", c(C_CALL_FAILED)),
        ("routed_requests_min_per_prefix_and_format", routed_min),
    ];
    if !ctx.has_violation() {
        for (name, n) in needed {
            if n == 0 {
                ctx.machinery(format!("vacuous exploration: counter {name} is 0"));
            }
        }
    }
    if c(C_UNSPECIFIED) > 0 {
        ctx.note(format!("{} cases left the stated behaviour (a callable was accepted at the root) and were cut there", c(C_UNSPECIFIED)));
    }
    if c(C_ERRCODE_DIFF) > 0 {
        ctx.note(format!("{} routed requests failed with an error code different from the direct dispatch (codes of impossible requests are not stated)", c(C_ERRCODE_DIFF)));
    }
    let mut nv: serde_json::Map<String, Value> = needed.iter().map(|(k, v)| (k.to_string(), json!(v))).collect();
    nv.insert("routed_requests".into(), Value::Object(routed));
    nv.insert("unstated_outcome_took_ok_branch".into(), json!(c(C_EITHER_OK)));
    nv.insert("unstated_outcome_took_err_branch".into(), json!(c(C_EITHER_ERR)));
    nv.insert("successful_registrations".into(), json!(c(C_REG_OK)));
    nv.insert("successful_merges".into(), json!(c(C_MERGE_OK)));
    nv.insert("requests_at_root_spellings".into(), json!(c(C_ROOT_SPELLINGS)));
    nv.insert("token_spellings_round_tripped".into(), json!(tokens_checked));
    nv.insert("odd_index_spelling_writes(read-back + unrelated-unchanged, model-free)".into(), json!(odd_cases));
    nv.insert("odd_index_spelling_writes_accepted".into(), json!(odd_accepted));
    nv.insert("json_pointer_comparisons".into(), json!(jp_compared));
    nv.insert("json_pointer_malformed_inputs_not_compared".into(), json!(jp_malformed));

    let exhaustive = tree_complete && b.complete;
    let coverage = json!({
        "states": n_single + b.states,
        "transitions": c(C_CALLS),
        "traces_validated_against_impl": c(C_CASES),
        "samples": samples.take(),
        "exhaustive": exhaustive,
        "rule": "(a) every operation {read, read_value, register_function, send x 5 values, register_value x 5 values, merge_at x 2 objects} x every pointer of the universe x start trees {empty, nested tree, tree with 7 callables}, each on a fresh registry built by replaying the start tree; before and after the step every pointer of the universe is read and compared with the reference model, every callable is probed once, and the request is repeated through Router::with_registry under 3 prefixes x body formats on twin registries; (b) every history of length <= tree depth over the small-scope alphabet (oracle on the last step, all shorter histories enumerated on their own) and BFS with merging on (model document, callable set, call-log length, implementation's observable reads)",
        "bound": {"single_step_cases": n_single, "tree_depth": tree_depth, "tree_depth_completed": tree_depth_done, "tree_depth_with_router_twins": routed_tree_depth, "bfs_depth": bfs_depth, "bfs_depth_completed": b.depth, "bfs_fixpoint": b.fixpoint},
        "alphabet": {
            "universe_pointers": universe.len(),
            "tokens": TOKENS, "malformed": MALFORMED, "root_forms": ["", "/"],
            "values": values(), "start_trees": SEED_NAMES,
            "scope_pointers": SCOPE_POINTERS, "scope_letters": sys.letters.iter().map(|o| o.short()).collect::<Vec<_>>(),
            "scope_observed_pointers": scope_observed(),
            "prefixes": PREFIXES, "body_formats": FMT_NAMES,
        },
        "tree": {"histories": tree_hist, "complete": tree_complete},
        "bfs": {"states": b.states, "transitions": b.transitions, "histories": b.histories, "complete_within_bound": b.complete},
        "wall_s": {"single_step": single_wall, "tree": tree_wall, "bfs": bfs_wall},
        "nonvacuity": Value::Object(nv),
    });
    ctx.finish(
        "model_checking",
        coverage,
        &[
            "the registry treats both \"\" and \"/\" as the root (so the top-level key \"\" is not addressable by a request); the oracle follows the implementation there, everything else is strict RFC 6901",
            "registration paths (register_value / register_function / merge_at) without a leading '/' are taken as if they had one; registering over a non-object ancestor or merging into a non-object root is not stated: both 'replaced by an object' and 'rejected without change' are accepted",
            "not compared because not stated: the JSON returned by a read of a callable's own pointer and by a write acknowledgement, error message texts, which error code an impossible (well-formed) request gets, lenient array index spellings such as \"01\" or \"+1\" (none in the universe), what json_pointer::parse does with malformed escapes",
            "a path handed to a mounted registry that is not below its prefix must be answered with an error and change nothing; which error code is not stated",
            "a non-empty body whose format code is unknown cannot be 'the supplied body' of anything: it is expected to be refused without any effect; an empty body with an unknown format code is only required to change nothing",
            "RFC 6901 gives every token sequence exactly one valid spelling, so 'escape-free vs escaped spelling of the same pointer' exists only for the root (\"\" vs \"/\") and for registration paths with/without the leading '/'; the borrowed fast path and the canonicalising path are each compared with the same oracle on every pointer (counters fast_path_dispatches / canonicalising_path_dispatches)",
            "the single-step sweep takes the reads 'before the step' from another fresh registry that received the same start tree (deterministic function of the history); each case still compares its own document with the model before the step",
            "BEVE/JSON codecs are taken as correct (C08 decides the codecs); BFS merging assumes the registry is a deterministic function of its history, the un-merged tree is run as well",
            "concurrent requests are decided by the loom part of C14",
        ],
    )
}

pub fn replay(case: &Value) -> Result<(), String> {
    if case["mode"] == "json_pointer" {
        return replay_json_pointer(case);
    }
    if case["mode"] == "odd-index" {
        let op = case["ops"].get(0).and_then(Op::from_json).ok_or("bad op")?;
        let p = match &op {
            Op::Send(p, _) | Op::RegValue(p, _) => p.clone(),
            _ => return Err("odd-index case without a write".into()),
        };
        let (_, bad) = odd_case(&p, &op);
        return if bad.is_empty() { Ok(()) } else { Err(bad.iter().map(|(k, w)| format!("{k}: {w}")).collect::<Vec<_>>().join("\n")) };
    }
    let seed = seed_ops(case["seed"].as_str().unwrap_or("empty")).ok_or("unknown seed")?;
    let ops: Vec<Op> = case["ops"].as_array().ok_or("ops")?.iter().map(Op::from_json).collect::<Option<Vec<_>>>().ok_or("bad op")?;
    println!("start tree {:?}; ops: {:#?}", case["seed"], ops.iter().map(|o| o.short()).collect::<Vec<_>>());
    let cfg = Cfg::new(&full_universe(), true, true);
    let mut acc = Acc::new();
    guarded(&cfg, &seed, &ops, 0, &mut acc);
    if acc.bad.is_empty() { Ok(()) } else { Err(acc.bad.iter().map(|b| format!("{}: {}", b.key, b.what)).collect::<Vec<_>>().join("\n")) }
}
