//! C01 — wire frames: canonical 48-byte layout, lossless round trip, one encoding.
//!
//! Bounded-exhaustive enumeration of logical messages (header fields over
//! boundary classes x query/body lengths over a boundary list x body-buffer
//! capacity relations x builder-made bodies) and of every emission route and
//! parser of the crate; each execution is compared with the independent
//! field-table oracle `crate::frames` (anchored on the Glaze-produced interop
//! fixtures at the start of every run). Server-side emission is decided on raw
//! loopback sockets (`Server`, `AsyncServer`) and on an in-memory duplex
//! (`SharedWebSocketServer`) in `c01_server.rs`; client-side emission (every request API of
//! `Client`, `AsyncClient`, `WebSocketClient`, in several orders per connection) in `c01_clients.rs`.
//!
//! Oracle clauses
//!  O1 bytes == Hdr::encode (offsets 0,8,10,11,12,16,24,32,40,42,44; LE) ++ query ++ body,
//!     with length == 48+q+b                           (property sentence 1)
//!  O2 every route's bytes equal the oracle, hence pairwise identical (sentence 3)
//!  O3 every parser returns exactly the encoded fields, query and body,
//!     incl. reserved bits and unknown format codes     (sentence 2)

#[path = "c01_local.rs"]
mod local;
#[path = "c01_clients.rs"]
mod clients_emit;
#[path = "c01_server.rs"]
mod server;

use crate::ctx::{Ctx, Samples, Tier, verif_root};
use crate::frames::{HEADER, Hdr, SPEC};
use crate::par;
use local::{Bad, RawCfg, Stats, TypedCfg};
use serde_json::{Value, json};
use std::collections::BTreeMap;
use std::path::PathBuf;

// ------------------------------------------------------------------ alphabet

const U8C: [u8; 5] = [0, 1, 2, 0x7f, 0xff];
const U16C: [u16; 9] = [0, 1, 2, 3, 4, 0xff, 0x100, 0x7fff, 0xffff];
const U32C: [u32; 6] = [0, 1, 0xffff, 0x1_0000, 0x7fff_ffff, 0xffff_ffff];
const U64C: [u64; 9] = [0, 1, 1 << 8, 1 << 16, (1 << 32) - 1, 1 << 32, 1 << 63, u64::MAX, 0x0102_0304_0506_0708];
/// spec is fixed at 0x1507 wherever a frame is parsed; the other values are encode-only
const SPECC: [u16; 5] = [SPEC, 0, 1, 0x0715, 0xffff];

/// query and body lengths (both tiers: the full 17 x 17 grid)
const LENS: [usize; 17] = [0, 1, 2, 7, 8, 47, 48, 49, 255, 256, 4095, 4096, 8191, 8192, 8193, 65535, 65536];
/// representatives beyond 64 KiB (q, b)
const BIG: [(usize, usize); 3] = [(7, 65537), (7, 1 << 20), (65537, (1 << 24) + 1)];

const UNL: usize = usize::MAX;

/// typical request header
fn base_a() -> Hdr {
    Hdr { spec: SPEC, version: 1, notify: 0, reserved: 0, id: 1, query_format: 1, body_format: 2, ec: 0, ..Default::default() }
}
/// every field non-zero, every byte of every field distinct
fn base_b() -> Hdr {
    Hdr { spec: SPEC, version: 0x11, notify: 0x22, reserved: 0x3344_5566, id: 0x0102_0304_0506_0708, query_format: 0x7788, body_format: 0x99aa, ec: 0xbbcc_ddee, ..Default::default() }
}

fn hkey(h: &Hdr) -> (u16, u8, u8, u32, u64, u16, u16, u32) {
    (h.spec, h.version, h.notify, h.reserved, h.id, h.query_format, h.body_format, h.ec)
}

/// Single-field sweeps around the two base headers (de-duplicated, stable order).
fn sweep_headers() -> Vec<Hdr> {
    let mut out: Vec<Hdr> = Vec::new();
    let mut seen = std::collections::BTreeSet::new();
    let mut push = |h: Hdr| {
        if seen.insert(hkey(&h)) {
            out.push(h);
        }
    };
    for base in [base_a(), base_b()] {
        push(base);
        for v in U8C {
            push(Hdr { version: v, ..base });
            push(Hdr { notify: v, ..base });
        }
        for v in U32C {
            push(Hdr { reserved: v, ..base });
            push(Hdr { ec: v, ..base });
        }
        for v in U64C {
            push(Hdr { id: v, ..base });
        }
        for v in U16C {
            push(Hdr { query_format: v, ..base });
            push(Hdr { body_format: v, ..base });
        }
        for v in SPECC {
            push(Hdr { spec: v, ..base });
        }
    }
    out
}

/// Full product of per-field classes (radix decoding of `i`).
struct Product {
    ver: Vec<u8>,
    ntf: Vec<u8>,
    rsv: Vec<u32>,
    id: Vec<u64>,
    qf: Vec<u16>,
    bf: Vec<u16>,
    ec: Vec<u32>,
}
impl Product {
    fn new(tier: Tier) -> Product {
        match tier {
            Tier::Thorough => Product { ver: U8C.to_vec(), ntf: U8C.to_vec(), rsv: U32C.to_vec(), id: U64C.to_vec(), qf: U16C.to_vec(), bf: U16C.to_vec(), ec: U32C.to_vec() },
            Tier::Quick => Product {
                ver: vec![0, 1, 0xff],
                ntf: vec![0, 1, 0xff],
                rsv: vec![0, 1, 0xffff_ffff],
                id: vec![0, 0x0102_0304_0506_0708, u64::MAX],
                qf: vec![0, 1, 0xffff],
                bf: vec![0, 2, 0xffff],
                ec: vec![0, 1, 0xffff_ffff],
            },
        }
    }
    fn len(&self) -> u64 {
        (self.ver.len() * self.ntf.len() * self.rsv.len() * self.id.len() * self.qf.len() * self.bf.len() * self.ec.len()) as u64
    }
    fn get(&self, mut i: u64) -> Hdr {
        let mut d = |n: usize| {
            let r = (i % n as u64) as usize;
            i /= n as u64;
            r
        };
        Hdr {
            spec: SPEC,
            ec: self.ec[d(self.ec.len())],
            body_format: self.bf[d(self.bf.len())],
            query_format: self.qf[d(self.qf.len())],
            id: self.id[d(self.id.len())],
            reserved: self.rsv[d(self.rsv.len())],
            notify: self.ntf[d(self.ntf.len())],
            version: self.ver[d(self.ver.len())],
            ..Default::default()
        }
    }
}

const PRODUCT_LENS_QUICK: [(usize, usize); 2] = [(0, 0), (1, 2)];
fn product_lens(tier: Tier) -> Vec<(usize, usize)> {
    match tier {
        Tier::Quick => PRODUCT_LENS_QUICK.to_vec(),
        Tier::Thorough => {
            let l = [0usize, 1, 2, 7, 8, 47, 48, 49, 255, 256];
            l.iter().flat_map(|&q| l.iter().map(move |&b| (q, b))).collect()
        }
    }
}

// ------------------------------------------------------------------ fixtures anchor

fn repo_dir() -> PathBuf {
    if let Some(p) = std::env::var_os("REPE_REPO") {
        return PathBuf::from(p);
    }
    // the tree this engine was built against: the `repe = { path = ".." }` of mc/Cargo.toml
    // (scratch copies rewrite it; everywhere else it is /repo)
    let root = verif_root();
    if let Ok(toml) = std::fs::read_to_string(root.join("mc/Cargo.toml")) {
        for line in toml.lines() {
            if let Some(rest) = line.trim().strip_prefix("repe") {
                if let Some(i) = rest.find("path = \"") {
                    let tail = &rest[i + 8..];
                    if let Some(j) = tail.find('"') {
                        let p = PathBuf::from(&tail[..j]);
                        if p.is_dir() {
                            return p;
                        }
                    }
                }
            }
        }
    }
    PathBuf::from("/repo")
}

/// The oracle must reproduce every Glaze-produced fixture from the manifest's
/// field values (machinery error otherwise); the crate must encode the same
/// fields to the same bytes and parse the bytes back to the same fields.
fn anchor_fixtures(ctx: &Ctx, st: &mut Stats) -> (usize, Vec<Bad>) {
    let dir = repo_dir().join("interop/fixtures");
    let man: Value = match std::fs::read(dir.join("manifest.json")).map_err(|e| e.to_string()).and_then(|b| serde_json::from_slice(&b).map_err(|e| e.to_string())) {
        Ok(v) => v,
        Err(e) => ctx.machinery(format!("cannot read {}/manifest.json: {e}", dir.display())),
    };
    let version: u8 = man["repe_version"].as_str().and_then(|s| s.parse().ok()).unwrap_or_else(|| ctx.machinery("manifest repe_version"));
    let fixtures = man["fixtures"].as_array().cloned().unwrap_or_default();
    let mut on_disk: Vec<String> = std::fs::read_dir(&dir)
        .map(|rd| rd.filter_map(|e| e.ok()).filter_map(|e| e.file_name().to_str().and_then(|n| n.strip_suffix(".repe")).map(str::to_string)).collect())
        .unwrap_or_default();
    on_disk.sort();
    let mut named: Vec<String> = fixtures.iter().filter_map(|f| f["name"].as_str().map(str::to_string)).collect();
    named.sort();
    if on_disk != named || named.is_empty() {
        ctx.machinery(format!("fixture files {on_disk:?} do not match the manifest entries {named:?}"));
    }
    let mut bads = Vec::new();
    for f in &fixtures {
        let name = f["name"].as_str().unwrap();
        let file = std::fs::read(dir.join(format!("{name}.repe"))).unwrap_or_else(|e| ctx.machinery(format!("read fixture {name}: {e}")));
        let g = |k: &str| f[k].as_u64().unwrap_or_else(|| ctx.machinery(format!("fixture {name}: field {k}")));
        let query = f["query"].as_str().unwrap_or("").as_bytes().to_vec();
        let (ql, bl) = (g("query_length") as usize, g("body_length") as usize);
        let body: Vec<u8> = match f["body_kind"].as_str().unwrap_or("") {
            "json" => f["body_json"].as_str().unwrap_or("").as_bytes().to_vec(),
            "utf8" => f["body_text"].as_str().unwrap_or("").as_bytes().to_vec(),
            "none" => Vec::new(),
            // BEVE payload bytes are opaque to the frame layer: taken from the file tail
            _ => file.get(HEADER + ql..).map(|s| s.to_vec()).unwrap_or_default(),
        };
        let h = Hdr {
            length: g("length"),
            spec: SPEC,
            version,
            notify: g("notify") as u8,
            reserved: 0,
            id: g("id"),
            query_length: ql as u64,
            body_length: bl as u64,
            query_format: g("query_format") as u16,
            body_format: g("body_format") as u16,
            ec: g("ec") as u32,
        };
        let oracle = local::oracle_bytes(&h, &query, &body);
        if oracle != file || h.consistent_total() != Some(file.len() as u128) || query.len() != ql || body.len() != bl {
            ctx.machinery(format!("layout oracle does not reproduce interop fixture {name} from its manifest fields"));
        }
        // crate side: same fields -> same bytes, same bytes -> same fields
        let msg = repe::Message { header: local::to_header(&h), query: query.clone(), body: body.clone() };
        st.states += 1;
        st.transitions += 2;
        *st.routes.entry("fixture:to_vec").or_insert(0) += 1;
        *st.routes.entry("fixture:from_slice_exact").or_insert(0) += 1;
        if msg.to_vec() != file {
            bads.push(Bad { key: "C01:fixture:Message::to_vec".into(), what: format!("Message::to_vec of the manifest fields of fixture {name} differs from the Glaze-produced frame") });
        }
        match repe::Message::from_slice_exact(&file) {
            Ok(m) if local::hdr_diff(&m.header, &h).is_empty() && m.query == query && m.body == body => {}
            other => bads.push(Bad {
                key: "C01:fixture:Message::from_slice_exact".into(),
                what: format!("parsing fixture {name} does not return the manifest fields: {:?}", other.map(|m| m.header)),
            }),
        }
    }
    (fixtures.len(), bads)
}

// ------------------------------------------------------------------ driver

struct Worker {
    st: Stats,
    /// key -> (global order, what, case)
    bad: BTreeMap<String, (u64, String, Value)>,
    total_bad: u64,
}
impl Worker {
    fn new() -> Worker {
        Worker { st: Stats::default(), bad: BTreeMap::new(), total_bad: 0 }
    }
    fn record(&mut self, order: u64, bads: Vec<Bad>, case: impl Fn() -> Value) {
        for b in bads {
            self.total_bad += 1;
            let e = self.bad.entry(b.key).or_insert_with(|| (u64::MAX, String::new(), Value::Null));
            if order < e.0 {
                *e = (order, b.what, case());
            }
        }
    }
}

fn guarded<F: FnOnce(&mut Stats) -> Vec<Bad>>(st: &mut Stats, what: &str, f: F) -> Vec<Bad> {
    match std::panic::catch_unwind(std::panic::AssertUnwindSafe(|| {
        let mut fresh = Stats::default();
        let b = f(&mut fresh);
        (fresh, b)
    })) {
        Ok((l, b)) => {
            st.merge(&l);
            b
        }
        Err(p) => {
            st.panics += 1;
            let msg = p.downcast_ref::<String>().cloned().or_else(|| p.downcast_ref::<&str>().map(|s| s.to_string())).unwrap_or_default();
            vec![Bad { key: "C01:panic".into(), what: format!("panic while emitting/parsing {what}: {msg}") }]
        }
    }
}

fn typed_space(tier: Tier) -> Vec<TypedCfg> {
    let ns: &[usize] = tier.pick(&[0, 1, 7, 8, 256, 8192][..], &[0, 1, 2, 7, 8, 255, 256, 4095, 4096, 8192][..]);
    let qs: &[usize] = tier.pick(&[0, 1, 7, 48, 255, 4096][..], &LENS[..]);
    let hs = [Hdr { body_format: 1, ..base_a() }, Hdr { body_format: 1, ..base_b() }];
    let mut v = Vec::new();
    for h in hs {
        for elem in local::ELEMS {
            for &n in ns {
                for &q in qs {
                    for query_first in [true, false] {
                        v.push(TypedCfg { h, elem, n, q, query_first, sinks: vec![UNL, 1, 7, 48] });
                    }
                }
            }
        }
    }
    v
}

fn raw_header_space() -> Vec<Hdr> {
    let lens: [u64; 8] = [0, 1, 0xffff, (1 << 32) - 1, 1 << 32, 1 << 62, 0x0102_0304_0506_0708, u64::MAX - 48];
    let mut v = Vec::new();
    for base in [base_a(), base_b()] {
        for q in lens {
            for b in lens {
                if let Some(total) = 48u64.checked_add(q).and_then(|s| s.checked_add(b)) {
                    v.push(Hdr { length: total, query_length: q, body_length: b, ..base });
                }
            }
        }
    }
    v
}

pub fn run(tier: Tier) -> ! {
    let ctx = Ctx::new("C01", tier);
    let samples = Samples::new(6);
    let prev_hook = std::panic::take_hook();
    std::panic::set_hook(Box::new(|_| {}));

    let mut total = Worker::new();

    // 0. anchor the oracle
    let (n_fixtures, fb) = anchor_fixtures(&ctx, &mut total.st);
    total.record(0, fb, || json!({"block": "fixtures"}));
    let mut order_base: u64 = 1;

    let merge = |total: &mut Worker, ws: Vec<Worker>| {
        for w in ws {
            total.st.merge(&w.st);
            total.total_bad += w.total_bad;
            for (k, v) in w.bad {
                let e = total.bad.entry(k).or_insert_with(|| (u64::MAX, String::new(), Value::Null));
                if v.0 < e.0 {
                    *e = v;
                }
            }
        }
    };

    // observation (not a C01 clause): the validated constructor does not look at header.length
    {
        let mut h = local::to_header(&base_a());
        h.query_length = 1;
        h.body_length = 1;
        h.length = 0;
        if let Ok(m) = repe::Message::new(h, vec![b'q'], vec![b'b']) {
            if repe::Message::from_slice(&m.to_vec()).is_err() {
                ctx.note("observation: Message::new accepts a header whose `length` disagrees with 48+q+b (only query_length/body_length are validated); such a message serialises to a frame its own parser rejects. Caller-made inconsistent headers are outside C01's enumerated space.");
            }
        }
    }

    // 1. block L: single-field sweeps x lengths x lengths (x 5 capacity relations inside)
    let sweeps = sweep_headers();
    let lens: &[usize] = &LENS[..];
    let sinks_l: &[usize] = tier.pick(&[UNL, 1, 7, 48][..], &[UNL, 1, 2, 7, 47, 48, 49, 4096][..]);
    let nl = lens.len() as u64;
    let n_l = sweeps.len() as u64 * nl * nl;
    let cfg_l = |i: u64| -> RawCfg {
        // large lengths vary slowest inside a header so that blocks balance
        let bi = (i % nl) as usize;
        let qi = ((i / nl) % nl) as usize;
        let hi = (i / (nl * nl)) as usize;
        RawCfg { h: sweeps[hi], q: lens[qi], b: lens[bi], sinks: sinks_l.to_vec(), light: false }
    };
    samples.offer(|| cfg_l(0).to_json());
    samples.offer(|| cfg_l(n_l - 1).to_json());
    let ws = par::for_each_index(n_l, 4, |_| Worker::new(), |w, i| {
        let cfg = cfg_l(i);
        let bads = guarded(&mut w.st, "raw message", |st| local::check_raw(&cfg, st));
        w.record(order_base + i, bads, || cfg.to_json());
    });
    merge(&mut total, ws);
    order_base += n_l;

    // 2. block H: product of field classes x two small length pairs
    let prod = Product::new(tier);
    let plens = product_lens(tier);
    let n_h = prod.len() * plens.len() as u64;
    let cfg_h = |i: u64| -> RawCfg {
        let (q, b) = plens[(i % plens.len() as u64) as usize];
        RawCfg { h: prod.get(i / plens.len() as u64), q, b, sinks: vec![UNL, 7], light: true }
    };
    samples.offer(|| cfg_h(n_h / 2 + 1).to_json());
    let ws = par::for_each_index(n_h, 256, |_| Worker::new(), |w, i| {
        let cfg = cfg_h(i);
        let bads = guarded(&mut w.st, "raw message", |st| local::check_raw(&cfg, st));
        w.record(order_base + i, bads, || cfg.to_json());
    });
    merge(&mut total, ws);
    order_base += n_h;

    // 3. block G: three representatives beyond 64 KiB
    let n_g = (BIG.len() * 2) as u64;
    let cfg_g = |i: u64| -> RawCfg {
        let (q, b) = BIG[(i / 2) as usize];
        RawCfg { h: if i % 2 == 0 { base_b() } else { base_a() }, q, b, sinks: vec![UNL, 48], light: true }
    };
    let ws = par::for_each_index(n_g, 1, |_| Worker::new(), |w, i| {
        let cfg = cfg_g(i);
        let bads = guarded(&mut w.st, "raw message", |st| local::check_raw(&cfg, st));
        w.record(order_base + i, bads, || cfg.to_json());
    });
    merge(&mut total, ws);
    order_base += n_g;

    // 4. block R: bare headers whose length fields range over u64 classes
    let raws = raw_header_space();
    let mut w = Worker::new();
    for (i, h) in raws.iter().enumerate() {
        let bads = guarded(&mut w.st, "bare header", |st| local::check_raw_header(h, st));
        w.record(order_base + i as u64, bads, || json!({"block": "rawhdr", "hdr": local::hdr_json(h)}));
    }
    merge(&mut total, vec![w]);
    order_base += raws.len() as u64;

    // 5. block T: builder-made typed / complex / aligned bodies
    let typed = typed_space(tier);
    samples.offer(|| typed[typed.len() / 3].to_json());
    let ws = par::for_each_index(typed.len() as u64, 2, |_| Worker::new(), |w, i| {
        let cfg = &typed[i as usize];
        let bads = guarded(&mut w.st, "typed message", |st| local::check_typed(cfg, st));
        w.record(order_base + i, bads, || cfg.to_json());
    });
    merge(&mut total, ws);
    order_base += typed.len() as u64;

    // 6. block S: server-side emission
    let local_states = total.st.states;
    let srv = server::run_all(&ctx, tier, &samples);
    for (i, (b, case)) in srv.bad.iter().enumerate() {
        total.record(order_base + i as u64, vec![b.clone()], || case.clone());
    }

    // 7. block C: client-side emission
    order_base += srv.bad.len() as u64;
    let cl = clients_emit::run_all(tier, &repo_dir());
    if let Some(m) = &cl.machinery {
        ctx.machinery(format!("client emission block: {m}"));
    }
    for (i, (b, case)) in cl.bad.iter().enumerate() {
        total.record(order_base + i as u64, vec![b.clone()], || case.clone());
    }

    std::panic::set_hook(prev_hook);

    // report violations in enumeration order
    let mut found: Vec<(u64, String, String, Value)> = total.bad.iter().map(|(k, (o, w, c))| (*o, k.clone(), w.clone(), c.clone())).collect();
    found.sort_by(|a, b| (a.0, &a.1).cmp(&(b.0, &b.1)));
    for (_, k, w, c) in found {
        ctx.violation(k, w, c);
    }

    let st = &total.st;
    let inplace: u64 = st.inplace_by_cap.iter().sum();
    let fresh: u64 = st.fresh_by_cap.iter().sum();
    if !ctx.has_violation() {
        let need = [
            ("in-place executions of into_wire_bytes", inplace),
            ("fresh-buffer executions of into_wire_bytes", fresh),
            ("builder-made bodies", st.builder_inplace + st.builder_fresh),
            ("headers with every field non-zero", st.hdr_all_nonzero),
            ("headers with reserved bits set", st.hdr_reserved_nonzero),
            ("headers with unknown format codes", st.hdr_unknown_formats),
            ("short writes", st.sink_calls_short),
            ("Pending polls", st.async_pendings),
            ("encode-only (foreign spec) headers", st.encode_only),
            ("server responses compared", srv.responses_compared),
        ];
        for (what, n) in need {
            if n == 0 {
                ctx.machinery(format!("vacuous exploration: no {what}"));
            }
        }
        for r in [
            "Header::encode", "Message::to_vec", "Message::write_to", "write_message", "write_message_streaming", "write_message_async",
            "write_message_async[pending-sink]", "write_message_typed_slice", "write_message_complex_slice", "into_wire_bytes[in-place]",
            "into_wire_bytes[fresh]", "MessageBuilder::build+to_vec", "Message::from_slice", "Message::from_slice_exact", "MessageView::from_slice",
            "MessageView::from_slice_exact", "Header::decode", "read_message", "read_message_into", "read_message_async", "read_message_into_async",
        ] {
            if st.routes.get(r).copied().unwrap_or(0) == 0 {
                ctx.machinery(format!("vacuous exploration: route {r} never executed"));
            }
        }
        if st.path_divergence > 0 {
            ctx.note(format!(
                "into_wire_bytes took a different path than `capacity >= 48+q+b` predicts in {} executions (bytes still correct; path choice is not part of C01)",
                st.path_divergence
            ));
        }
        if st.builder_inplace == 0 || st.builder_fresh == 0 {
            ctx.note(format!(
                "builder-made typed bodies took the in-place path {} times and the fresh-buffer path {} times (documented: in-place when the query is set before the body); bytes are correct either way",
                st.builder_inplace, st.builder_fresh
            ));
        }
        if st.cap_inexact > 0 {
            ctx.note(format!("allocator returned a larger capacity than requested in {} body buffers (classified by the measured capacity)", st.cap_inexact));
        }
    }

    let cap_json = |a: &[u64; 5]| -> Value { json!(local::CAP_NAMES.iter().zip(a.iter()).map(|(n, c)| (n.to_string(), json!(c))).collect::<serde_json::Map<_, _>>()) };
    let states = st.states + srv.states + cl.calls;
    let transitions = st.transitions + srv.transitions + cl.frames_compared;
    let planned_states = n_fixtures as u64 + 5 * (n_l + n_h + n_g) + raws.len() as u64 + typed.len() as u64 + srv.planned + cl.planned;
    if states != planned_states && !ctx.has_violation() {
        ctx.machinery(format!("executed {states} configurations, planned {planned_states}"));
    }
    let coverage = json!({
        "states": states,
        "transitions": transitions,
        "traces_validated_against_impl": transitions,
        "samples": samples.take(),
        "exhaustive": states == planned_states,
        "planned_states": planned_states,
        "rule": "every logical message of the stated product spaces is built and sent through every emission route and every parser of the crate; each result is compared with the field-table oracle (frames.rs), which is first anchored on the interop fixtures; server routes: the oracle encoding of the predicted response is compared with the bytes read from the socket/duplex; client routes: the whole catalogue of logical requests is issued through every request-emitting public API of the three clients, in several orders on one long-lived connection per client, and every frame the peer receives is compared with the oracle encoding of the predicted fields and across the clients",
        "bound": {
            "fixtures_reproduced_by_oracle": n_fixtures,
            "block_L": {"headers_single_field_sweeps_around_2_bases": sweeps.len(), "query_lengths": lens, "body_lengths": lens, "capacity_relations": local::CAP_NAMES, "sinks_bytes_per_call_0_is_unlimited": sinks_l.iter().map(|&x| if x == UNL { 0 } else { x }).collect::<Vec<_>>(), "messages": n_l},
            "block_H": {"header_product": prod.len(), "length_pairs": plens, "messages": n_h},
            "block_G_beyond_64KiB": BIG,
            "block_R_bare_headers_u64_length_classes": raws.len(),
            "block_T_builder_bodies": {"configs": typed.len(), "elements": local::ELEMS.iter().map(|e| e.name()).collect::<Vec<_>>()},
            "block_S_servers": srv.bound,
            "block_C_clients": cl.bound,
        },
        "alphabet": {"u8": U8C, "u16": U16C, "u32": U32C, "u64_id": U64C, "spec_encode_only": SPECC},
        "nonvacuity": {
            "local_configurations": local_states,
            "into_wire_bytes_in_place": inplace,
            "into_wire_bytes_fresh": fresh,
            "in_place_by_capacity_relation": cap_json(&st.inplace_by_cap),
            "fresh_by_capacity_relation": cap_json(&st.fresh_by_cap),
            "path_prediction_divergences": st.path_divergence,
            "builder_bodies_in_place": st.builder_inplace,
            "builder_bodies_fresh": st.builder_fresh,
            "builder_messages": st.builder_built,
            "executions_per_route": st.routes,
            "headers_with_every_field_nonzero": st.hdr_all_nonzero,
            "headers_with_reserved_bits": st.hdr_reserved_nonzero,
            "headers_with_unknown_format_codes": st.hdr_unknown_formats,
            "encode_only_foreign_spec": st.encode_only,
            "short_writes": st.sink_calls_short,
            "async_pending_polls": st.async_pendings,
            "parser_results_equal": st.parsed_ok,
            "bytes_compared": st.bytes_compared,
            "panics": st.panics,
            "violating_comparisons": total.total_bad,
            "server": srv.nonvacuity,
            "client_emission": cl.nonvacuity,
        },
    });
    ctx.finish(
        "model_checking",
        coverage,
        &[
            "messages are built with header length fields consistent with their payloads (Message::new does not validate header.length; an inconsistent caller-made header is outside the enumerated space)",
            "BEVE payload bytes of typed/complex/aligned bodies are taken from the builder (their content is C08's subject); C01 decides their framing",
            "payload contents are one fixed aperiodic non-zero pattern per length; lengths beyond 64 KiB only at three representatives",
            "server routes run over real loopback TCP (kernel behaviour as observed) and an in-memory duplex for the WebSocket server",
            "client routes: the blocking Client runs over real loopback TCP, the two tokio clients over in-memory streams on a paused clock; numeric-slice bodies are predicted by a BEVE typed-array encoder written for this check (cross-checked against the beve crate at start), the body-format code of a body-less read is the helper's choice and only required to equal what Client::call_message emits; messages handed to forward_message carry length fields consistent with their payloads",
        ],
    )
}

pub fn replay(case: &Value) -> Result<(), String> {
    let mut st = Stats::default();
    let bads: Vec<Bad> = match case["block"].as_str().unwrap_or("") {
        "raw" => local::check_raw(&RawCfg::from_json(case)?, &mut st),
        "typed" => local::check_typed(&TypedCfg::from_json(case)?, &mut st),
        "rawhdr" => local::check_raw_header(&local::hdr_from_json(&case["hdr"])?, &mut st),
        "server" => server::replay(case)?,
        "clients" => clients_emit::replay(case)?,
        "fixtures" => {
            let ctx = Ctx::new("C01", Tier::Quick);
            anchor_fixtures(&ctx, &mut st).1
        }
        other => return Err(format!("unknown case block {other:?}")),
    };
    if bads.is_empty() { Ok(()) } else { Err(bads.iter().map(|b| format!("{}: {}", b.key, b.what)).collect::<Vec<_>>().join("\n")) }
}
