//! C19 helper — the scripted fake node and the `connect(2)` seam.
//!
//! A fake node is a TCP listener on 127.0.0.1 owned by the harness. What it does
//! with each *attempt* of the fleet under test comes from a script over the
//! seven-outcome alphabet of the property. Every decision is taken at a positive
//! event (a connect call, a request that has fully arrived, an EOF), never after
//! a delay.
//!
//! "Refused" needs the listener to be closed for exactly one attempt and that
//! attempt to be counted; a refused connection is invisible to user space on the
//! listening side, so the harness also owns the `connect(2)` boundary of this
//! process (a link-time interposer, transparent for every address that is not a
//! registered fake node): at each connect to a node's port the node looks at the
//! head of its script and either stops listening (and records the refused
//! attempt) or makes sure it is listening, then the real system call runs.
//!
//! The port stays reserved while the node does not listen: the socket is bound to
//! an explicit port, `shutdown(fd, SHUT_RD)` takes it out of
//! LISTEN (connects get RST), `listen(fd)` puts it back.

#![allow(dead_code)]

use crate::frames::{Frame, HEADER, Hdr};
use std::collections::{BTreeMap, VecDeque};
use std::io::{Read, Write};
use std::net::{Shutdown, TcpListener, TcpStream};
use std::os::fd::{AsRawFd, FromRawFd};
use std::sync::atomic::{AtomicBool, Ordering};
use std::sync::{Arc, Condvar, Mutex};
use std::time::Duration;

/// The watchdog counts beats of a thread of this process that sleeps 100 ms per
/// beat, not wall-clock seconds: 100 beats are at least 10 s of time in which
/// this process was being scheduled. If the whole machine (a VM) stalls for
/// seconds, wall-clock deadlines of every waiting thread expire at once although
/// nothing had a chance to run; beats do not advance during such a stall.
pub const WATCHDOG_BEATS: u64 = 100;
const BEAT: Duration = Duration::from_millis(100);
static BEATS: std::sync::atomic::AtomicU64 = std::sync::atomic::AtomicU64::new(0);
static BEAT_THREAD: std::sync::Once = std::sync::Once::new();

pub fn heartbeat_start() {
    BEAT_THREAD.call_once(|| {
        let _ = std::thread::Builder::new().name("c19-heartbeat".into()).spawn(|| {
            loop {
                std::thread::sleep(BEAT);
                BEATS.fetch_add(1, Ordering::Relaxed);
            }
        });
    });
}

#[derive(Clone, Copy)]
pub struct Watch(u64);

impl Watch {
    pub fn start() -> Watch {
        heartbeat_start();
        Watch(BEATS.load(Ordering::Relaxed))
    }
    pub fn expired(&self) -> bool {
        BEATS.load(Ordering::Relaxed).saturating_sub(self.0) >= WATCHDOG_BEATS
    }
    /// how long to block before looking at the watch again
    pub const SLICE: Duration = Duration::from_millis(200);
}

#[derive(Clone, Copy, PartialEq, Eq, Debug, Hash, PartialOrd, Ord)]
pub enum Out {
    Refused = 0,
    AcceptClose = 1,
    IdleClose = 2,
    Silent = 3,
    Malformed = 4,
    AppErr = 5,
    Success = 6,
}

pub const ALPHABET: [Out; 7] = [
    Out::Refused,
    Out::AcceptClose,
    Out::IdleClose,
    Out::Silent,
    Out::Malformed,
    Out::AppErr,
    Out::Success,
];

impl Out {
    pub fn letter(self) -> &'static str {
        match self {
            Out::Refused => "R",
            Out::AcceptClose => "A",
            Out::IdleClose => "I",
            Out::Silent => "T",
            Out::Malformed => "M",
            Out::AppErr => "E",
            Out::Success => "S",
        }
    }
    pub fn name(self) -> &'static str {
        match self {
            Out::Refused => "refused",
            Out::AcceptClose => "accepted-then-closed",
            Out::IdleClose => "closed-while-idle",
            Out::Silent => "silent-until-timeout",
            Out::Malformed => "malformed-reply",
            Out::AppErr => "application-error",
            Out::Success => "success",
        }
    }
    pub fn from_letter(s: &str) -> Option<Out> {
        ALPHABET.iter().copied().find(|o| o.letter() == s)
    }
    /// The node answered with a well-formed response.
    pub fn is_reply(self) -> bool {
        matches!(self, Out::Success | Out::IdleClose | Out::AppErr)
    }
}

/// How a malformed reply is malformed (sub-variant of `Out::Malformed`).
#[derive(Clone, Copy, PartialEq, Eq, Debug)]
pub enum Garbage {
    /// header with a wrong spec magic
    BadSpec,
    /// header whose `length` disagrees with 48 + query + body
    BadLength,
    /// a correctly framed SUCCESS response (valid header, the request's id, ec 0, JSON body format) whose JSON
    /// document ends early: the node did reply, the reply just cannot be decoded
    TruncatedJson,
    /// the same with a zero-length body
    EmptyJson,
}

impl Garbage {
    pub fn name(self) -> &'static str {
        match self {
            Garbage::BadSpec => "bad-spec",
            Garbage::BadLength => "bad-length",
            Garbage::TruncatedJson => "truncated-json-body",
            Garbage::EmptyJson => "empty-json-body",
        }
    }
    pub fn parse(s: &str) -> Option<Garbage> {
        [Garbage::BadSpec, Garbage::BadLength, Garbage::TruncatedJson, Garbage::EmptyJson].into_iter().find(|g| g.name() == s)
    }
    /// The "malformed reply" is a well-formed response frame (only its body does not decode).
    pub fn is_reply_frame(self) -> bool {
        matches!(self, Garbage::TruncatedJson | Garbage::EmptyJson)
    }
}

/// What the node really did for one attempt.
#[derive(Clone, Copy, PartialEq, Eq, Debug)]
pub enum Realized {
    /// listener not listening when the fleet called connect
    Refused,
    /// "refused" was due while the fleet still used a live connection: the node
    /// went down by resetting that connection without reading the request
    DownReset,
    /// request arrived, connection closed without reading it (RST)
    Reset,
    /// request read, nothing sent
    Silent,
    /// request read, garbage sent
    Garbage,
    /// request read, a well-formed success response sent whose JSON body cannot be decoded
    ReplyUndecodable,
    /// request read, error response sent
    ReplyErr { code: u32 },
    /// request read, normal response sent
    ReplyOk,
}

#[derive(Clone, Debug)]
pub struct Attempt {
    pub serial: u64,
    pub call: u64,
    pub outcome: Out,
    pub realized: Realized,
    /// 0 for a refused connect, else the node's connection number
    pub conn: u64,
    /// first request on its connection
    pub fresh_conn: bool,
    /// came from the script (false: default healthy answer)
    pub scripted: bool,
}

struct St {
    script: VecDeque<Out>,
    listening: bool,
    stop: bool,
    /// the node is dead: every connect is refused (and recorded) until revived
    dead: bool,
    cur_call: u64,
    serial: u64,
    attempts: Vec<Attempt>,
    conns: BTreeMap<u64, TcpStream>,
    conn_requests: BTreeMap<u64, u64>,
    /// last request on the connection got a well-formed answer (so a fleet that
    /// caches connections certainly still holds it)
    conn_answered: BTreeMap<u64, bool>,
    next_conn: u64,
    connects_seen: u64,
    accepted: u64,
    /// a connection was killed since the last `begin_call` in a way that leaves
    /// a fleet that still caches its client with a dead one
    excuse: bool,
    last_failure: Option<Out>,
    idle_closes: u64,
    errors: Vec<String>,
    /// timing disturbances (not errors): the run has to be repeated
    anomalies: Vec<String>,
    handlers: Vec<std::thread::JoinHandle<()>>,
}

pub struct Shared {
    pub name: String,
    pub port: u16,
    garbage: Garbage,
    /// error code of every scripted application-error reply (0: alternate 4096 / 6)
    err_code: u32,
    listener: TcpListener,
    st: Mutex<St>,
    cv: Condvar,
}

pub struct FakeNode {
    pub sh: Arc<Shared>,
    acceptor: Option<std::thread::JoinHandle<()>>,
}

pub struct CallStart {
    pub excused: bool,
    pub remaining: Vec<Out>,
    pub last_failure: Option<Out>,
    pub live_conns: usize,
}

// ---------------------------------------------------------------------------
// connect(2) seam

static HOOK_ACTIVE: AtomicBool = AtomicBool::new(false);
static REGISTRY: Mutex<BTreeMap<u16, Arc<Shared>>> = Mutex::new(BTreeMap::new());

fn registry() -> std::sync::MutexGuard<'static, BTreeMap<u16, Arc<Shared>>> {
    REGISTRY.lock().unwrap_or_else(|p| p.into_inner())
}

/// Link-time interposer for `connect(2)`. Transparent (one relaxed atomic load,
/// then the raw system call) unless C19 registered a fake node on the target
/// port of 127.0.0.1.
#[unsafe(no_mangle)]
pub unsafe extern "C" fn connect(
    fd: libc::c_int,
    addr: *const libc::sockaddr,
    len: libc::socklen_t,
) -> libc::c_int {
    if HOOK_ACTIVE.load(Ordering::Relaxed)
        && !addr.is_null()
        && len as usize >= std::mem::size_of::<libc::sockaddr_in>()
    {
        let sa = unsafe { &*(addr as *const libc::sockaddr_in) };
        if sa.sin_family == libc::AF_INET as libc::sa_family_t
            && u32::from_be(sa.sin_addr.s_addr) == 0x7f00_0001
        {
            let port = u16::from_be(sa.sin_port);
            let node = registry().get(&port).cloned();
            if let Some(node) = node {
                node.on_connect();
            }
        }
    }
    unsafe { libc::syscall(libc::SYS_connect, fd, addr, len) as libc::c_int }
}

/// True when the interposer really sits in front of `std::net`/`tokio` connects
/// (checked once per run with a probe node; a vacuous seam is a machinery error).
pub fn seam_works() -> Result<(), String> {
    let node = FakeNode::start("probe", vec![], Garbage::BadSpec, 0)?;
    let before = node.sh.lock().connects_seen;
    let c = TcpStream::connect(("127.0.0.1", node.sh.port)).map_err(|e| e.to_string())?;
    drop(c);
    let after = node.sh.lock().connects_seen;
    node.stop();
    if after == before + 1 {
        Ok(())
    } else {
        Err(format!("connect interposer not in effect (saw {} connects)", after - before))
    }
}

// ---------------------------------------------------------------------------

/// Port allocation is serialised within the process: SO_REUSEPORT would let two
/// of our own nodes that drew the same free port in the same instant share it.
static PORT_ALLOC: Mutex<()> = Mutex::new(());

/// Ports outside the kernel's ephemeral range (32768..), used when that range has
/// no free port left: every connection the fleet closes leaves its ephemeral port
/// in TIME_WAIT for a minute, and `bind(0)` will not hand out such a port, so a
/// few runs in quick succession (or in parallel) can use the range up. An
/// explicitly chosen port below the range is never taken by an outgoing
/// connection.
const PRIVATE_PORTS: std::ops::Range<u32> = 12000..32000;
static PRIVATE_NEXT: std::sync::atomic::AtomicU32 = std::sync::atomic::AtomicU32::new(0);
pub static PRIVATE_PORTS_USED: std::sync::atomic::AtomicU64 = std::sync::atomic::AtomicU64::new(0);

/// Bind exclusively (no SO_REUSEPORT yet, so the kernel refuses a port that any
/// live socket or any remnant of an earlier node still holds, in this process or
/// another), then set SO_REUSEPORT for the children and the later re-listens.
fn bind_private_port() -> Result<(TcpListener, u16), String> {
    let span = PRIVATE_PORTS.end - PRIVATE_PORTS.start;
    let seed = std::process::id().wrapping_mul(7919);
    for _ in 0..span {
        let k = PRIVATE_NEXT.fetch_add(1, Ordering::Relaxed);
        let port = (PRIVATE_PORTS.start + (seed.wrapping_add(k)) % span) as u16;
        unsafe {
            let fd = libc::socket(libc::AF_INET, libc::SOCK_STREAM | libc::SOCK_CLOEXEC, 0);
            if fd < 0 {
                return Err(format!("socket: {}", std::io::Error::last_os_error()));
            }
            let sa = sockaddr(port);
            if libc::bind(fd, &sa as *const _ as *const libc::sockaddr, sa_len()) != 0 {
                libc::close(fd);
                continue;
            }
            let one: libc::c_int = 1;
            libc::setsockopt(
                fd,
                libc::SOL_SOCKET,
                libc::SO_REUSEPORT,
                &one as *const _ as *const libc::c_void,
                std::mem::size_of::<libc::c_int>() as libc::socklen_t,
            );
            PRIVATE_PORTS_USED.fetch_add(1, Ordering::Relaxed);
            return Ok((TcpListener::from_raw_fd(fd), port));
        }
    }
    Err(format!("no free port in {PRIVATE_PORTS:?} either"))
}

fn new_bound_socket() -> Result<(TcpListener, u16), String> {
    let _one_at_a_time = PORT_ALLOC.lock().unwrap_or_else(|p| p.into_inner());
    if std::env::var_os("C19_PRIVATE_PORTS").is_some() {
        return bind_private_port();
    }
    for _ in 0..64 {
        // find a free port
        let port = unsafe {
            let fd = libc::socket(libc::AF_INET, libc::SOCK_STREAM | libc::SOCK_CLOEXEC, 0);
            if fd < 0 {
                return Err(format!("socket: {}", std::io::Error::last_os_error()));
            }
            let sa = sockaddr(0);
            if libc::bind(fd, &sa as *const _ as *const libc::sockaddr, sa_len()) != 0 {
                let e = std::io::Error::last_os_error();
                libc::close(fd);
                if e.raw_os_error() == Some(libc::EADDRINUSE) {
                    // the ephemeral range is used up (TIME_WAIT remnants)
                    return bind_private_port();
                }
                return Err(format!("bind(0): {e}"));
            }
            let mut out: libc::sockaddr_in = std::mem::zeroed();
            let mut l = sa_len();
            let r = libc::getsockname(fd, &mut out as *mut _ as *mut libc::sockaddr, &mut l);
            let e = std::io::Error::last_os_error();
            libc::close(fd);
            if r != 0 {
                return Err(format!("getsockname: {e}"));
            }
            u16::from_be(out.sin_port)
        };
        // bind explicitly: an explicit port keeps its reservation across un-listen
        unsafe {
            let fd = libc::socket(libc::AF_INET, libc::SOCK_STREAM | libc::SOCK_CLOEXEC, 0);
            if fd < 0 {
                return Err(format!("socket: {}", std::io::Error::last_os_error()));
            }
            // Bind exclusively first: without SO_REUSEPORT the kernel refuses the port if
            // anybody else got hold of it since the probe was closed (with the option set
            // before bind(), another process of this same harness that was handed the same
            // free port in the same instant -- likely when the ephemeral range is almost
            // used up -- would silently share the port, and the two fake nodes would see
            // each other's connections).
            let sa = sockaddr(port);
            if libc::bind(fd, &sa as *const _ as *const libc::sockaddr, sa_len()) != 0 {
                libc::close(fd);
                continue; // somebody took it in between; try another
            }
            // SO_REUSEPORT (and not SO_REUSEADDR), set once the port is ours: listen() can
            // be re-entered while accepted children or their TIME_WAIT remnants share the
            // port (they inherit the option), and nobody who does not set the
            // option too (same uid) can bind the port while we do not listen
            let one: libc::c_int = 1;
            libc::setsockopt(
                fd,
                libc::SOL_SOCKET,
                libc::SO_REUSEPORT,
                &one as *const _ as *const libc::c_void,
                std::mem::size_of::<libc::c_int>() as libc::socklen_t,
            );
            return Ok((TcpListener::from_raw_fd(fd), port));
        }
    }
    // the few free ephemeral ports keep being taken by others: leave the range
    bind_private_port()
}

fn sockaddr(port: u16) -> libc::sockaddr_in {
    let mut sa: libc::sockaddr_in = unsafe { std::mem::zeroed() };
    sa.sin_family = libc::AF_INET as libc::sa_family_t;
    sa.sin_port = port.to_be();
    sa.sin_addr.s_addr = 0x7f00_0001u32.to_be();
    sa
}

fn sa_len() -> libc::socklen_t {
    std::mem::size_of::<libc::sockaddr_in>() as libc::socklen_t
}

impl Shared {
    fn lock(&self) -> std::sync::MutexGuard<'_, St> {
        self.st.lock().unwrap_or_else(|p| p.into_inner())
    }

    fn set_listening(&self, st: &mut St, on: bool) {
        if st.listening == on {
            return;
        }
        let fd = self.listener.as_raw_fd();
        let r = unsafe {
            if on {
                libc::listen(fd, 64)
            } else {
                libc::shutdown(fd, libc::SHUT_RD)
            }
        };
        if r != 0 {
            st.errors.push(format!(
                "{} listener -> {}: {}",
                self.name,
                if on { "listen" } else { "un-listen" },
                std::io::Error::last_os_error()
            ));
        }
        st.listening = on;
        self.cv.notify_all();
    }

    /// The fleet is about to connect to this node.
    fn on_connect(&self) {
        let mut st = self.lock();
        if st.stop {
            return;
        }
        st.connects_seen += 1;
        if st.dead {
            // a dead node refuses every connect, without consuming the script
            st.serial += 1;
            let a = Attempt {
                serial: st.serial,
                call: st.cur_call,
                outcome: Out::Refused,
                realized: Realized::Refused,
                conn: 0,
                fresh_conn: false,
                scripted: false,
            };
            st.attempts.push(a);
            st.last_failure = Some(Out::Refused);
            self.set_listening(&mut st, false);
        } else if st.script.front() == Some(&Out::Refused) {
            st.script.pop_front();
            st.serial += 1;
            let a = Attempt {
                serial: st.serial,
                call: st.cur_call,
                outcome: Out::Refused,
                realized: Realized::Refused,
                conn: 0,
                fresh_conn: false,
                scripted: true,
            };
            st.attempts.push(a);
            st.last_failure = Some(Out::Refused);
            self.set_listening(&mut st, false);
        } else {
            self.set_listening(&mut st, true);
        }
    }

    /// A complete request is waiting unread on `conn`: decide its outcome.
    /// `dead_conn`: this connection already left a request unanswered (silent-until-timeout).
    /// Such a connection stays silent for the rest of its life, like a half-open socket or a
    /// wedged per-connection worker: requests that a fleet keeps sending on it are attempts
    /// that time out again, without consuming a scripted outcome.
    fn next_for_request(&self, conn: u64, req_call: Option<u64>, dead_conn: bool) -> (Out, Realized, u64) {
        let mut st = self.lock();
        if req_call != Some(st.cur_call) {
            // the request of an earlier call surfaced only now (its call has
            // already timed out and returned): the run is timing-disturbed
            let cur = st.cur_call;
            st.anomalies.push(format!("request of call {req_call:?} arrived during call {cur}"));
        }
        let (outcome, scripted) = if dead_conn {
            (Out::Silent, false)
        } else {
            match st.script.pop_front() {
                Some(o) => (o, true),
                None => (Out::Success, false),
            }
        };
        st.serial += 1;
        let serial = st.serial;
        let realized = match outcome {
            Out::Refused => Realized::DownReset,
            Out::AcceptClose => Realized::Reset,
            Out::Silent => Realized::Silent,
            Out::Malformed if self.garbage.is_reply_frame() => Realized::ReplyUndecodable,
            Out::Malformed => Realized::Garbage,
            Out::AppErr => Realized::ReplyErr {
                code: match self.err_code {
                    0 => if serial % 2 == 0 { 4096 } else { 6 },
                    c => c,
                },
            },
            Out::Success | Out::IdleClose => Realized::ReplyOk,
        };
        let n = st.conn_requests.entry(conn).or_insert(0);
        *n += 1;
        let fresh = *n == 1;
        let a = Attempt {
            serial,
            call: st.cur_call,
            outcome,
            realized,
            conn,
            fresh_conn: fresh,
            scripted,
        };
        st.attempts.push(a);
        st.conn_answered.insert(conn, outcome.is_reply());
        // A failure the fleet OBSERVES inside an attempt (refused connect, reset, timeout, malformed
        // reply) earns no excuse: the fleet knows that connection is bad, so "a later attempt or call
        // reconnects and succeeds once the node is reachable again" applies to the very next one.
        // Only a connection the node kills while no attempt is in flight (`idle_close`) excuses one
        // failed attempt, because the fleet cannot have known.
        match outcome {
            Out::Refused => {
                st.last_failure = Some(Out::Refused);
                self.set_listening(&mut st, false);
            }
            Out::AcceptClose => st.last_failure = Some(Out::AcceptClose),
            Out::Silent => st.last_failure = Some(Out::Silent),
            Out::Malformed => st.last_failure = Some(Out::Malformed),
            _ => {}
        }
        (outcome, realized, serial)
    }

    fn conn_gone(&self, conn: u64) {
        let mut st = self.lock();
        st.conns.remove(&conn);
        self.cv.notify_all();
    }

    fn err(&self, msg: String) {
        self.lock().errors.push(msg);
    }

    pub fn reply_value(&self, serial: u64) -> serde_json::Value {
        serde_json::json!({"node": self.name, "serial": serial})
    }

    pub fn error_message(&self, serial: u64) -> String {
        format!("scripted application error #{serial} at {}", self.name)
    }
}

enum Req {
    /// total length, header, call number carried in the query
    Ready(usize, Hdr, Option<u64>),
    Closed,
}

/// Wait (without consuming anything) until one whole request frame is readable.
fn wait_request(sh: &Shared, s: &TcpStream) -> Req {
    let mut buf = [0u8; 2048];
    let mut partial_since: Option<Watch> = None;
    loop {
        match s.peek(&mut buf) {
            Ok(0) => return Req::Closed,
            Ok(n) => {
                if let Some(h) = Hdr::decode_raw(&buf[..n]) {
                    match h.consistent_total() {
                        Some(t) if t as usize <= buf.len() => {
                            if n >= t as usize {
                                let q = &buf[HEADER..HEADER + h.query_length as usize];
                                let call = std::str::from_utf8(q)
                                    .ok()
                                    .and_then(|q| q.rsplit('/').next())
                                    .and_then(|c| c.parse::<u64>().ok());
                                return Req::Ready(t as usize, h, call);
                            }
                        }
                        _ => {
                            sh.err(format!("unexpected request header from the fleet: {h:?}"));
                            return Req::Closed;
                        }
                    }
                }
                // part of a frame: its remainder is already in flight
                let w = *partial_since.get_or_insert_with(Watch::start);
                if w.expired() {
                    sh.err("partial request never completed".into());
                    return Req::Closed;
                }
                std::thread::yield_now();
            }
            Err(e) if e.kind() == std::io::ErrorKind::Interrupted => {}
            Err(_) => return Req::Closed,
        }
    }
}

fn handle_conn(sh: Arc<Shared>, conn: u64, mut s: TcpStream) {
    let mut dead_conn = false;
    loop {
        let (total, req_call) = match wait_request(&sh, &s) {
            Req::Ready(t, _, c) => (t, c),
            Req::Closed => break,
        };
        let (outcome, realized, serial) = sh.next_for_request(conn, req_call, dead_conn);
        if matches!(realized, Realized::Silent) {
            dead_conn = true;
        }
        if matches!(realized, Realized::Reset | Realized::DownReset) {
            // close with the request unread: the kernel answers with RST
            sh.conn_gone(conn);
            drop(s);
            return;
        }
        let mut raw = vec![0u8; total];
        if s.read_exact(&mut raw).is_err() {
            sh.err("request vanished between peek and read".into());
            break;
        }
        let req = match crate::frames::parse_one(&raw) {
            Ok(Some((f, _))) => f,
            _ => {
                sh.err("request does not parse".into());
                break;
            }
        };
        let reply: Option<Vec<u8>> = match realized {
            Realized::Silent => None,
            Realized::ReplyOk => {
                let body = serde_json::to_vec(&sh.reply_value(serial)).unwrap();
                let h = Hdr { version: 1, id: req.h.id, query_format: 1, body_format: 2, ..Default::default() };
                Some(Frame::new(h, &req.query, &body).to_bytes())
            }
            Realized::ReplyErr { code } => {
                let body = sh.error_message(serial).into_bytes();
                let h = Hdr { version: 1, id: req.h.id, query_format: 1, body_format: 3, ec: code, ..Default::default() };
                Some(Frame::new(h, &req.query, &body).to_bytes())
            }
            Realized::ReplyUndecodable => {
                let body: &[u8] = if sh.garbage == Garbage::EmptyJson { b"" } else { br#"{"status": "ok", "items": [1, 2"# };
                let h = Hdr { version: 1, id: req.h.id, query_format: 1, body_format: 2, ..Default::default() };
                Some(Frame::new(h, &req.query, body).to_bytes())
            }
            Realized::Garbage => {
                let body = b"{}".to_vec();
                let h = Hdr { version: 1, id: req.h.id, query_format: 1, body_format: 2, ..Default::default() };
                let mut f = Frame::new(h, &req.query, &body);
                match sh.garbage {
                    Garbage::BadSpec => f.h.spec = 0x0715,
                    Garbage::BadLength => f.h.length += 7,
                    Garbage::TruncatedJson | Garbage::EmptyJson => unreachable!(),
                }
                Some(f.to_bytes())
            }
            _ => unreachable!(),
        };
        let _ = outcome;
        if let Some(bytes) = reply {
            if s.write_all(&bytes).and_then(|_| s.flush()).is_err() {
                // the fleet went away before the answer (it may, after a timeout)
                break;
            }
        }
    }
    sh.conn_gone(conn);
}

fn accept_loop(sh: Arc<Shared>) {
    loop {
        {
            let mut st = sh.lock();
            while !st.listening && !st.stop {
                st = sh.cv.wait(st).unwrap_or_else(|p| p.into_inner());
            }
            if st.stop {
                return;
            }
        }
        match sh.listener.accept() {
            Ok((s, _)) => {
                let _ = s.set_nodelay(true);
                let mut st = sh.lock();
                if st.stop {
                    return;
                }
                st.accepted += 1;
                st.next_conn += 1;
                let conn = st.next_conn;
                match s.try_clone() {
                    Ok(c) => {
                        st.conns.insert(conn, c);
                        sh.cv.notify_all();
                    }
                    Err(e) => {
                        st.errors.push(format!("try_clone: {e}"));
                        continue;
                    }
                }
                let sh2 = sh.clone();
                match std::thread::Builder::new()
                    .name(format!("c19-conn-{}", sh.port))
                    .stack_size(256 * 1024)
                    .spawn(move || handle_conn(sh2, conn, s))
                {
                    Ok(h) => st.handlers.push(h),
                    Err(e) => st.errors.push(format!("spawn: {e}")),
                }
            }
            Err(e) => {
                // EINVAL: the socket was taken out of LISTEN while we waited
                let st = sh.lock();
                if st.stop {
                    return;
                }
                if e.raw_os_error() != Some(libc::EINVAL)
                    && e.kind() != std::io::ErrorKind::Interrupted
                    && e.kind() != std::io::ErrorKind::ConnectionAborted
                {
                    drop(st);
                    sh.err(format!("accept: {e}"));
                    std::thread::sleep(Duration::from_millis(1));
                }
            }
        }
    }
}

impl FakeNode {
    pub fn start(name: &str, script: Vec<Out>, garbage: Garbage, err_code: u32) -> Result<FakeNode, String> {
        let (listener, port) = new_bound_socket()?;
        let sh = Arc::new(Shared {
            name: name.to_string(),
            port,
            garbage,
            err_code,
            listener,
            st: Mutex::new(St {
                script: script.into(),
                listening: false,
                stop: false,
                dead: false,
                cur_call: 0,
                serial: 0,
                attempts: Vec::new(),
                conns: BTreeMap::new(),
                conn_requests: BTreeMap::new(),
                conn_answered: BTreeMap::new(),
                next_conn: 0,
                connects_seen: 0,
                accepted: 0,
                excuse: false,
                last_failure: None,
                idle_closes: 0,
                errors: Vec::new(),
                anomalies: Vec::new(),
                handlers: Vec::new(),
            }),
            cv: Condvar::new(),
        });
        {
            // listening unless the very first attempt is to be refused
            let mut st = sh.lock();
            let on = st.script.front() != Some(&Out::Refused);
            sh.set_listening(&mut st, on);
        }
        registry().insert(port, sh.clone());
        HOOK_ACTIVE.store(true, Ordering::SeqCst);
        let sh2 = sh.clone();
        let acceptor = std::thread::Builder::new()
            .name(format!("c19-accept-{port}"))
            .stack_size(256 * 1024)
            .spawn(move || accept_loop(sh2))
            .map_err(|e| format!("spawn acceptor: {e}"))?;
        Ok(FakeNode { sh, acceptor: Some(acceptor) })
    }

    pub fn port(&self) -> u16 {
        self.sh.port
    }

    /// Append outcomes to the script (used to take a healthy node down).
    pub fn sh_push(&self, more: Vec<Out>) {
        self.sh.lock().script.extend(more);
    }

    pub fn remaining(&self) -> usize {
        self.sh.lock().script.len()
    }

    /// Replace what is left of the script (the listening state follows at the
    /// next `begin_call` / connect).
    pub fn set_script(&self, script: Vec<Out>) -> usize {
        let mut st = self.sh.lock();
        let dropped = st.script.len();
        st.script = script.into();
        dropped
    }

    /// Dead: every connect is refused and recorded as a refused attempt, for as
    /// long as it lasts (established connections die at the next `begin_call`).
    pub fn set_dead(&self, dead: bool) {
        self.sh.lock().dead = dead;
    }

    /// The fleet has just been told to connect (connect_all /
    /// reconnect_disconnected) and has returned: wait until every connect that
    /// was not refused has been accepted, then record that the fleet holds the
    /// connections on which no request has travelled yet (so that killing one
    /// while idle excuses one failed attempt, exactly as for a connection whose
    /// last request was answered). Returns how many such connections there are.
    pub fn mark_held(&self) -> Result<usize, String> {
        let sh = &self.sh;
        let mut st = sh.lock();
        let w = Watch::start();
        loop {
            let refused = st.attempts.iter().filter(|a| a.realized == Realized::Refused).count() as u64;
            if st.accepted + refused >= st.connects_seen {
                break;
            }
            if w.expired() {
                return Err(format!(
                    "{}: {} connects seen, {} refused, only {} accepted",
                    sh.name, st.connects_seen, refused, st.accepted
                ));
            }
            let (g, _) = sh.cv.wait_timeout(st, Duration::from_millis(20)).unwrap_or_else(|p| p.into_inner());
            st = g;
        }
        let unused: Vec<u64> = st.conns.keys().copied().filter(|c| !st.conn_requests.contains_key(c)).collect();
        for c in &unused {
            st.conn_answered.insert(*c, true);
        }
        Ok(unused.len())
    }

    pub fn live_conns(&self) -> usize {
        self.sh.lock().conns.len()
    }

    /// The fleet has just discarded its client(s) for this node (disconnect_all,
    /// a failed health_check, remove_node): wait until the node has seen every
    /// connection end, so that what the node believes the fleet holds does not
    /// depend on how fast the fleet's side closes. false = still open after the watchdog.
    pub fn wait_conns_gone(&self) -> bool {
        let sh = &self.sh;
        let mut st = sh.lock();
        let w = Watch::start();
        while !st.conns.is_empty() {
            if w.expired() {
                return false;
            }
            let (g, _) = sh.cv.wait_timeout(st, Duration::from_millis(20)).unwrap_or_else(|p| p.into_inner());
            st = g;
        }
        true
    }

    pub fn connects_seen(&self) -> u64 {
        self.sh.lock().connects_seen
    }

    /// Drop what is left of the script: from now on every request is answered
    /// normally and the node listens.
    pub fn set_healthy(&self) -> usize {
        let mut st = self.sh.lock();
        let dropped = st.script.len();
        st.script.clear();
        self.sh.set_listening(&mut st, true);
        dropped
    }

    /// Close every established connection while the fleet is idle: half-close,
    /// wait until the fleet's side has reacted with its own FIN (so its reader
    /// has seen the EOF), then close. `Err` = the fleet never reacted.
    fn idle_close(&self) -> Result<usize, String> {
        let sh = &self.sh;
        let mut st = sh.lock();
        let n = st.conns.len();
        if n == 0 {
            return Ok(0);
        }
        // Only a connection whose last request was answered is certainly still
        // held by the fleet; one that ended silent or malformed may be on its
        // way out already (the fleet closes it asynchronously), so whether it
        // is still here is a race and nothing is recorded for it.
        let answered = st.conns.keys().filter(|c| st.conn_answered.get(c).copied().unwrap_or(false)).count();
        for c in st.conns.values() {
            let _ = c.shutdown(Shutdown::Write);
        }
        let w = Watch::start();
        while !st.conns.is_empty() {
            if w.expired() {
                return Err(format!(
                    "{}: fleet never closed its side of {} half-closed idle connection(s)",
                    sh.name,
                    st.conns.len()
                ));
            }
            let (g, _) = sh.cv.wait_timeout(st, Watch::SLICE).unwrap_or_else(|p| p.into_inner());
            st = g;
        }
        if answered > 0 {
            st.excuse = true;
            st.last_failure = Some(Out::IdleClose);
            st.idle_closes += 1;
        }
        Ok(answered)
    }

    /// Called by the harness right before a fleet call (no attempt in flight).
    pub fn begin_call(&self, call: u64) -> Result<CallStart, String> {
        let down = {
            let mut st = self.sh.lock();
            st.cur_call = call;
            let down = st.dead || st.script.front() == Some(&Out::Refused);
            if down {
                self.sh.set_listening(&mut st, false);
            }
            down
        };
        if down {
            // the node is down: established connections die with it
            self.idle_close()?;
        }
        let mut st = self.sh.lock();
        let cs = CallStart {
            excused: st.excuse,
            remaining: st.script.iter().copied().collect(),
            last_failure: st.last_failure,
            live_conns: st.conns.len(),
        };
        st.excuse = false;
        Ok(cs)
    }

    /// Called right after the fleet call returned: the attempts it made here.
    pub fn end_call(&self, call: u64) -> Result<Vec<Attempt>, String> {
        let (atts, idle) = {
            let st = self.sh.lock();
            let atts: Vec<Attempt> = st.attempts.iter().filter(|a| a.call == call).cloned().collect();
            let idle = atts.iter().any(|a| a.outcome == Out::IdleClose);
            (atts, idle)
        };
        if idle {
            self.idle_close()?;
        }
        Ok(atts)
    }

    pub fn attempts_total(&self) -> usize {
        self.sh.lock().attempts.len()
    }

    pub fn stats(&self) -> (u64, u64, u64) {
        let st = self.sh.lock();
        (st.connects_seen, st.accepted, st.idle_closes)
    }

    /// Snapshot for diagnostics (hung calls).
    pub fn debug_state(&self) -> String {
        let st = self.sh.lock();
        format!(
            "listening={} connects_seen={} accepted={} live_conns={:?} script_left={} attempts={} cur_call={}",
            st.listening,
            st.connects_seen,
            st.accepted,
            st.conns.keys().collect::<Vec<_>>(),
            st.script.len(),
            st.attempts.len(),
            st.cur_call
        )
    }

    pub fn anomalies(&self) -> Vec<String> {
        self.sh.lock().anomalies.clone()
    }

    pub fn errors(&self) -> Vec<String> {
        self.sh.lock().errors.clone()
    }

    pub fn stop(mut self) {
        self.stop_inner();
    }

    fn stop_inner(&mut self) {
        let sh = &self.sh;
        registry().remove(&sh.port);
        let handlers = {
            let mut st = sh.lock();
            st.stop = true;
            // wake a blocked accept (EINVAL) and every blocked handler (EOF)
            unsafe { libc::shutdown(sh.listener.as_raw_fd(), libc::SHUT_RD) };
            st.listening = false;
            for c in st.conns.values() {
                let _ = c.shutdown(Shutdown::Both);
            }
            sh.cv.notify_all();
            std::mem::take(&mut st.handlers)
        };
        if let Some(a) = self.acceptor.take() {
            let _ = a.join();
        }
        for h in handlers {
            let _ = h.join();
        }
        // handlers spawned between the two steps above
        let late = std::mem::take(&mut sh.lock().handlers);
        for h in late {
            let _ = h.join();
        }
    }
}

impl Drop for FakeNode {
    fn drop(&mut self) {
        if self.acceptor.is_some() {
            self.stop_inner();
        }
    }
}

#[allow(dead_code)]
pub fn header_len() -> usize {
    HEADER
}
