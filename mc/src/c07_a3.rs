//! C07 / A3 — the segments a mounted struct sees are the RFC 6901 unescaped
//! reference tokens of the remaining path, for any depth.

use super::{Backing, Totals, Via, invoke, request, rfc6901};
use crate::ctx::Tier;
use crate::par;
use repe::server::Router;
use repe::{RepeStruct, StructError};
use serde::{Deserialize, Serialize};
use serde_json::{Value, json};
use std::collections::BTreeSet;
use std::sync::{Arc, Mutex};

/// token alphabet: the design's five plus "~01" (which must decode to "~1", not
/// "/": it separates a left-to-right unescape from `~0`-first replacement)
pub(crate) const TOKENS: [&str; 6] = ["", "a", "~0", "~1", "x~1y~0", "~01"];
const MAX_DEPTH: usize = 40;

#[derive(Default, Serialize, Deserialize)]
struct Rec {
    #[serde(skip)]
    log: Arc<Mutex<Vec<Vec<String>>>>,
}

impl RepeStruct for Rec {
    fn repe_handle(&mut self, segments: &[&str], _body: Option<Value>) -> Result<Option<Value>, StructError> {
        self.log.lock().unwrap().push(segments.iter().map(|s| s.to_string()).collect());
        Ok(Some(json!(segments)))
    }
}

/// `#[derive(RepeStruct)]` outer type: `/rec/<rest>` must hand `<rest>`'s tokens
/// to the nested recorder.
#[derive(Default, Serialize, Deserialize, repe::RepeStruct)]
struct Outer {
    #[repe(nested)]
    rec: Rec,
    plain: i64,
}

#[derive(Clone, Copy, PartialEq, Eq, Debug)]
enum Mount {
    Root,
    Prefix,
    Derive,
}
const MOUNTS: [Mount; 3] = [Mount::Root, Mount::Prefix, Mount::Derive];

impl Mount {
    fn name(self) -> &'static str {
        match self {
            Mount::Root => "manual-struct-at-root",
            Mount::Prefix => "manual-struct-at-/m",
            Mount::Derive => "derive-nested-at-/d/rec",
        }
    }
    fn path_prefix(self) -> &'static str {
        match self {
            Mount::Root => "",
            Mount::Prefix => "/m",
            Mount::Derive => "/d/rec",
        }
    }
}

struct World {
    routers: Vec<(Router, Arc<Mutex<Vec<Vec<String>>>>)>,
    backing: Backing,
}

impl World {
    fn new() -> World {
        let mut routers = Vec::new();
        for m in MOUNTS {
            let log = Arc::new(Mutex::new(Vec::new()));
            let rec = Rec { log: Arc::clone(&log) };
            let router = match m {
                Mount::Root => Router::new().with_struct("", rec).0,
                Mount::Prefix => Router::new().with_struct("/m", rec).0,
                Mount::Derive => Router::new().with_struct("/d", Outer { rec, plain: 0 }).0,
            };
            routers.push((router, log));
        }
        World { routers, backing: Backing::new() }
    }
}

fn join(tokens: &[&str]) -> String {
    let mut s = String::new();
    for t in tokens {
        s.push('/');
        s.push_str(t);
    }
    s
}

/// The remaining paths of the bound, de-duplicated, in canonical order.
fn remaining_paths(tier: Tier) -> Vec<String> {
    let mut out = Vec::new();
    let mut seen = BTreeSet::new();
    let mut push = |s: String| {
        if seen.insert(s.clone()) {
            out.push(s);
        }
    };
    // depth 0..=D exhaustively over the token alphabet
    let exhaustive_depth = tier.pick(4, 6);
    for d in 0..=exhaustive_depth {
        let n = par::pow(TOKENS.len() as u64, d as u32);
        let mut digits = Vec::new();
        for i in 0..n {
            par::digits(i, TOKENS.len() as u64, d, &mut digits);
            let toks: Vec<&str> = digits.iter().map(|x| TOKENS[*x as usize]).collect();
            push(join(&toks));
        }
    }
    // depth 5..=40: all plain; each token at each position, others plain
    // ("a" everywhere, and position-distinct plain tokens "s<i>")
    let distinct: Vec<String> = (0..MAX_DEPTH).map(|i| format!("s{i}")).collect();
    for d in 5..=MAX_DEPTH {
        for fill in 0..2 {
            let base: Vec<&str> = (0..d).map(|i| if fill == 0 { "a" } else { distinct[i].as_str() }).collect();
            push(join(&base));
            for pos in 0..d {
                for tok in TOKENS {
                    let mut t = base.clone();
                    t[pos] = tok;
                    push(join(&t));
                }
            }
        }
    }
    if tier == Tier::Thorough {
        // every pair of positions x every pair of special tokens, others plain
        let special = ["", "~0", "~1", "x~1y~0", "~01"];
        for d in 5..=MAX_DEPTH {
            let base: Vec<&str> = (0..d).map(|i| distinct[i].as_str()).collect();
            for p1 in 0..d {
                for p2 in p1 + 1..d {
                    for t1 in special {
                        for t2 in special {
                            let mut t = base.clone();
                            t[p1] = t1;
                            t[p2] = t2;
                            push(join(&t));
                        }
                    }
                }
            }
        }
    }
    out
}

pub(crate) fn bound(tier: Tier, t: &Totals) -> Value {
    json!({
        "tokens": TOKENS,
        "exhaustive_depth": tier.pick(4, 6),
        "max_depth": MAX_DEPTH,
        "remaining_paths": t.c.get("enumerated_remaining_paths"),
        "rule": "depth 0..=exhaustive_depth: every token sequence; depth 5..=40: all-plain paths and every token at every position with the others plain (plain = \"a\" and position-distinct \"s<i>\"); thorough adds every pair of positions x pair of special tokens",
        "mounts": MOUNTS.iter().map(|m| m.name()).collect::<Vec<_>>(),
        "dispatch_paths": ["handle", "handle_view"],
    })
}

fn one(mi: usize, rem: &str, w: &mut World, t: &mut Totals, sample: bool) {
    let mount = MOUNTS[mi];
    let Some(expected) = rfc6901(rem) else {
        t.machinery = Some(format!("A3 generated a malformed pointer {rem:?}"));
        return;
    };
    let path = format!("{}{rem}", mount.path_prefix());
    let depth = expected.len();
    // number of segments the mounted struct itself splits (the derive mount's
    // outer struct also sees the leading "rec")
    let split_depth = depth + usize::from(mount == Mount::Derive);
    let case = || json!({"space": "A3", "mount": mi, "mount_name": mount.name(), "remaining_path": rem});
    let (req, wire) = match request(0x0300_0000_0000_0000 | depth as u64, &path, b"", 2) {
        Ok(x) => x,
        Err(e) => {
            t.machinery = Some(e);
            return;
        }
    };
    t.states += 1;
    let (router, log) = &w.routers[mi];
    let Some(h) = router.get(&path) else {
        t.fail(
            format!("C07:A3:{}:path-not-routed", mount.name()),
            format!("get({path:?}) is None; the struct should receive remaining path {rem:?}"),
            case(),
        );
        return;
    };
    // non-vacuity bookkeeping, once per (mount, path)
    let escaped = rem.contains('~');
    t.c.add(&format!("depth={depth}"), 1);
    match (escaped, split_depth > 16) {
        (false, true) => t.c.add("spilled_to_heap_escape_free", 1),
        (false, false) => t.c.add("stayed_on_stack_escape_free", 1),
        (true, true) => t.c.add("escaped_path_deeper_than_16", 1),
        (true, false) => t.c.add("escaped_path_not_deeper_than_16", 1),
    }
    if rem == "/" {
        t.c.add("single_empty_token_path", 1);
    }
    if mount == Mount::Derive {
        t.c.add("via_derive_nested", 1);
    }
    for via in [Via::Handle, Via::View(0)] {
        log.lock().unwrap().clear();
        let r = invoke(h.as_ref(), &req, &wire, &mut w.backing, via);
        t.transitions += 1;
        let r = match r {
            Ok(r) => r,
            Err(p) => {
                t.fail(
                    format!("C07:A3:{}:panic", mount.name()),
                    format!("{} of {path:?} panicked: {p}", via.name()),
                    case(),
                );
                continue;
            }
        };
        let got = std::mem::take(&mut *log.lock().unwrap());
        let class = if split_depth > 16 { "deeper-than-16" } else { "at-most-16" };
        let esc = if escaped { "escaped" } else { "escape-free" };
        if got.len() != 1 {
            t.fail(
                format!("C07:A3:{}:struct-called-{}-times", mount.name(), got.len()),
                format!(
                    "{} of {path:?}: the struct was called {} times (response {}); expected one call with {expected:?}",
                    via.name(),
                    got.len(),
                    r.describe()
                ),
                case(),
            );
            continue;
        }
        if got[0] != expected {
            let what = if got[0].len() != expected.len() { "count" } else { "content" };
            t.fail(
                format!("C07:A3:{}:segments-differ:{what}:{esc}:{class}", mount.name()),
                format!(
                    "{} of {path:?} (remaining {rem:?}, depth {depth}, {split_depth} segments below the mount): struct saw {:?}, RFC 6901 tokens are {expected:?}",
                    via.name(),
                    got[0]
                ),
                case(),
            );
            continue;
        }
        let want = serde_json::to_vec(&json!(expected)).unwrap();
        if r.hdr().ec != 0 || r.body() != want.as_slice() {
            t.fail(
                format!("C07:A3:{}:wrong-answer", mount.name()),
                format!("{} of {path:?}: struct returned its segments but the response is {}", via.name(), r.describe()),
                case(),
            );
        }
    }
    if sample {
        t.samples.push(json!({"space": "A3", "mount": mount.name(), "path": path, "segments_seen_and_expected": expected}));
    }
}

pub(crate) fn sweep(tier: Tier) -> Totals {
    let rems = remaining_paths(tier);
    let n = (rems.len() * MOUNTS.len()) as u64;
    let parts = par::for_each_index(
        n,
        256,
        |_| (Totals::default(), World::new()),
        |st: &mut (Totals, World), i| {
            if st.0.machinery.is_some() {
                return;
            }
            let mi = (i % MOUNTS.len() as u64) as usize;
            let rem = &rems[(i / MOUNTS.len() as u64) as usize];
            let sample = rem == "/~01/x~1y~0" || (mi == 2 && rem.starts_with("/s0/s1/~1/") && rem.ends_with("/s16"));
            st.0.order = i;
            one(mi, rem, &mut st.1, &mut st.0, sample);
        },
    );
    let mut total = Totals::default();
    for (p, _) in parts {
        total.merge(p);
    }
    total.c.add("enumerated_remaining_paths", rems.len() as u64);
    total.expected_states = n;
    total
}

pub(crate) fn replay(case: &Value, t: &mut Totals) -> Result<(), String> {
    let mi = case["mount"].as_u64().ok_or("mount")? as usize;
    if mi >= MOUNTS.len() {
        return Err("mount out of range".into());
    }
    let rem = case["remaining_path"].as_str().ok_or("remaining_path")?;
    let mut w = World::new();
    one(mi, rem, &mut w, t, false);
    Ok(())
}
