//! Independent REPE v1 frame oracle (written from the field table, not from
//! repe's code): 48-byte little-endian header at offsets
//! length 0, spec 8, version 10, notify 11, reserved 12, id 16, query_length 24,
//! body_length 32, query_format 40, body_format 42, ec 44; then query, then body.
#![allow(dead_code)]

pub const HEADER: usize = 48;
pub const SPEC: u16 = 0x1507;
pub const FMT_RAW: u16 = 0;
pub const FMT_BEVE: u16 = 1;
pub const FMT_JSON: u16 = 2;
pub const FMT_UTF8: u16 = 3;

#[derive(Clone, Copy, Debug, PartialEq, Eq, Default, Hash)]
pub struct Hdr {
    pub length: u64,
    pub spec: u16,
    pub version: u8,
    pub notify: u8,
    pub reserved: u32,
    pub id: u64,
    pub query_length: u64,
    pub body_length: u64,
    pub query_format: u16,
    pub body_format: u16,
    pub ec: u32,
}

impl Hdr {
    /// Header for a consistent frame carrying `q` query and `b` body bytes.
    pub fn consistent(q: usize, b: usize) -> Hdr {
        Hdr {
            length: (HEADER + q + b) as u64,
            spec: SPEC,
            version: 1,
            query_length: q as u64,
            body_length: b as u64,
            ..Default::default()
        }
    }
    /// Raw encoding; no consistency is enforced (hostile headers welcome).
    pub fn encode(&self) -> [u8; HEADER] {
        let mut o = [0u8; HEADER];
        o[0..8].copy_from_slice(&self.length.to_le_bytes());
        o[8..10].copy_from_slice(&self.spec.to_le_bytes());
        o[10] = self.version;
        o[11] = self.notify;
        o[12..16].copy_from_slice(&self.reserved.to_le_bytes());
        o[16..24].copy_from_slice(&self.id.to_le_bytes());
        o[24..32].copy_from_slice(&self.query_length.to_le_bytes());
        o[32..40].copy_from_slice(&self.body_length.to_le_bytes());
        o[40..42].copy_from_slice(&self.query_format.to_le_bytes());
        o[42..44].copy_from_slice(&self.body_format.to_le_bytes());
        o[44..48].copy_from_slice(&self.ec.to_le_bytes());
        o
    }
    pub fn decode_raw(b: &[u8]) -> Option<Hdr> {
        if b.len() < HEADER {
            return None;
        }
        let u64at = |i: usize| u64::from_le_bytes(b[i..i + 8].try_into().unwrap());
        let u16at = |i: usize| u16::from_le_bytes(b[i..i + 2].try_into().unwrap());
        let u32at = |i: usize| u32::from_le_bytes(b[i..i + 4].try_into().unwrap());
        Some(Hdr {
            length: u64at(0),
            spec: u16at(8),
            version: b[10],
            notify: b[11],
            reserved: u32at(12),
            id: u64at(16),
            query_length: u64at(24),
            body_length: u64at(32),
            query_format: u16at(40),
            body_format: u16at(42),
            ec: u32at(44),
        })
    }
    /// The frame is well-formed: magic ok and length == 48 + q + b without wrap.
    pub fn consistent_total(&self) -> Option<u128> {
        if self.spec != SPEC {
            return None;
        }
        let total = HEADER as u128 + self.query_length as u128 + self.body_length as u128;
        if total == self.length as u128 { Some(total) } else { None }
    }
}

#[derive(Clone, Debug, PartialEq, Eq)]
pub struct Frame {
    pub h: Hdr,
    pub query: Vec<u8>,
    pub body: Vec<u8>,
}

impl Frame {
    pub fn new(mut h: Hdr, query: &[u8], body: &[u8]) -> Frame {
        h.spec = SPEC;
        h.query_length = query.len() as u64;
        h.body_length = body.len() as u64;
        h.length = (HEADER + query.len() + body.len()) as u64;
        Frame { h, query: query.to_vec(), body: body.to_vec() }
    }
    pub fn request(id: u64, path: &str, body: &[u8], body_format: u16, notify: bool) -> Frame {
        let h = Hdr { version: 1, id, notify: notify as u8, query_format: 1, body_format, ..Default::default() };
        Frame::new(h, path.as_bytes(), body)
    }
    pub fn to_bytes(&self) -> Vec<u8> {
        let mut v = Vec::with_capacity(HEADER + self.query.len() + self.body.len());
        v.extend_from_slice(&self.h.encode());
        v.extend_from_slice(&self.query);
        v.extend_from_slice(&self.body);
        v
    }
}

/// Reference parser for one frame at the start of `buf`.
/// Ok(Some((frame, consumed))) | Ok(None) = incomplete | Err = malformed.
pub fn parse_one(buf: &[u8]) -> Result<Option<(Frame, usize)>, String> {
    let Some(h) = Hdr::decode_raw(buf) else { return Ok(None) };
    let Some(total) = h.consistent_total() else {
        return Err(format!("malformed header {h:?}"));
    };
    if (buf.len() as u128) < total {
        return Ok(None);
    }
    let total = total as usize;
    let q = h.query_length as usize;
    Ok(Some((
        Frame { h, query: buf[HEADER..HEADER + q].to_vec(), body: buf[HEADER + q..total].to_vec() },
        total,
    )))
}

/// Split a byte stream into whole frames. Err if a malformed header is met;
/// the second component is the number of trailing bytes of an incomplete frame.
pub fn split_stream(mut buf: &[u8]) -> Result<(Vec<Frame>, usize), String> {
    let mut out = Vec::new();
    loop {
        match parse_one(buf)? {
            Some((f, n)) => {
                out.push(f);
                buf = &buf[n..];
            }
            None => return Ok((out, buf.len())),
        }
    }
}
