//! C14 checker: drives the real `repe::Registry` (directly and mounted in a
//! `Router`) next to the reference model and evaluates the oracle clauses.

use super::oracle::{self as o, Expect, Model, Op, Pred};
use crate::explore::Bad;
use repe::{BodyFormat, ErrorCode, Message, QueryFormat, Registry, Router};
use serde_json::{Value, json};
use std::collections::BTreeMap;
use std::sync::atomic::{AtomicU64, AtomicUsize, Ordering};
use std::sync::{Arc, Mutex};

pub const NOT_FOUND: u32 = ErrorCode::MethodNotFound as u32;
pub type LiveRes = Result<Value, u32>;

// ---------------------------------------------------------------- counters

pub const C_CALLS: usize = 0; // implementation calls whose result was compared
pub const C_WRITE_OK: usize = 1;
pub const C_WRITE_REJ: usize = 2;
pub const C_MALFORMED_REJ: usize = 3;
pub const C_INVOCATIONS: usize = 4;
pub const C_FAST: usize = 5;
pub const C_CANON: usize = 6;
pub const C_ARRAY_WRITE: usize = 7;
pub const C_ROOT_MERGE: usize = 8;
pub const C_EMPTY_BODY: usize = 9;
pub const C_FN_READ: usize = 10;
pub const C_EITHER_OK: usize = 11;
pub const C_EITHER_ERR: usize = 12;
pub const C_NOT_ROUTED: usize = 13;
pub const C_PROBES: usize = 14;
pub const C_CASES: usize = 15;
pub const C_UNSPECIFIED: usize = 16;
pub const C_REG_OK: usize = 17;
pub const C_MERGE_OK: usize = 18;
pub const C_ROOT_SPELLINGS: usize = 19;
pub const C_CALL_FAILED: usize = 20;
pub const C_ERRCODE_DIFF: usize = 21;
pub const C_ROUTED: usize = 24; // + prefix_index * 7 + format index  (3 * 7 = 21 slots)
pub const N_CTR: usize = 48;

pub struct Counters {
    shards: Vec<[AtomicU64; N_CTR]>,
}

static NEXT_SHARD: AtomicUsize = AtomicUsize::new(0);
thread_local! {
    static SHARD: usize = NEXT_SHARD.fetch_add(1, Ordering::Relaxed) % 64;
}

impl Counters {
    pub fn new() -> Counters {
        Counters { shards: (0..64).map(|_| std::array::from_fn(|_| AtomicU64::new(0))).collect() }
    }
    pub fn flush(&self, local: &[u64; N_CTR]) {
        let s = SHARD.with(|s| *s);
        for (i, v) in local.iter().enumerate() {
            if *v != 0 {
                self.shards[s][i].fetch_add(*v, Ordering::Relaxed);
            }
        }
    }
    pub fn get(&self, i: usize) -> u64 {
        self.shards.iter().map(|s| s[i].load(Ordering::Relaxed)).sum()
    }
}

// ---------------------------------------------------------------- live side

pub type CallLog = Arc<Mutex<Vec<(String, Value)>>>;

pub struct Live {
    pub reg: Arc<Registry>,
    pub log: CallLog,
}

fn conv<T>(r: Result<T, repe::RegistryError>, f: impl FnOnce(T) -> Value) -> LiveRes {
    match r {
        Ok(v) => Ok(f(v)),
        Err(e) => Err(e.code() as u32),
    }
}

fn as_map(v: &Value) -> serde_json::Map<String, Value> {
    v.as_object().cloned().unwrap_or_default()
}

impl Live {
    pub fn new() -> Live {
        Live { reg: Arc::new(Registry::new()), log: Arc::new(Mutex::new(Vec::new())) }
    }
    pub fn read(&self, p: &str) -> LiveRes {
        conv(self.reg.dispatch(p, None), |v| v)
    }
    pub fn root(&self) -> LiveRes {
        conv(self.reg.read_value(""), |v| v)
    }
    pub fn calls(&self) -> Vec<(String, Value)> {
        self.log.lock().unwrap_or_else(|e| e.into_inner()).clone()
    }
    pub fn apply(&self, op: &Op) -> LiveRes {
        match op {
            Op::Read(p) => self.read(p),
            Op::Send(p, v) => conv(self.reg.dispatch(p, Some(v.clone())), |v| v),
            Op::ReadValue(p) => conv(self.reg.read_value(p), |v| v),
            Op::RegValue(p, v) => conv(self.reg.register_value(p, v.clone()), |_| Value::Null),
            Op::MergeAt(p, v) => {
                if !v.is_object() {
                    return Err(u32::MAX); // not expressible through the API
                }
                conv(self.reg.merge_at(p, as_map(v)), |_| Value::Null)
            }
            Op::MergeRoot(v) => {
                if !v.is_object() {
                    return Err(u32::MAX);
                }
                conv(self.reg.merge_root(as_map(v)), |_| Value::Null)
            }
            Op::SetRoot(v) => {
                self.reg.set_root(v.clone());
                Ok(Value::Null)
            }
            Op::RegFn(p) => {
                // the callable knows the pointer the ORACLE normalises its path to
                let key = o::registration_tokens(p).map(|t| o::canon(&t)).unwrap_or_else(|| "<malformed>".into());
                let log = self.log.clone();
                let f = move |params: Option<Value>| -> Result<Value, (ErrorCode, String)> {
                    let arg = params.unwrap_or_else(|| json!("<<no body>>"));
                    log.lock().unwrap_or_else(|e| e.into_inner()).push((key.clone(), arg.clone()));
                    o::callable_answer(&key, &arg).map_err(|()| (ErrorCode::InvalidBody, "callable refuses null".to_string()))
                };
                conv(self.reg.register_function(p, f), |_| Value::Null)
            }
        }
    }
}

// ---------------------------------------------------------------- routed requests

pub const PREFIXES: [&str; 3] = ["", "/api", "/api/v1"];
pub const UNKNOWN_FORMAT: u16 = 7777;

#[derive(Clone, Copy, Debug, PartialEq)]
pub enum Fmt {
    Json,
    Beve,
    Utf8,
    Raw,
    Unknown,
    Empty,
    EmptyUnknown,
    /// no body under the BEVE / UTF-8 / raw-binary format tags (counted with `Empty`)
    EmptyBeve,
    EmptyUtf8,
    EmptyRaw,
}
pub const FMT_NAMES: [&str; 7] = ["json", "beve", "utf8", "raw", "unknown", "empty", "empty+unknown-code"];

impl Fmt {
    pub fn idx(self) -> usize {
        match self {
            Fmt::EmptyBeve | Fmt::EmptyUtf8 | Fmt::EmptyRaw => Fmt::Empty as usize,
            _ => self as usize,
        }
    }
    pub fn name(self) -> &'static str {
        match self {
            Fmt::EmptyBeve => "empty+beve-code",
            Fmt::EmptyUtf8 => "empty+utf8-code",
            Fmt::EmptyRaw => "empty+raw-code",
            _ => FMT_NAMES[self.idx()],
        }
    }
}

fn base(path: &str) -> repe::message::MessageBuilder {
    Message::builder().id(7).query_str(path).query_format(QueryFormat::JsonPointer)
}

/// Build the request and say what body value the registry must see:
/// Ok(None) = empty body (read), Ok(Some(v)) = value, Err(()) = undecodable.
pub fn request(path: &str, fmt: Fmt, v: &Value) -> Option<(Message, Result<Option<Value>, ()>)> {
    let text = serde_json::to_string(v).ok()?;
    Some(match fmt {
        Fmt::Json => (base(path).body_json(v).ok()?.build(), Ok(Some(v.clone()))),
        Fmt::Beve => (base(path).body_beve(v).ok()?.build(), Ok(Some(v.clone()))),
        Fmt::Utf8 => (base(path).body_utf8(&text).build(), Ok(Some(Value::String(text)))),
        Fmt::Raw => (
            base(path).body_bytes(text.as_bytes().to_vec()).body_format(BodyFormat::RawBinary).build(),
            Ok(Some(Value::Array(text.bytes().map(Value::from).collect()))),
        ),
        Fmt::Unknown => (base(path).body_bytes(text.into_bytes()).body_format_code(UNKNOWN_FORMAT).build(), Err(())),
        Fmt::Empty => (base(path).body_format(BodyFormat::Json).build(), Ok(None)),
        Fmt::EmptyUnknown => (base(path).body_format_code(UNKNOWN_FORMAT).build(), Ok(None)),
        Fmt::EmptyBeve => (base(path).body_format(BodyFormat::Beve).build(), Ok(None)),
        Fmt::EmptyUtf8 => (base(path).body_bytes(Vec::new()).body_format(BodyFormat::Utf8).build(), Ok(None)),
        Fmt::EmptyRaw => (base(path).body_format(BodyFormat::RawBinary).build(), Ok(None)),
    })
}

#[derive(Clone, Copy, Debug, PartialEq)]
pub enum Via {
    Handle,
    HandleWithCtx,
    HandleView,
}

impl Via {
    pub fn name(self) -> &'static str {
        match self {
            Via::Handle => "handle",
            Via::HandleWithCtx => "handle_with_ctx",
            Via::HandleView => "handle_view",
        }
    }
    pub fn dispatch(self, h: &dyn repe::server::HandlerErased, msg: &Message) -> Result<Message, repe::RepeError> {
        match self {
            Via::Handle => h.handle(msg),
            Via::HandleWithCtx => h.handle_with_ctx(msg, &repe::CallContext::detached("")),
            Via::HandleView => {
                let bytes = msg.to_vec();
                let view = repe::MessageView::from_slice(&bytes)?;
                h.handle_view(&view, &repe::CallContext::detached(""))
            }
        }
    }
}

fn response(r: Result<Message, repe::RepeError>) -> LiveRes {
    match r {
        Err(_) => Err(u32::MAX - 1),
        Ok(m) if m.header.ec != 0 => Err(m.header.ec),
        Ok(m) => m.json_body::<Value>().map_err(|_| u32::MAX - 2),
    }
}

/// Independent statement of "mounting strips exactly the prefix".
pub fn strip<'a>(prefix: &str, path: &'a str) -> Option<&'a str> {
    if prefix.is_empty() {
        return Some(path);
    }
    if path == prefix {
        return Some("");
    }
    let rest = path.strip_prefix(prefix)?;
    if rest.starts_with('/') { Some(rest) } else { None }
}

// ---------------------------------------------------------------- configuration

pub struct PInfo {
    pub s: String,
    pub toks: Option<Vec<String>>,
    /// canonical spelling (callable-map key) of the pointer, "" if malformed
    pub key: String,
}

pub struct Cfg {
    pub universe: Vec<PInfo>,
    /// after every checked step call every registered callable once
    pub probes: bool,
    /// issue every checked request through the mounted routers as well
    pub router: bool,
    pub ctr: Counters,
}

impl Cfg {
    pub fn new(pointers: &[String], probes: bool, router: bool) -> Cfg {
        Cfg {
            universe: pointers
                .iter()
                .map(|s| {
                    let toks = o::reg_tokens(s);
                    let key = toks.as_ref().map(|t| o::canon(t)).unwrap_or_default();
                    PInfo { s: s.clone(), toks, key }
                })
                .collect(),
            probes,
            router,
            ctr: Counters::new(),
        }
    }
}

pub struct Acc {
    pub bad: Vec<Bad>,
    keys: BTreeMap<String, ()>,
    pub ctr: [u64; N_CTR],
    step: usize,
}

impl Acc {
    pub fn new() -> Acc {
        Acc { bad: Vec::new(), keys: BTreeMap::new(), ctr: [0; N_CTR], step: 0 }
    }
    fn fail(&mut self, key: String, what: String) {
        if self.keys.insert(key.clone(), ()).is_none() {
            self.bad.push(Bad { key, what, step: self.step });
        }
    }
}

pub struct Final {
    pub model: Model,
    pub impl_root: String,
    pub impl_reads: Vec<String>,
}

fn show(r: &LiveRes) -> String {
    match r {
        Ok(v) => format!("Ok({})", o::canon_json(v)),
        Err(c) => format!("Err(code {c})"),
    }
}

fn check_result(acc: &mut Acc, scope: &str, pred: &Pred, r: &LiveRes, what: &str) {
    acc.ctr[C_CALLS] += 1;
    let class = pred.class;
    match &pred.expect {
        Expect::Value(v) => {
            if r.as_ref().ok() != Some(v) {
                acc.fail(format!("C14:{scope}{class}:result"), format!("{what} returned {}, the document/callable model gives Ok({})", show(r), o::canon_json(v)));
            }
        }
        Expect::OkAny => {
            if r.is_err() {
                acc.fail(format!("C14:{scope}{class}:result"), format!("{what} failed with {} although the plain JSON document accepts it", show(r)));
            }
        }
        Expect::Err => {
            if r.is_ok() {
                acc.fail(format!("C14:{scope}{class}:result"), format!("{what} returned {} although the plain JSON document has no such node / refuses it", show(r)));
            }
        }
        Expect::NotFound => match r {
            Ok(_) => acc.fail(format!("C14:{scope}malformed:accepted"), format!("{what} with a malformed pointer returned {}", show(r))),
            Err(c) if *c != NOT_FOUND => acc.fail(format!("C14:{scope}malformed:code"), format!("{what} with a malformed pointer was rejected with code {c}, not the not-found class ({NOT_FOUND})")),
            Err(_) => acc.ctr[C_MALFORMED_REJ] += 1,
        },
        Expect::Free => {}
    }
}

/// Resolve the stated-as-unspecified alternatives against what happened.
/// Returns false if the rest of the case is outside what the property states.
fn resolve(acc: &mut Acc, model: &mut Model, pre: &Model, pred: &mut Pred, r: &LiveRes) -> bool {
    if pred.unspecified_if_ok && r.is_ok() {
        acc.ctr[C_UNSPECIFIED] += 1;
        return false;
    }
    if pred.either {
        if r.is_err() {
            *model = pre.clone();
            pred.expect = Expect::Err;
            acc.ctr[C_EITHER_ERR] += 1;
        } else {
            acc.ctr[C_EITHER_OK] += 1;
        }
    }
    true
}

impl Cfg {
    fn observe(&self, live: &Live) -> Vec<LiveRes> {
        self.universe.iter().map(|p| live.read(&p.s)).collect()
    }

    /// Clauses (1), (2), (4): every read of the universe after the step equals
    /// the model's; nothing unrelated to the addressed node changed.
    #[allow(clippy::too_many_arguments)]
    fn check_reads(&self, acc: &mut Acc, op: &Op, pred: &Pred, pre: &Model, post: &Model, before: &[LiveRes], after: &[LiveRes], ok: bool) {
        let target = op.target();
        let mutating = pre.doc != post.doc || pre.funcs != post.funcs;
        let class = pred.class;
        for (i, p) in self.universe.iter().enumerate() {
            acc.ctr[C_CALLS] += 1;
            let (a, b) = (&after[i], &before[i]);
            let rel = match (&p.toks, &target) {
                (Some(pt), Some(tt)) => o::related(pt, tt),
                _ => false,
            };
            let aspect = if !mutating { "mutates" } else if rel { "read-back" } else { "frame" };
            match &p.toks {
                None => match a {
                    Ok(_) => acc.fail("C14:malformed:accepted".into(), format!("read of malformed pointer {:?} returned {} after {}", p.s, show(a), op.short())),
                    Err(c) if *c != NOT_FOUND => acc.fail("C14:malformed:code".into(), format!("read of malformed pointer {:?} rejected with code {c}, not the not-found class", p.s)),
                    Err(_) => {}
                },
                Some(_) if post.funcs.contains(&p.key) => {
                    acc.ctr[C_FN_READ] += 1;
                    if pre.funcs.contains(&p.key) && a != b {
                        acc.fail(format!("C14:{class}:{aspect}"), format!("read of callable pointer {:?} changed from {} to {} by {}", p.s, show(b), show(a), op.short()));
                    }
                }
                Some(t) => match o::get(&post.doc, t) {
                    Some(v) => {
                        if a.as_ref().ok() != Some(v) {
                            acc.fail(format!("C14:{class}:{aspect}"), format!("after {} the read of {:?} is {}, the JSON document has {} (before the step: {})", op.short(), p.s, show(a), o::canon_json(v), show(b)));
                        }
                    }
                    None => {
                        if a.is_ok() {
                            acc.fail(format!("C14:{class}:{aspect}"), format!("after {} the read of {:?} is {}, the JSON document has no such node (before the step: {})", op.short(), p.s, show(a), show(b)));
                        }
                    }
                },
            }
            // literal statement, independent of the model's evaluator: a successful
            // non-root write changes no read at an unrelated pointer
            if class == "write" && ok && !rel && p.toks.is_some() && a != b {
                acc.fail("C14:write:frame-literal".into(), format!("{} changed the read of the unrelated pointer {:?} from {} to {}", op.short(), p.s, show(b), show(a)));
            }
        }
    }

    /// Clause (2) on the observation itself: empty-body requests left the document as it was.
    fn check_unchanged(&self, acc: &mut Acc, live: &Live, root_before: &LiveRes, what: &str) {
        acc.ctr[C_CALLS] += 1;
        let now = live.root();
        if &now != root_before {
            acc.fail("C14:empty-body:mutates".into(), format!("{what} changed the document from {} to {}", show(root_before), show(&now)));
        }
    }

    /// `read_value("")` sees the document itself.
    fn check_doc(&self, acc: &mut Acc, key: &str, live: &Live, model: &Model, what: &str) {
        acc.ctr[C_CALLS] += 1;
        let root = live.root();
        if root.as_ref().ok() != Some(&model.doc) {
            acc.fail(format!("C14:{key}"), format!("after {what} read_value(\"\") is {}, the JSON document is {}", show(&root), o::canon_json(&model.doc)));
        }
    }

    fn check_log(&self, acc: &mut Acc, scope: &str, class: &str, live: &Live, model: &Model, what: &str) {
        let got = live.calls();
        if got != model.calls {
            let tail = |v: &[(String, Value)]| v.iter().rev().take(3).rev().map(|(k, a)| format!("{k}({a})")).collect::<Vec<_>>().join(", ");
            acc.fail(
                format!("C14:{scope}{class}:invocations"),
                format!("{what}: callables were invoked {} times [.. {}], the model expects {} [.. {}]", got.len(), tail(&got), model.calls.len(), tail(&model.calls)),
            );
        }
    }

    fn count(&self, acc: &mut Acc, op: &Op, pred: &Pred, r: &LiveRes) {
        if let Op::Read(p) | Op::Send(p, _) = op {
            if p.contains('~') {
                acc.ctr[C_CANON] += 1;
            } else {
                acc.ctr[C_FAST] += 1;
            }
            if p.is_empty() || p == "/" {
                acc.ctr[C_ROOT_SPELLINGS] += 1;
            }
        }
        if matches!(op, Op::Read(_)) {
            acc.ctr[C_EMPTY_BODY] += 1;
        }
        match (pred.class, r.is_ok()) {
            ("write", true) => acc.ctr[C_WRITE_OK] += 1,
            ("write-rejected", false) | ("root-write-rejected", false) => acc.ctr[C_WRITE_REJ] += 1,
            ("root-write", true) => acc.ctr[C_ROOT_MERGE] += 1,
            ("call", true) => acc.ctr[C_INVOCATIONS] += 1,
            ("call", false) => {
                acc.ctr[C_INVOCATIONS] += 1;
                acc.ctr[C_CALL_FAILED] += 1;
            }
            ("register_value", true) | ("register_function", true) => acc.ctr[C_REG_OK] += 1,
            ("merge_at", true) | ("merge_root", true) => acc.ctr[C_MERGE_OK] += 1,
            _ => {}
        }
    }

    /// Execute `seed` then `ops` on a fresh registry and on the model; evaluate
    /// the oracle after every step with index >= `check_from`.
    /// Reads of the whole universe on a fresh registry that received `seed`
    /// (the registry is a deterministic function of its history, so the
    /// single-step sweep takes its "before" reads from here; each case still
    /// compares its own document with the model before the step).
    pub fn observe_seed(&self, seed: &[Op]) -> Vec<LiveRes> {
        let live = self.twin(seed, &[]);
        self.observe(&live)
    }

    pub fn run_case_with(&self, seed: &[Op], ops: &[Op], check_from: usize, before0: Option<&[LiveRes]>, acc: &mut Acc) -> Option<Final> {
        let live = Live::new();
        let mut model = Model::new();
        acc.ctr[C_CASES] += 1;
        for op in seed {
            let pre = model.clone();
            let r = live.apply(op);
            let mut pred = model.apply(op);
            if !resolve(acc, &mut model, &pre, &mut pred, &r) {
                return None;
            }
        }
        for (i, op) in ops.iter().enumerate() {
            acc.step = i;
            let pre = model.clone();
            if i < check_from {
                let r = live.apply(op);
                let mut pred = model.apply(op);
                if !resolve(acc, &mut model, &pre, &mut pred, &r) {
                    return None;
                }
                continue;
            }
            let root0 = live.root();
            let before: Vec<LiveRes> = match before0 {
                Some(b) if i == 0 => b.to_vec(),
                _ => self.observe(&live),
            };
            self.check_log(acc, "", "empty-body", &live, &model, "reading every pointer of the universe with empty bodies");
            self.check_unchanged(acc, &live, &root0, "reading every pointer of the universe with empty bodies");
            let r = live.apply(op);
            let mut pred = model.apply(op);
            if !resolve(acc, &mut model, &pre, &mut pred, &r) {
                return None;
            }
            let what = op.short();
            check_result(acc, "", &pred, &r, &what);
            self.count(acc, op, &pred, &r);
            if pred.class == "write" && r.is_ok() {
                if let Some(t) = op.target() {
                    if o::get(&pre.doc, &t[..t.len() - 1]).is_some_and(|p| p.is_array()) {
                        acc.ctr[C_ARRAY_WRITE] += 1;
                    }
                }
            }
            self.check_log(acc, "", pred.class, &live, &model, &what);
            self.check_doc(acc, &format!("{}:document", pred.class), &live, &model, &what);
            let root1 = live.root();
            let after = self.observe(&live);
            self.check_reads(acc, op, &pred, &pre, &model, &before, &after, r.is_ok());
            // clause (2): the empty-body requests of the observation invoked nothing
            self.check_log(acc, "", "empty-body", &live, &model, &format!("reading every pointer of the universe with empty bodies after {what}"));
            self.check_unchanged(acc, &live, &root1, &format!("reading every pointer of the universe with empty bodies after {what}"));
            if self.probes {
                self.probe(acc, &live, &mut model, &what);
            }
            if self.router && matches!(op, Op::Read(_) | Op::Send(..)) {
                self.routed(acc, seed, &ops[..i], op, &pre, &r);
            }
        }
        let impl_root = live.root().map(|v| o::canon_json(&v)).unwrap_or_else(|c| format!("err{c}"));
        let impl_reads = self.universe.iter().map(|p| show(&live.read(&p.s))).collect();
        Some(Final { model, impl_root, impl_reads })
    }

    /// Clause (3), "exactly once at exactly its pointer": every callable of the
    /// model answers one call at its canonical pointer.
    fn probe(&self, acc: &mut Acc, live: &Live, model: &mut Model, after: &str) {
        let keys: Vec<String> = model.funcs.iter().cloned().collect();
        for (n, key) in keys.iter().enumerate() {
            let arg = json!({"probe": n});
            let r = live.apply(&Op::Send(key.clone(), arg.clone()));
            let pred = model.apply(&Op::Send(key.clone(), arg));
            acc.ctr[C_PROBES] += 1;
            check_result(acc, "probe:", &pred, &r, &format!("after {after}, a call at {key:?}"));
            self.check_log(acc, "probe:", "call", live, model, &format!("after {after}, a call at the registered pointer {key:?}"));
        }
    }

    fn twin(&self, seed: &[Op], prefix_ops: &[Op]) -> Live {
        let t = Live::new();
        for op in seed.iter().chain(prefix_ops) {
            let _ = t.apply(op);
        }
        t
    }

    fn check_twin_state(&self, acc: &mut Acc, key: &str, t: &Live, m: &Model, what: &str) {
        acc.ctr[C_CALLS] += 1;
        let root = t.root();
        if root.as_ref().ok() != Some(&m.doc) {
            acc.fail(format!("{key}:state"), format!("{what}: the document is then {}, expected {}", show(&root), o::canon_json(&m.doc)));
        }
        let calls = t.calls();
        if calls != m.calls {
            acc.fail(format!("{key}:invocations"), format!("{what}: callables invoked {} times, expected {} (last expected: {:?})", calls.len(), m.calls.len(), m.calls.last()));
        }
    }

    /// Clause (5) + body formats: the same request through `Router::with_registry`
    /// on a twin registry that received the same history.
    fn routed(&self, acc: &mut Acc, seed: &[Op], prefix_ops: &[Op], op: &Op, pre: &Model, direct: &LiveRes) {
        let (p, v, fmts): (&str, Value, &[Fmt]) = match op {
            Op::Read(p) => (p, Value::Null, &[Fmt::Empty, Fmt::EmptyUnknown, Fmt::EmptyBeve, Fmt::EmptyUtf8, Fmt::EmptyRaw]),
            Op::Send(p, v) => (p, v.clone(), &[Fmt::Json, Fmt::Beve, Fmt::Utf8, Fmt::Raw, Fmt::Unknown]),
            _ => return,
        };
        for &fmt in fmts {
            // what the registry must be asked, per the body format
            let Some((_, body)) = request("", fmt, &v) else { continue };
            let eq_op = match &body {
                Ok(None) => Some(Op::Read(p.to_string())),
                Ok(Some(d)) => Some(Op::Send(p.to_string(), d.clone())),
                Err(()) => None,
            };
            // reference for unspecified result contents: the direct dispatch of the decoded value
            let direct_ref: Option<LiveRes> = match (fmt, &eq_op) {
                (Fmt::Json | Fmt::Beve | Fmt::Empty | Fmt::EmptyBeve | Fmt::EmptyUtf8 | Fmt::EmptyRaw, _) => Some(direct.clone()),
                (Fmt::Utf8 | Fmt::Raw, Some(e)) => {
                    let d = self.twin(seed, prefix_ops);
                    let r = d.apply(e);
                    let mut m = pre.clone();
                    let mut pr = m.apply(e);
                    if !resolve(acc, &mut m, pre, &mut pr, &r) {
                        continue;
                    }
                    let what = format!("direct {}", e.short());
                    check_result(acc, "", &pr, &r, &what);
                    self.check_twin_state(acc, &format!("C14:{}", pr.class), &d, &m, &what);
                    Some(r)
                }
                _ => None,
            };
            // every dispatch path of the mounted handler: the copying one (`handle`), the one the servers' context-aware
            // loops use (`handle_with_ctx`) and the zero-copy one (`handle_view`, the request parsed from its wire bytes)
            for (pi, prefix, via) in PREFIXES.iter().enumerate().flat_map(|(pi, prefix)| [Via::Handle, Via::HandleWithCtx, Via::HandleView].map(|via| (pi, prefix, via))) {
                let path = format!("{prefix}{p}");
                let Some((msg, _)) = request(&path, fmt, &v) else { continue };
                let t = self.twin(seed, prefix_ops);
                let router = Router::new().with_registry(prefix, Arc::clone(&t.reg));
                let what = format!("request {path:?} (body format {}, value {}) through a registry mounted at {prefix:?}, dispatched with {}", fmt.name(), if matches!(op, Op::Read(_)) { "none".to_string() } else { v.to_string() }, via.name());
                let routed_to = strip(prefix, &path);
                let handler = router.get(&path);
                let Some(q) = routed_to else {
                    // the path is not below the prefix: must not reach the registry
                    acc.ctr[C_NOT_ROUTED] += 1;
                    if let Some(h) = handler {
                        let r = response(h.handle(&msg));
                        if r.is_ok() {
                            acc.fail("C14:mount:foreign-path-served".into(), format!("{what}: path is not below the prefix but was answered {}", show(&r)));
                        }
                    }
                    self.check_twin_state(acc, "C14:mount:foreign-path", &t, pre, &what);
                    continue;
                };
                if o::reg_tokens(q) != o::reg_tokens(p) {
                    continue; // cannot happen for this universe (prefix + p strips back to p)
                }
                if via == Via::Handle {
                    acc.ctr[C_ROUTED + pi * 7 + fmt.idx()] += 1;
                }
                let Some(h) = handler else {
                    acc.fail("C14:mount:unrouted".into(), format!("{what}: Router::get finds no handler for a path below the prefix"));
                    continue;
                };
                let r = response(via.dispatch(h.as_ref(), &msg));
                let key = format!("C14:routed:{}", fmt.name());
                match &eq_op {
                    None => {
                        // unknown body format with a body: cannot be decoded, nothing may happen
                        acc.ctr[C_CALLS] += 1;
                        if r.is_ok() {
                            acc.fail(format!("{key}:result"), format!("{what} was answered {}", show(&r)));
                        }
                        self.check_twin_state(acc, &key, &t, pre, &what);
                    }
                    Some(e) => {
                        let mut m = pre.clone();
                        let mut pr = m.apply(e);
                        if !resolve(acc, &mut m, pre, &mut pr, &r) {
                            continue;
                        }
                        if fmt == Fmt::EmptyUnknown {
                            // result class with an unknown format code and no body is not stated
                            pr.expect = Expect::Free;
                        }
                        check_result(acc, &format!("routed:{}:", fmt.name()), &pr, &r, &what);
                        self.check_twin_state(acc, &key, &t, &m, &what);
                        if let (Ok(a), Some(Ok(b))) = (&r, &direct_ref) {
                            if a != b && fmt != Fmt::EmptyUnknown {
                                acc.fail("C14:mount:result-differs-from-direct".into(), format!("{what} answered {}, the direct dispatch of the stripped pointer answered {}", o::canon_json(a), o::canon_json(b)));
                            }
                        }
                        if let (Err(a), Some(Err(b))) = (&r, &direct_ref) {
                            if a != b {
                                acc.ctr[C_ERRCODE_DIFF] += 1;
                            }
                        }
                    }
                }
            }
            // paths that merely look like the prefix
            if matches!(fmt, Fmt::Json | Fmt::Empty) {
                for prefix in &PREFIXES[1..] {
                    for bad in [format!("{prefix}x{p}"), p.to_string(), format!("{}{p}", &prefix[1..])] {
                        if strip(prefix, &bad).is_some() {
                            continue;
                        }
                        let Some((msg, _)) = request(&bad, fmt, &v) else { continue };
                        let t = self.twin(seed, prefix_ops);
                        let router = Router::new().with_registry(prefix, Arc::clone(&t.reg));
                        let what = format!("request {bad:?} (body format {}) against a registry mounted at {prefix:?}", fmt.name());
                        acc.ctr[C_NOT_ROUTED] += 1;
                        acc.ctr[C_CALLS] += 1;
                        if let Some(h) = router.get(&bad) {
                            let r = response(h.handle(&msg));
                            if r.is_ok() {
                                acc.fail("C14:mount:foreign-path-served".into(), format!("{what}: Router::get routed it and it was answered {}", show(&r)));
                            }
                        }
                        // the mounted handler itself, handed a foreign path
                        match router.get(prefix) {
                            None => acc.fail("C14:mount:unrouted".into(), format!("Router::get({prefix:?}) finds no handler for the prefix itself")),
                            Some(h) => {
                                let r = response(h.handle(&msg));
                                if r.is_ok() {
                                    acc.fail("C14:mount:foreign-path-served".into(), format!("{what}: the mounted handler answered {}", show(&r)));
                                }
                            }
                        }
                        self.check_twin_state(acc, "C14:mount:foreign-path", &t, pre, &what);
                    }
                }
            }
        }
    }
}
