//! C10 parts 2 and 3: the pull runs in a child process (`mc C10 --worker ...`)
//! under `strace`; the producer stays in this process.
//!
//!  * part 2 — `inject=<syscall>:signal=SIGKILL:when=<k>` kills the child on the
//!    ENTRY of the k-th matching syscall (the syscall is not executed). With
//!    `-P <temp> -P <dest>` only syscalls touching those two paths are counted,
//!    so process start-up does not shift k. A second family kills at every socket
//!    receive (the puller blocked on a `next`).
//!  * part 3 — the recorded history of a successful run drives a crash model.

use super::srv;
use super::{
    CaseDir, Cfg, DestKind, Entry, OLD_CONTENT, Puller, Tamper, VerifySeen, do_pull, hex, logical, make_router,
    snapshot_dir, temp_sibling,
};
use crate::ctx::{Ctx, Samples, Tier};
use serde_json::{Value, json};
use std::collections::{BTreeMap, BTreeSet};
use std::path::PathBuf;
use std::process::{Command, Stdio};
use std::sync::{Arc, Mutex};
use std::time::{Duration, Instant};

const FS_SET: &[&str] = &[
    "openat", "open", "creat", "write", "pwrite64", "writev", "pwritev", "pwritev2", "ftruncate", "truncate", "fsync",
    "fdatasync", "sync_file_range", "rename", "renameat", "renameat2", "link", "linkat", "symlink", "symlinkat",
    "unlink", "unlinkat", "close", "copy_file_range", "sendfile", "splice", "fallocate", "lseek",
];
const NET_SET: &[&str] = &["recvfrom", "recvmsg", "rename", "renameat", "renameat2", "exit_group"];
/// receives = the puller blocked on a response; exit_group = the one point after everything
const NET_KILL: &[&str] = &["recvfrom", "recvmsg", "exit_group"];

// ------------------------------------------------------------------ worker (child side)

/// `mc C10 --worker <port> <dest> <cfg-json>` — exit 0 = pull returned Ok, 3 = Err.
pub fn worker(args: &[String]) {
    if args.len() != 3 {
        eprintln!("usage: mc C10 --worker <port> <dest> <cfg-json>");
        std::process::exit(4);
    }
    let port: u16 = args[0].parse().unwrap_or_else(|_| std::process::exit(4));
    let dest = PathBuf::from(&args[1]);
    let cfg: Cfg = serde_json::from_str(&args[2]).unwrap_or_else(|_| std::process::exit(4));
    let seen = Arc::new(Mutex::new(VerifySeen::default()));
    let r = do_pull(&cfg, port, &dest, "r", &seen, false);
    std::process::exit(if r.is_ok() { 0 } else { 3 })
}

// ------------------------------------------------------------------ strace trace parsing

#[derive(Clone, Debug, PartialEq)]
pub enum Op {
    Open { path: String, fd: i64, trunc: bool, creat: bool, append: bool },
    Write { fd: i64, path: String, data: Vec<u8>, offset: Option<u64> },
    Sync { fd: i64, path: String },
    Close { fd: i64, path: String },
    Rename { from: String, to: String },
    Unlink { path: String },
    Seek { fd: i64 },
    Recv,
    Unmodelled,
}

#[derive(Clone, Debug)]
pub struct Ev {
    pub pid: u32,
    pub name: String,
    pub op: Op,
    /// the syscall returned (false: the process was killed on its entry)
    pub completed: bool,
    pub ret: i64,
    pub line: String,
}

#[derive(Clone, Debug, Default)]
pub struct Trace {
    pub events: Vec<Ev>,
    pub killed: bool,
    pub exited: Option<i32>,
}

fn unescape(s: &str) -> Vec<u8> {
    let b = s.as_bytes();
    let mut out = Vec::with_capacity(b.len() / 4 + 1);
    let mut i = 0;
    while i < b.len() {
        if b[i] != b'\\' || i + 1 >= b.len() {
            out.push(b[i]);
            i += 1;
            continue;
        }
        i += 1;
        match b[i] {
            b'x' => {
                let h = std::str::from_utf8(&b[i + 1..(i + 3).min(b.len())]).unwrap_or("0");
                out.push(u8::from_str_radix(h, 16).unwrap_or(b'?'));
                i += 3;
            }
            b'n' => {
                out.push(b'\n');
                i += 1
            }
            b't' => {
                out.push(b'\t');
                i += 1
            }
            b'r' => {
                out.push(b'\r');
                i += 1
            }
            b'0'..=b'7' => {
                let mut v = 0u32;
                let mut n = 0;
                while n < 3 && i < b.len() && (b'0'..=b'7').contains(&b[i]) {
                    v = v * 8 + (b[i] - b'0') as u32;
                    i += 1;
                    n += 1;
                }
                out.push(v as u8);
            }
            c => {
                out.push(c);
                i += 1
            }
        }
    }
    out
}

/// Split the argument text at top-level commas (quotes, <>, {}, [] and () nest).
fn split_args(s: &str) -> Vec<String> {
    let mut out = Vec::new();
    let mut cur = String::new();
    let mut depth = 0i32;
    let mut in_str = false;
    let mut esc = false;
    for ch in s.chars() {
        if in_str {
            cur.push(ch);
            if esc {
                esc = false;
            } else if ch == '\\' {
                esc = true;
            } else if ch == '"' {
                in_str = false;
            }
            continue;
        }
        match ch {
            '"' => {
                in_str = true;
                cur.push(ch)
            }
            '<' | '{' | '[' | '(' => {
                depth += 1;
                cur.push(ch)
            }
            '>' | '}' | ']' | ')' => {
                depth -= 1;
                cur.push(ch)
            }
            ',' if depth == 0 => {
                out.push(cur.trim().to_string());
                cur.clear();
            }
            _ => cur.push(ch),
        }
    }
    if !cur.trim().is_empty() {
        out.push(cur.trim().to_string());
    }
    out
}

/// `"...."` (possibly followed by `...` when strace truncated it) -> bytes, truncated?
fn str_arg(a: &str) -> Option<(Vec<u8>, bool)> {
    let a = a.trim();
    if !a.starts_with('"') {
        return None;
    }
    let end = a.rfind('"')?;
    if end == 0 {
        return None;
    }
    Some((unescape(&a[1..end]), a[end + 1..].contains("...")))
}

/// `3</path/of/fd>` -> (3, "/path/of/fd"); plain `3` -> (3, "")
fn fd_arg(a: &str) -> (i64, String) {
    let a = a.trim();
    match a.find('<') {
        Some(i) => {
            let n = a[..i].trim().parse().unwrap_or(-1);
            let p = String::from_utf8_lossy(&unescape(a[i + 1..].trim_end_matches('>'))).to_string();
            (n, p)
        }
        None => (a.parse().unwrap_or(-1), String::new()),
    }
}

fn path_string(a: &str) -> String {
    str_arg(a).map(|(b, _)| String::from_utf8_lossy(&b).to_string()).unwrap_or_default()
}

pub fn parse_trace(text: &str) -> Result<Trace, String> {
    let mut t = Trace::default();
    let mut unfinished: BTreeMap<u32, String> = BTreeMap::new();
    for raw in text.lines() {
        let raw = raw.trim_end();
        if raw.is_empty() {
            continue;
        }
        let (pid_s, rest) = raw.split_once(char::is_whitespace).ok_or_else(|| format!("trace line without pid: {raw}"))?;
        let pid: u32 = pid_s.parse().map_err(|_| format!("trace line without pid: {raw}"))?;
        let rest = rest.trim_start();
        if rest.starts_with("+++") {
            if rest.contains("killed by SIGKILL") {
                t.killed = true;
            } else if let Some(x) = rest.strip_prefix("+++ exited with ") {
                let code = x.trim_end_matches(" +++").trim().parse().unwrap_or(-1);
                // the thread-group leader's exit is the last one reported; keep the last
                t.exited = Some(code);
            }
            continue;
        }
        if rest.starts_with("---") {
            continue; // signal delivery
        }
        let mut line = rest.to_string();
        if let Some(stripped) = line.strip_suffix("<unfinished ...>") {
            unfinished.insert(pid, stripped.trim_end().to_string());
            continue;
        }
        if line.starts_with("<...") {
            let Some(pos) = line.find("resumed>") else { return Err(format!("bad resumed line: {raw}")) };
            let head = unfinished.remove(&pid).ok_or_else(|| format!("resumed without unfinished: {raw}"))?;
            line = format!("{head}{}", &line[pos + "resumed>".len()..]);
        }
        let open = line.find('(').ok_or_else(|| format!("no '(' in: {raw}"))?;
        let name = line[..open].trim().to_string();
        // "name(args)<spaces>= ret": the separator is the last " = " preceded by ')'
        let (args_s, ret_s) = {
            let mut found = None;
            let mut end = line.len();
            while let Some(p) = line[..end].rfind(" = ") {
                let head = line[..p].trim_end();
                if head.ends_with(')') {
                    found = Some((head.len() - 1, p + 3));
                    break;
                }
                end = p;
            }
            match found {
                Some((close, r)) if close >= open => (&line[open + 1..close], line[r..].trim()),
                _ => return Err(format!("no return value in: {raw}")),
            }
        };
        let completed = !ret_s.starts_with('?');
        let ret: i64 = if completed {
            let tok = ret_s.split(|c: char| c.is_whitespace() || c == '<').next().unwrap_or("");
            if let Some(h) = tok.strip_prefix("0x") { i64::from_str_radix(h, 16).unwrap_or(0) } else { tok.parse().unwrap_or(-1) }
        } else {
            -1
        };
        let a = split_args(args_s);
        let arg = |i: usize| a.get(i).map(|s| s.as_str()).unwrap_or("");
        let op = match name.as_str() {
            "openat" | "open" | "creat" => {
                let (pi, fi) = match name.as_str() {
                    "openat" => (1, 2),
                    _ => (0, 1),
                };
                let flags = arg(fi);
                Op::Open {
                    path: path_string(arg(pi)),
                    fd: ret,
                    trunc: flags.contains("O_TRUNC") || name == "creat",
                    creat: flags.contains("O_CREAT") || name == "creat",
                    append: flags.contains("O_APPEND"),
                }
            }
            "write" | "pwrite64" => {
                let (fd, path) = fd_arg(arg(0));
                let (mut data, truncated) = str_arg(arg(1)).ok_or_else(|| format!("write without data: {raw}"))?;
                if truncated {
                    return Err(format!("strace truncated write data (raise -s): {raw}"));
                }
                if completed && ret >= 0 {
                    data.truncate(ret as usize);
                }
                let offset = if name == "pwrite64" { arg(3).trim().parse().ok() } else { None };
                Op::Write { fd, path, data, offset }
            }
            "fsync" | "fdatasync" => {
                let (fd, path) = fd_arg(arg(0));
                Op::Sync { fd, path }
            }
            "close" => {
                let (fd, path) = fd_arg(arg(0));
                Op::Close { fd, path }
            }
            "rename" => Op::Rename { from: path_string(arg(0)), to: path_string(arg(1)) },
            "renameat" | "renameat2" => Op::Rename { from: path_string(arg(1)), to: path_string(arg(3)) },
            "unlink" => Op::Unlink { path: path_string(arg(0)) },
            "unlinkat" => Op::Unlink { path: path_string(arg(1)) },
            "lseek" => Op::Seek { fd: fd_arg(arg(0)).0 },
            "recvfrom" | "recvmsg" => Op::Recv,
            _ => Op::Unmodelled,
        };
        t.events.push(Ev { pid, name, op, completed, ret, line: raw.chars().take(300).collect() });
    }
    Ok(t)
}

fn show_ev(e: &Ev, dest: &str, tmp: &str) -> String {
    let nm = |p: &str| if p == dest { "<DEST>".to_string() } else if p == tmp { "<TMP>".to_string() } else { p.to_string() };
    let body = match &e.op {
        Op::Open { path, fd, trunc, creat, .. } => format!("{}{}{} -> fd {fd}", nm(path), if *creat { " O_CREAT" } else { "" }, if *trunc { " O_TRUNC" } else { "" }),
        Op::Write { path, data, .. } => format!("{} {} byte(s) {}", nm(path), data.len(), hex(&data[..data.len().min(12)])),
        Op::Sync { path, .. } | Op::Close { path, .. } => nm(path),
        Op::Rename { from, to } => format!("{} -> {}", nm(from), nm(to)),
        Op::Unlink { path } => nm(path),
        _ => String::new(),
    };
    format!("{}({body}) = {}", e.name, if e.completed { e.ret.to_string() } else { "? (killed on entry)".into() })
}

// ------------------------------------------------------------------ part 3: crash model

#[derive(Clone, Debug, Default)]
struct Inode {
    durable: Vec<u8>,
    /// writes not yet covered by an fsync/fdatasync of this file: (offset, data)
    pending: Vec<(usize, Vec<u8>)>,
    synced_once: bool,
    /// created by an open(O_CREAT) of the destination path itself (not renamed into place)
    born_at_dest: bool,
}

fn apply(mut base: Vec<u8>, writes: &[&(usize, Vec<u8>)]) -> Vec<u8> {
    for (off, data) in writes {
        if base.len() < off + data.len() {
            base.resize(off + data.len(), 0);
        }
        base[*off..off + data.len()].copy_from_slice(data);
    }
    base
}

#[derive(Default)]
pub struct CrashReport {
    pub states: u64,
    pub prefixes: u64,
    pub max_pending: usize,
    pub writes: usize,
    pub syncs: usize,
    pub renames_onto_dest: usize,
    pub capped: bool,
    /// (class, explanation)
    pub bad: Vec<(String, String)>,
    pub final_dest: Option<Vec<u8>>,
    pub unmodelled: Vec<String>,
}

/// Enumerate every crash state of `events` (completed, successful syscalls on the
/// temp/destination paths, in order). `old` is the destination before the pull.
pub fn crash_model(events: &[Ev], dest: &str, old: Option<&[u8]>, complete: &[u8]) -> CrashReport {
    let mut rep = CrashReport::default();
    let mut inodes: Vec<Inode> = Vec::new();
    let mut names: BTreeMap<String, usize> = BTreeMap::new();
    let mut fds: BTreeMap<i64, (usize, usize, bool)> = BTreeMap::new(); // fd -> (inode, offset, append)
    if let Some(o) = old {
        inodes.push(Inode { durable: o.to_vec(), pending: vec![], synced_once: true, born_at_dest: false });
        names.insert(dest.to_string(), 0);
    }
    let check = |prefix: usize,
                 last: &str,
                 inodes: &Vec<Inode>,
                 names: &BTreeMap<String, usize>,
                 rep: &mut CrashReport| {
        rep.prefixes += 1;
        // all un-synced writes in the system, (inode, index)
        let mut pend: Vec<(usize, usize)> = Vec::new();
        for (i, ino) in inodes.iter().enumerate() {
            for j in 0..ino.pending.len() {
                pend.push((i, j));
            }
        }
        rep.max_pending = rep.max_pending.max(pend.len());
        if pend.len() > 14 {
            rep.capped = true;
            pend.truncate(14);
        }
        let bound = names.get(dest).copied();
        for mask in 0u32..(1u32 << pend.len()) {
            rep.states += 1;
            let content: Option<Vec<u8>> = bound.map(|x| {
                let kept: Vec<&(usize, Vec<u8>)> = pend
                    .iter()
                    .enumerate()
                    .filter(|(b, (i, _))| *i == x && mask & (1 << b) != 0)
                    .map(|(_, (i, j))| &inodes[*i].pending[*j])
                    .collect();
                apply(inodes[x].durable.clone(), &kept)
            });
            let fine = match (&content, old) {
                (None, None) => true,
                (None, Some(_)) => false,
                (Some(c), o) => c.as_slice() == complete || Some(c.as_slice()) == o,
            };
            if !fine && rep.bad.len() < 4 {
                let x = bound;
                let class = match x {
                    None => "destination-unlinked",
                    Some(x) if (old.is_some() && x == 0) || inodes[x].born_at_dest => "destination-written-in-place",
                    Some(x) if !inodes[x].synced_once => "renamed-without-any-sync",
                    Some(_) => "write-after-last-sync",
                };
                let dropped: Vec<usize> = (0..pend.len()).filter(|b| mask & (1 << b) == 0).collect();
                rep.bad.push((
                    class.to_string(),
                    format!(
                        "crash after history step {prefix} ({last}) with un-synced write(s) #{dropped:?} of {} lost: destination would hold {} — neither the previous state ({}) nor the complete content ([{}]{})",
                        pend.len(),
                        match &content {
                            None => "nothing (absent)".to_string(),
                            Some(c) => format!("[{}]{}", c.len(), hex(&c[..c.len().min(24)])),
                        },
                        match old {
                            None => "absent".to_string(),
                            Some(o) => format!("[{}]", o.len()),
                        },
                        complete.len(),
                        hex(&complete[..complete.len().min(24)])
                    ),
                ));
            }
        }
    };
    check(0, "start", &inodes, &names, &mut rep);
    for (idx, ev) in events.iter().enumerate() {
        if !ev.completed || ev.ret < 0 {
            continue;
        }
        match &ev.op {
            Op::Open { path, fd, trunc, creat, append } => {
                let ino = match names.get(path) {
                    Some(&i) => {
                        if *trunc {
                            // truncation is a metadata change that may reach the disk at any time:
                            // model it as immediately visible (the pessimistic order)
                            inodes[i].durable.clear();
                            inodes[i].pending.clear();
                        }
                        Some(i)
                    }
                    None if *creat => {
                        inodes.push(Inode { born_at_dest: path == dest, ..Default::default() });
                        names.insert(path.clone(), inodes.len() - 1);
                        Some(inodes.len() - 1)
                    }
                    None => None,
                };
                if let Some(i) = ino {
                    fds.insert(*fd, (i, 0, *append));
                }
            }
            Op::Write { fd, data, offset, .. } => {
                rep.writes += 1;
                if let Some((i, off, append)) = fds.get(fd).copied() {
                    let cur_len = {
                        let all: Vec<&(usize, Vec<u8>)> = inodes[i].pending.iter().collect();
                        apply(inodes[i].durable.clone(), &all).len()
                    };
                    let at = match offset {
                        Some(o) => *o as usize,
                        None if append => cur_len,
                        None => off,
                    };
                    inodes[i].pending.push((at, data.clone()));
                    if offset.is_none() {
                        fds.insert(*fd, (i, at + data.len(), append));
                    }
                } else {
                    rep.unmodelled.push(format!("write to unknown fd: {}", ev.line));
                }
            }
            Op::Sync { fd, .. } => {
                rep.syncs += 1;
                if let Some((i, _, _)) = fds.get(fd).copied() {
                    let all: Vec<(usize, Vec<u8>)> = std::mem::take(&mut inodes[i].pending);
                    let refs: Vec<&(usize, Vec<u8>)> = all.iter().collect();
                    inodes[i].durable = apply(std::mem::take(&mut inodes[i].durable), &refs);
                    inodes[i].synced_once = true;
                }
            }
            Op::Close { fd, .. } => {
                fds.remove(fd);
            }
            Op::Rename { from, to } => {
                if let Some(i) = names.remove(from) {
                    names.insert(to.clone(), i);
                    if to == dest {
                        rep.renames_onto_dest += 1;
                    }
                }
            }
            Op::Unlink { path } => {
                names.remove(path);
            }
            Op::Seek { .. } | Op::Unmodelled => {
                rep.unmodelled.push(ev.line.clone());
            }
            Op::Recv => {}
        }
        check(idx + 1, &ev.name, &inodes, &names, &mut rep);
    }
    rep.final_dest = names.get(dest).map(|&x| {
        let all: Vec<&(usize, Vec<u8>)> = inodes[x].pending.iter().collect();
        apply(inodes[x].durable.clone(), &all)
    });
    rep
}

// ------------------------------------------------------------------ running the child under strace

#[derive(Clone, Debug, PartialEq)]
pub enum Mode {
    FsDry,
    FsKill { name: String, k: usize },
    NetDry,
    NetKill { name: String, k: usize },
}

pub struct ChildObs {
    pub trace: Trace,
    pub before: BTreeMap<String, Entry>,
    pub after: BTreeMap<String, Entry>,
    pub dest: PathBuf,
    pub exit_code: Option<i32>,
    pub signal: Option<i32>,
    pub stderr: String,
    pub log: srv::Log,
}

pub fn strace_version() -> Result<String, String> {
    let out = Command::new("strace").arg("-V").output().map_err(|e| format!("strace not runnable: {e}"))?;
    if !out.status.success() {
        return Err("strace -V failed".into());
    }
    Ok(String::from_utf8_lossy(&out.stdout).lines().next().unwrap_or("").to_string())
}

pub fn run_child(
    cfg: &Cfg,
    dest_kind: DestKind,
    mode: &Mode,
    listener: &std::net::TcpListener,
) -> Result<ChildObs, String> {
    use std::os::unix::process::ExitStatusExt;
    let dir = CaseDir::new().map_err(|e| format!("case dir: {e}"))?;
    let dest = dir.setup_dest(dest_kind).map_err(|e| format!("dest setup: {e}"))?;
    let tmp = temp_sibling(&dest);
    let before = snapshot_dir(&dir.work());
    let server = srv::start(listener, make_router(cfg, None), srv::Script::default(), Some(tmp.clone()))
        .map_err(|e| format!("server: {e}"))?;
    let trace_path = dir.root.join("trace.txt");
    let exe = std::env::current_exe().map_err(|e| format!("current_exe: {e}"))?;
    let mut cmd = Command::new("strace");
    cmd.arg("-f").arg("-o").arg(&trace_path);
    let q = |set: &[&str]| set.iter().map(|s| format!("?{s}")).collect::<Vec<_>>().join(",");
    match mode {
        Mode::FsDry | Mode::FsKill { .. } => {
            cmd.args(["-y", "-xx", "-s", "1048576"]);
            cmd.arg("-P").arg(&tmp).arg("-P").arg(&dest);
            cmd.arg("-e").arg(format!("trace={}", q(FS_SET)));
        }
        Mode::NetDry | Mode::NetKill { .. } => {
            cmd.args(["-s", "0"]);
            cmd.arg("-e").arg(format!("trace={}", q(NET_SET)));
        }
    }
    match mode {
        Mode::FsKill { name, k } | Mode::NetKill { name, k } => {
            cmd.arg("-e").arg(format!("inject={name}:signal=SIGKILL:when={k}"));
        }
        _ => {}
    }
    cmd.env("C10_TEMP_NAME", super::temp_name());
    cmd.arg(&exe)
        .arg("C10")
        .arg("--worker")
        .arg(server.port.to_string())
        .arg(&dest)
        .arg(serde_json::to_string(cfg).unwrap());
    cmd.stdin(Stdio::null()).stdout(Stdio::null()).stderr(Stdio::piped());
    let mut child = cmd.spawn().map_err(|e| format!("cannot spawn strace: {e}"))?;
    let t0 = Instant::now();
    let status = loop {
        match child.try_wait() {
            Ok(Some(st)) => break st,
            Ok(None) => {
                if t0.elapsed() > Duration::from_secs(60) {
                    let _ = child.kill();
                    let _ = child.wait();
                    let _ = server.finish();
                    return Err(format!("strace run did not finish within 60 s ({mode:?}, {cfg:?})"));
                }
                std::thread::sleep(Duration::from_micros(500));
            }
            Err(e) => return Err(format!("wait: {e}")),
        }
    };
    let mut stderr = String::new();
    if let Some(mut e) = child.stderr.take() {
        use std::io::Read;
        let _ = e.read_to_string(&mut stderr);
    }
    let log = server.finish();
    let trace_text = std::fs::read_to_string(&trace_path).map_err(|e| format!("trace file: {e} (stderr: {stderr})"))?;
    let trace = parse_trace(&trace_text)?;
    let after = snapshot_dir(&dir.work());
    Ok(ChildObs {
        trace,
        before,
        after,
        dest,
        exit_code: status.code(),
        signal: status.signal(),
        stderr,
        log,
    })
}

// ------------------------------------------------------------------ parts 2+3 driver

#[derive(Default)]
pub struct P23 {
    pub configs: u64,
    pub kill_runs: u64,
    pub kills_hit: u64,
    pub kills_not_hit: u64,
    pub kills_before_rename: u64,
    pub kills_after_rename: u64,
    pub kills_at_rename_entry: u64,
    pub kills_with_partial_temp: u64,
    pub kills_with_temp_left: u64,
    pub kills_net: u64,
    pub kills_by_syscall: BTreeMap<String, u64>,
    pub history_positions: u64,
    pub history_positions_killed: u64,
    pub distinct_kill_points: u64,
    pub crash_states: u64,
    pub crash_prefixes: u64,
    pub crash_histories: u64,
    pub crash_max_pending: usize,
    pub crash_states_with_dropped_writes: u64,
    pub distinct_crash_classes: u64,
    pub exhaustive: bool,
    pub strace: String,
    pub errors: Vec<String>,
    /// histories the crash model could not interpret completely (not fatal for part 2)
    pub model_errors: Vec<String>,
    pub history_sample: Vec<String>,
}

impl P23 {
    pub fn vacuity(&self) -> Option<String> {
        if let Some(e) = self.errors.first().or(self.model_errors.first()) {
            return Some(format!("harness error: {e}"));
        }
        if self.kills_hit == 0
            || self.kills_before_rename == 0
            || self.kills_after_rename == 0
            || self.kills_at_rename_entry == 0
            || self.kills_with_partial_temp == 0
            || self.kills_net == 0
            || self.crash_states == 0
            || self.crash_states_with_dropped_writes == 0
            || self.history_positions_killed < self.history_positions
        {
            return Some(self.coverage().to_string());
        }
        None
    }
    pub fn coverage(&self) -> Value {
        json!({
            "strace": self.strace,
            "configurations": self.configs,
            "kill_runs": self.kill_runs,
            "children_really_killed_by_SIGKILL": self.kills_hit,
            "injections_never_reached": self.kills_not_hit,
            "kills_before_rename_completed": self.kills_before_rename,
            "kills_after_rename_completed": self.kills_after_rename,
            "kills_on_rename_entry": self.kills_at_rename_entry,
            "fs_kills_leaving_partial_nonempty_temp": self.kills_with_partial_temp,
            "fs_kills_leaving_a_temp_sibling": self.kills_with_temp_left,
            "kills_on_socket_receive": self.kills_net,
            "kills_by_syscall": self.kills_by_syscall,
            "fs_history_positions": self.history_positions,
            "fs_history_positions_killed": self.history_positions_killed,
            "crash_histories": self.crash_histories,
            "crash_prefixes": self.crash_prefixes,
            "crash_states": self.crash_states,
            "crash_states_with_a_dropped_write": self.crash_states_with_dropped_writes,
            "max_unsynced_writes_at_a_prefix": self.crash_max_pending,
            "fs_history_sample": self.history_sample,
        })
    }
}

fn os_cfgs(tier: Tier) -> Vec<(Cfg, DestKind)> {
    let mut v = Vec::new();
    // (n, chunk): 9/4 = three chunks; thorough adds the empty, one-byte, boundary and a
    // multi-buffer stream (20000 bytes in 8 KiB chunks: larger than io::copy's buffer)
    let shapes: Vec<(usize, usize)> =
        tier.pick(vec![(0, 4), (9, 4)], vec![(0, 4), (1, 4), (5, 4), (8, 4), (9, 4), (13, 4), (10, 3), (20000, 8192)]);
    for &puller in super::ALL_PULLERS.iter().filter(|p| !p.is_value()) {
        for zstd in [false, true] {
            if !puller.compatible(zstd) {
                continue;
            }
            for &(n, chunk) in &shapes {
                let trailer = if puller.has_trailer() { 3.min(n) } else { 0 };
                for dest in [DestKind::Absent, DestKind::Existing] {
                    v.push((Cfg { puller, zstd, n, chunk, trailer, tamper: Tamper::None, reject: false }, dest));
                }
            }
        }
    }
    v
}

fn old_of(kind: DestKind) -> Option<&'static [u8]> {
    match kind {
        DestKind::Existing => Some(OLD_CONTENT),
        _ => None,
    }
}

/// What a complete pull of `cfg` publishes; `wire` = the chunk bytes the producer sent.
fn complete_content(cfg: &Cfg, wire: &[u8]) -> Vec<u8> {
    match cfg.puller {
        Puller::BeveZstFile => wire.to_vec(),
        Puller::TrailerFile | Puller::TrailerAsync => {
            let l = logical(cfg);
            l[..l.len() - cfg.trailer.min(l.len())].to_vec()
        }
        _ => logical(cfg),
    }
}

/// Oracle of part 2 for one killed (or not killed) child run.
fn judge_kill(cfg: &Cfg, kind: DestKind, mode: &Mode, complete: &[u8], o: &ChildObs) -> Option<(String, String)> {
    let dest_s = o.dest.to_string_lossy().to_string();
    let renamed = o
        .trace
        .events
        .iter()
        .any(|e| e.completed && e.ret == 0 && matches!(&e.op, Op::Rename { to, .. } if *to == dest_s));
    let name = super::DEST_NAME.to_string();
    let now = o.after.get(&name);
    let was = o.before.get(&name);
    let (fam, sc) = match mode {
        Mode::FsKill { name, .. } => ("fs", name.as_str()),
        Mode::NetKill { name, .. } => ("net", name.as_str()),
        Mode::FsDry => ("fs", "dry"),
        Mode::NetDry => ("net", "dry"),
    };
    let p = cfg.puller.name();
    let describe = |e: Option<&Entry>| match e {
        None => "absent".to_string(),
        Some(Entry::File(b)) => format!("file[{}]{}", b.len(), hex(&b[..b.len().min(24)])),
        Some(_) => "not a file".to_string(),
    };
    let ctx = format!(
        "{p} zstd={} n={} dest={kind:?} killed by {mode:?} (child killed={}, rename completed={renamed})",
        cfg.zstd, cfg.n, o.trace.killed
    );
    if renamed {
        if now != Some(&Entry::File(complete.to_vec())) {
            return Some((
                format!("C10:kill:published-incomplete:{fam}:{sc}:{p}"),
                format!("{ctx}: destination is {} but the complete content is [{}]{}", describe(now), complete.len(), hex(&complete[..complete.len().min(24)])),
            ));
        }
    } else if now != was && now != Some(&Entry::File(complete.to_vec())) {
        return Some((
            format!("C10:kill:destination-changed-before-rename:{fam}:{sc}:{p}"),
            format!("{ctx}: destination was {} and is now {}", describe(was), describe(now)),
        ));
    }
    None
}

pub fn run_parts_2_3(ctx: &Ctx, tier: Tier, samples: &Samples) -> P23 {
    let mut out = P23 { exhaustive: true, ..Default::default() };
    match strace_version() {
        Ok(v) => out.strace = v,
        Err(e) => ctx.machinery(format!("strace is required for C10 parts 2 and 3: {e}")),
    }
    let cfgs = os_cfgs(tier);
    out.configs = cfgs.len() as u64;

    // ---- phase A: dry runs (fs + net) per configuration
    struct Dry {
        fs: Result<ChildObs, String>,
        net: Result<ChildObs, String>,
    }
    let dries: Vec<Mutex<Option<Dry>>> = cfgs.iter().map(|_| Mutex::new(None)).collect();
    let mk = |_w: usize| match srv::new_listener() {
        Ok(l) => l,
        Err(e) => ctx.machinery(format!("cannot bind a loopback listener: {e}")),
    };
    crate::par::for_each_index(cfgs.len() as u64 * 2, 1, mk, |l, i| {
        let ci = (i / 2) as usize;
        let (cfg, kind) = &cfgs[ci];
        let r = run_child(cfg, *kind, if i % 2 == 0 { &Mode::FsDry } else { &Mode::NetDry }, l);
        let mut g = dries[ci].lock().unwrap();
        let d = g.get_or_insert_with(|| Dry { fs: Err("pending".into()), net: Err("pending".into()) });
        if i % 2 == 0 {
            d.fs = r;
        } else {
            d.net = r;
        }
    });

    // ---- phase B: part 3 on every recorded history, and the kill plan
    struct Plan {
        ci: usize,
        mode: Mode,
    }
    let mut plan: Vec<Plan> = Vec::new();
    let mut completes: Vec<Vec<u8>> = Vec::new();
    let mut crash_classes: BTreeSet<String> = BTreeSet::new();
    let mut fs_positions: Vec<BTreeSet<(String, usize)>> = Vec::new();
    for (ci, (cfg, kind)) in cfgs.iter().enumerate() {
        let d = dries[ci].lock().unwrap().take().unwrap();
        let (fs, net) = match (d.fs, d.net) {
            (Ok(a), Ok(b)) => (a, b),
            (Err(e), _) | (_, Err(e)) => {
                out.errors.push(format!("dry run of {cfg:?}/{kind:?}: {e}"));
                completes.push(vec![]);
                fs_positions.push(BTreeSet::new());
                continue;
            }
        };
        let complete = complete_content(cfg, &fs.log.delivered());
        completes.push(complete.clone());
        let name = super::DEST_NAME.to_string();
        // the dry runs must be plain successful pulls
        for (label, o) in [("fs", &fs), ("net", &net)] {
            if o.exit_code != Some(0) || o.trace.killed {
                out.errors.push(format!(
                    "{label} dry run of {cfg:?}/{kind:?} did not succeed: exit={:?} signal={:?} stderr={}",
                    o.exit_code,
                    o.signal,
                    o.stderr.chars().take(300).collect::<String>()
                ));
            }
            if let Some((k, w)) = judge_kill(cfg, *kind, if label == "fs" { &Mode::FsDry } else { &Mode::NetDry }, &complete, o) {
                ctx.violation(k, w, json!({"part": 2, "cfg": cfg, "dest": kind, "mode": "dry"}));
            } else if o.after.get(&name) != Some(&Entry::File(complete.clone())) && o.exit_code == Some(0) {
                ctx.violation(
                    format!("C10:published-content-wrong:child:{}", cfg.puller.name()),
                    format!("{cfg:?}/{kind:?}: successful child pull left {:?}", o.after.get(&name).map(|_| "other content")),
                    json!({"part": 2, "cfg": cfg, "dest": kind, "mode": "dry"}),
                );
            }
        }
        if !out.errors.is_empty() {
            fs_positions.push(BTreeSet::new());
            continue;
        }
        // ---- part 3
        let dest_s = fs.dest.to_string_lossy().to_string();
        let tmp_s = temp_sibling(&fs.dest).to_string_lossy().to_string();
        let rep = crash_model(&fs.trace.events, &dest_s, old_of(*kind), &complete);
        out.crash_histories += 1;
        out.crash_states += rep.states;
        out.crash_prefixes += rep.prefixes;
        out.crash_max_pending = out.crash_max_pending.max(rep.max_pending);
        out.crash_states_with_dropped_writes += rep.states.saturating_sub(rep.prefixes);
        if rep.capped {
            out.exhaustive = false;
        }
        let case3 = json!({"part": 3, "cfg": cfg, "dest": kind});
        let p = cfg.puller.name();
        for (class, what) in &rep.bad {
            ctx.violation(
                format!("C10:crash-state:{class}:{p}"),
                format!("{p} zstd={} n={} dest={kind:?}: {what}", cfg.zstd, cfg.n),
                case3.clone(),
            );
            crash_classes.insert(format!("{class}:{p}"));
        }
        if !rep.unmodelled.is_empty() {
            out.model_errors.push(format!("part 3: syscall outside the crash model in the history of {cfg:?}: {}", rep.unmodelled[0]));
        }
        // fidelity of the model and shape of the history
        if rep.final_dest.as_deref() != Some(&complete[..]) && !ctx.has_violation() {
            out.model_errors.push(format!(
                "part 3: replaying the recorded history of {cfg:?}/{kind:?} in the model gives {:?} at the destination, the real run gave the complete content",
                rep.final_dest.as_ref().map(|c| hex(c))
            ));
        }
        if rep.renames_onto_dest == 0 && !ctx.has_violation() {
            out.model_errors.push(format!("part 3: no rename onto the destination in the history of {cfg:?}"));
        }
        if (rep.writes == 0 && !complete.is_empty()) && !ctx.has_violation() {
            out.model_errors.push(format!("part 3: no write in the history of {cfg:?}"));
        }
        crash_classes.insert(format!("shape:w{}s{}r{}", rep.writes.min(3), rep.syncs.min(2), rep.renames_onto_dest.min(2)));
        if out.history_sample.is_empty() && rep.writes >= 2 {
            out.history_sample = fs.trace.events.iter().map(|e| show_ev(e, &dest_s, &tmp_s)).collect();
        }
        if ci < 2 {
            samples.offer(|| {
            json!({"part": 3, "cfg": cfg, "dest": kind, "history": fs.trace.events.iter().map(|e| e.name.clone()).collect::<Vec<_>>(),
                   "crash_prefixes": rep.prefixes, "crash_states": rep.states})
            });
        }
        // ---- kill plan: every (syscall name, k) of the measured histories
        let mut counts: BTreeMap<String, usize> = BTreeMap::new();
        let mut positions = BTreeSet::new();
        for e in &fs.trace.events {
            let c = counts.entry(e.name.clone()).or_default();
            *c += 1;
            positions.insert((e.name.clone(), *c));
        }
        out.history_positions += positions.len() as u64;
        fs_positions.push(positions);
        for (name, c) in &counts {
            for k in 1..=*c {
                plan.push(Plan { ci, mode: Mode::FsKill { name: name.clone(), k } });
            }
        }
        // per-thread maximum of receives (strace counts `when=` per thread)
        for nk in NET_KILL {
            let mut per: BTreeMap<u32, usize> = BTreeMap::new();
            for e in net.trace.events.iter().filter(|e| e.name == *nk) {
                *per.entry(e.pid).or_default() += 1;
            }
            let m = per.values().copied().max().unwrap_or(0);
            for k in 1..=m {
                plan.push(Plan { ci, mode: Mode::NetKill { name: nk.to_string(), k } });
            }
        }
    }
    if !out.errors.is_empty() {
        return out;
    }

    // ---- phase C: kill runs
    struct KillOut {
        hit: bool,
        renamed: bool,
        at_rename: bool,
        temp_left: bool,
        partial_temp: bool,
        pos: Option<(String, usize)>,
        err: Option<String>,
    }
    let results: Vec<Mutex<Option<KillOut>>> = plan.iter().map(|_| Mutex::new(None)).collect();
    crate::par::for_each_index(plan.len() as u64, 1, mk, |l, i| {
        let pl = &plan[i as usize];
        let (cfg, kind) = &cfgs[pl.ci];
        let complete = &completes[pl.ci];
        let o = match run_child(cfg, *kind, &pl.mode, l) {
            Ok(o) => o,
            Err(e) => {
                *results[i as usize].lock().unwrap() = Some(KillOut {
                    hit: false, renamed: false, at_rename: false, temp_left: false, partial_temp: false, pos: None, err: Some(e),
                });
                return;
            }
        };
        if let Some((k, w)) = judge_kill(cfg, *kind, &pl.mode, complete, &o) {
            let mode_json = match &pl.mode {
                Mode::FsKill { name, k } => json!({"family": "fs", "syscall": name, "when": k}),
                Mode::NetKill { name, k } => json!({"family": "net", "syscall": name, "when": k}),
                _ => json!(null),
            };
            ctx.violation(k, w, json!({"part": 2, "cfg": cfg, "dest": kind, "mode": mode_json}));
        }
        let dest_s = o.dest.to_string_lossy().to_string();
        let renamed = o
            .trace
            .events
            .iter()
            .any(|e| e.completed && e.ret == 0 && matches!(&e.op, Op::Rename { to, .. } if *to == dest_s));
        let killed_ev = o.trace.events.iter().position(|e| !e.completed);
        let at_rename = killed_ev.map(|j| matches!(o.trace.events[j].op, Op::Rename { .. })).unwrap_or(false);
        let pos = killed_ev.map(|j| {
            let n = &o.trace.events[j].name;
            (n.clone(), o.trace.events[..=j].iter().filter(|e| &e.name == n).count())
        });
        let tmp_name = super::temp_name().to_string();
        let temp = o.after.get(&tmp_name);
        let hit = o.trace.killed && (o.signal == Some(9) || o.exit_code == Some(137));
        let mut err = None;
        if o.trace.killed != (o.signal == Some(9) || o.exit_code == Some(137)) {
            err = Some(format!("strace exit status {:?}/{:?} disagrees with its trace (killed={})", o.exit_code, o.signal, o.trace.killed));
        }
        if !o.trace.killed && o.exit_code != Some(0) {
            err = Some(format!(
                "un-killed child of {cfg:?} under {:?} exited with {:?}: {}",
                pl.mode,
                o.exit_code,
                o.stderr.chars().take(200).collect::<String>()
            ));
        }
        let stride = (plan.len() as u64).div_ceil(5).max(1);
        if i % stride == 0 {
            samples.offer(|| {
            json!({"part": 2, "cfg": cfg, "dest": kind, "mode": format!("{:?}", pl.mode), "child_killed": hit, "rename_completed": renamed,
                   "dir_after": o.after.keys().collect::<Vec<_>>()})
            });
        }
        *results[i as usize].lock().unwrap() = Some(KillOut {
            hit,
            renamed,
            at_rename,
            temp_left: temp.is_some(),
            partial_temp: matches!(temp, Some(Entry::File(b)) if !b.is_empty() && b != complete),
            pos: if matches!(pl.mode, Mode::FsKill { .. }) { pos } else { None },
            err,
        });
    });
    let mut killed_positions: Vec<BTreeSet<(String, usize)>> = cfgs.iter().map(|_| BTreeSet::new()).collect();
    let mut kill_points: BTreeSet<String> = BTreeSet::new();
    for (pl, r) in plan.iter().zip(results.iter()) {
        let r = r.lock().unwrap().take().unwrap();
        out.kill_runs += 1;
        if let Some(e) = r.err {
            out.errors.push(e);
            continue;
        }
        if !r.hit {
            out.kills_not_hit += 1;
            continue;
        }
        out.kills_hit += 1;
        let (fam, name, k) = match &pl.mode {
            Mode::FsKill { name, k } => ("fs", name.clone(), *k),
            Mode::NetKill { name, k } => ("net", name.clone(), *k),
            _ => unreachable!(),
        };
        *out.kills_by_syscall.entry(name.clone()).or_default() += 1;
        kill_points.insert(format!("{}:{fam}:{name}:{k}", pl.ci));
        if fam == "net" && name != "exit_group" {
            out.kills_net += 1;
        }
        if r.renamed {
            out.kills_after_rename += 1;
        } else {
            out.kills_before_rename += 1;
        }
        if r.at_rename {
            out.kills_at_rename_entry += 1;
        }
        // (fs family only: at a socket-receive kill the writer side races with the kill)
        if r.temp_left && fam == "fs" {
            out.kills_with_temp_left += 1;
        }
        if r.partial_temp && fam == "fs" {
            out.kills_with_partial_temp += 1;
        }
        if let Some(p) = r.pos {
            killed_positions[pl.ci].insert(p);
        }
    }
    for (ci, want) in fs_positions.iter().enumerate() {
        out.history_positions_killed += want.intersection(&killed_positions[ci]).count() as u64;
        let missing: Vec<_> = want.difference(&killed_positions[ci]).collect();
        if !missing.is_empty() {
            ctx.note(format!("fs history positions of {:?} never killed: {missing:?}", cfgs[ci]));
        }
    }
    out.distinct_kill_points = kill_points.len() as u64;
    out.distinct_crash_classes = crash_classes.len() as u64;
    out
}

// ------------------------------------------------------------------ replay of one part-2/3 case

pub fn replay(case: &Value) -> Result<(), String> {
    let cfg: Cfg = serde_json::from_value(case["cfg"].clone()).map_err(|e| e.to_string())?;
    let kind: DestKind = serde_json::from_value(case["dest"].clone()).map_err(|e| e.to_string())?;
    strace_version()?;
    let l = srv::new_listener().map_err(|e| e.to_string())?;
    let dry = run_child(&cfg, kind, &Mode::FsDry, &l)?;
    let complete = complete_content(&cfg, &dry.log.delivered());
    match case["part"].as_u64() {
        Some(3) => {
            let dest_s = dry.dest.to_string_lossy().to_string();
            let rep = crash_model(&dry.trace.events, &dest_s, old_of(kind), &complete);
            if rep.bad.is_empty() {
                Ok(())
            } else {
                Err(rep.bad.iter().map(|(c, w)| format!("{c}: {w}")).collect::<Vec<_>>().join("\n"))
            }
        }
        _ => {
            let mode = match case["mode"]["family"].as_str() {
                Some("fs") => Mode::FsKill {
                    name: case["mode"]["syscall"].as_str().unwrap_or("").into(),
                    k: case["mode"]["when"].as_u64().unwrap_or(1) as usize,
                },
                Some("net") => Mode::NetKill {
                    name: case["mode"]["syscall"].as_str().unwrap_or("").into(),
                    k: case["mode"]["when"].as_u64().unwrap_or(1) as usize,
                },
                _ => Mode::FsDry,
            };
            let o = if mode == Mode::FsDry { dry } else { run_child(&cfg, kind, &mode, &l)? };
            match judge_kill(&cfg, kind, &mode, &complete, &o) {
                None => Ok(()),
                Some((k, w)) => Err(format!("{k} :: {w}")),
            }
        }
    }
}

