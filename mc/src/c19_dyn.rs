//! C19, axis B — the broadcast clause while the node set changes.
//!
//! A dynamic scenario = (fleet, initial node set, warm-up or not, a sequence of
//! add_node / remove_node over 4 node names x 4 tag sets, a health assignment).
//! Four fake nodes exist throughout (also for names that are not, or no longer,
//! members: a removed node that is still contacted is seen). After the sequence:
//!   round "healthy": for every requested tag subset: filter_nodes, broadcast_json,
//!                    map_reduce_json, all nodes up;
//!   "prep":          one broadcast in which the nodes chosen to be `I` answer and
//!                    then close the (now cached) connection while idle;
//!   round "mixed":   the same three calls per requested subset while the nodes
//!                    chosen to be `R` are dead (refuse every connect) and the
//!                    `I` nodes sit behind a half-open cached client;
//!   "final":         everything up again, one broadcast to all.
//!
//! Judged (the last sentence of the property, plus O1/O3/O4 as in `c19.rs`):
//!   * the nodes with a result (broadcast) / an entry handed to the reducer
//!     (map_reduce) are exactly the CURRENT members carrying all requested tags,
//!     each exactly once; membership follows what add_node / remove_node returned;
//!   * no other fake node sees an attempt;
//!   * `filter_nodes(tags)` names the same set as the broadcast addressed
//!     (differential; the two share one documented selection rule);
//!   * an addressed node sees at most max_attempts attempts; its result is its
//!     reply if it replied, a transport error if it is dead; a healthy node whose
//!     cached connection was not just killed must answer Ok (not wedged).

use super::maint::{asyncly, blocking};
use super::node::{Attempt, FakeNode, Garbage, Out, Realized};
use super::{Driver, Kind, Res, TAGS, TAG_MAX_ATTEMPTS, TAG_NODES, TAG_NODE_TIMEOUT, Viol, mask_tags, norm_value, path};
use repe::NodeConfig;
use serde_json::{Value, json};
use std::collections::BTreeMap;

/// Initial node sets: `Some(mask)` = member with these tags.
pub const INITS: [[Option<u8>; TAG_NODES]; 3] =
    [[Some(0), Some(1), Some(2), Some(3)], [Some(3), None, Some(1), None], [None, None, None, None]];

pub const OP_LETTERS: u64 = (TAG_NODES + TAG_NODES * 4) as u64;

#[derive(Clone, Copy, Debug, PartialEq, Eq)]
pub enum DynOp {
    Remove(usize),
    Add(usize, u8),
}

impl DynOp {
    pub fn from_digit(d: u8) -> DynOp {
        let d = d as usize;
        if d < TAG_NODES { DynOp::Remove(d) } else { DynOp::Add((d - TAG_NODES) / 4, ((d - TAG_NODES) % 4) as u8) }
    }
    pub fn show(&self) -> String {
        match self {
            DynOp::Remove(i) => format!("remove n{i}"),
            DynOp::Add(i, m) => format!("add n{i}:{{{}}}", mask_tags(*m).join(",")),
        }
    }
    fn to_json(self) -> Value {
        match self {
            DynOp::Remove(i) => json!({"remove": i}),
            DynOp::Add(i, m) => json!({"add": i, "tags": m}),
        }
    }
    fn from_json(v: &Value) -> Option<DynOp> {
        if let Some(i) = v.get("remove") {
            let i = i.as_u64()? as usize;
            return (i < TAG_NODES).then_some(DynOp::Remove(i));
        }
        let i = v.get("add")?.as_u64()? as usize;
        let m = v.get("tags")?.as_u64()? as u8;
        (i < TAG_NODES && m < 4).then_some(DynOp::Add(i, m))
    }
}

/// Health of a node in the mixed round.
pub const H_DEAD: u8 = 1;
pub const H_IDLE_CLOSED: u8 = 2;

#[derive(Clone, Debug, PartialEq)]
pub struct DynScenario {
    pub kind: Kind,
    pub init: usize,
    pub warm: bool,
    pub ops: Vec<DynOp>,
    pub health: [u8; TAG_NODES],
}

impl DynScenario {
    pub fn to_json(&self) -> Value {
        json!({
            "shape": "dynamic",
            "fleet": self.kind.name(),
            "init": self.init,
            "init_nodes": INITS[self.init].iter().map(|m| m.map(|m| mask_tags(m))).collect::<Vec<_>>(),
            "warm": self.warm,
            "ops": self.ops.iter().map(|o| o.to_json()).collect::<Vec<_>>(),
            "health": self.health.to_vec(),
            "tags": TAGS,
            "legend": "tags are bit masks over `tags`; health per node in the mixed round: 0 up, 1 dead (refuses every connect), 2 cached connection closed by the node while idle",
        })
    }
    pub fn from_json(v: &Value) -> Option<DynScenario> {
        let init = v["init"].as_u64()? as usize;
        if init >= INITS.len() {
            return None;
        }
        let h = v["health"].as_array()?;
        if h.len() != TAG_NODES {
            return None;
        }
        let mut health = [0u8; TAG_NODES];
        for (i, x) in h.iter().enumerate() {
            health[i] = x.as_u64().filter(|x| *x < 3)? as u8;
        }
        Some(DynScenario {
            kind: Kind::parse(v["fleet"].as_str()?)?,
            init,
            warm: v["warm"].as_bool()?,
            ops: v["ops"].as_array()?.iter().map(DynOp::from_json).collect::<Option<Vec<_>>>()?,
            health,
        })
    }
    pub fn label(&self) -> String {
        format!(
            "{} node-set init=[{}]{} ops=[{}] mixed-health=[{}]",
            self.kind.name(),
            show_model(&INITS[self.init]),
            if self.warm { " warmed-up" } else { "" },
            self.ops.iter().map(|o| o.show()).collect::<Vec<_>>().join("; "),
            self.health.iter().map(|h| ["up", "dead", "idle-closed"][*h as usize]).collect::<Vec<_>>().join(","),
        )
    }
}

type Model = [Option<u8>; TAG_NODES];

fn show_model(m: &Model) -> String {
    m.iter()
        .enumerate()
        .filter_map(|(i, t)| t.map(|t| format!("n{i}:{{{}}}", mask_tags(t).join(","))))
        .collect::<Vec<_>>()
        .join(" ")
}

fn node_index(name: &str) -> Option<usize> {
    (0..TAG_NODES).find(|i| format!("n{i}") == name)
}

// ---------------------------------------------------------------------------
// the node-set calls of both fleets

impl Driver {
    /// Ok(None) = added, Ok(Some(e)) = rejected with `e`.
    fn add_node(&self, cfg: NodeConfig) -> Result<Option<String>, Res> {
        match self {
            Driver::B(f) => blocking(f, move |f| f.add_node(cfg).err().map(|e| e.to_string())),
            Driver::A { fleet, rt } => asyncly(rt.as_ref().unwrap(), async { fleet.add_node(cfg).await.err().map(|e| e.to_string()) }),
        }
    }

    fn remove_node(&self, name: &str) -> Result<bool, Res> {
        match self {
            Driver::B(f) => {
                let name = name.to_string();
                blocking(f, move |f| f.remove_node(&name))
            }
            Driver::A { fleet, rt } => asyncly(rt.as_ref().unwrap(), async { fleet.remove_node(name).await }),
        }
    }

    /// (name, tags) of every node `filter_nodes` returns, in the order returned.
    fn filter_nodes(&self, tags: &[&str]) -> Result<Vec<(String, Vec<String>)>, Res> {
        let conv = |v: Vec<repe::Node>| v.into_iter().map(|n| (n.name, n.tags.into_iter().collect::<Vec<_>>())).collect::<Vec<_>>();
        match self {
            Driver::B(f) => {
                let tags: Vec<String> = tags.iter().map(|s| s.to_string()).collect();
                blocking(f, move |f| conv(f.filter_nodes(&tags)))
            }
            Driver::A { fleet, rt } => asyncly(rt.as_ref().unwrap(), async { conv(fleet.filter_nodes(tags).await) }),
        }
    }

    /// The entries the reducer was handed, in the order it saw them.
    fn map_reduce(&self, tags: &[&str], call: u64) -> Result<Vec<(String, Res)>, Res> {
        let params = json!({"call": call});
        let p = path(call);
        let reduce = |v: Vec<repe::RemoteResult<Value>>| v.into_iter().map(|r| (r.node.clone(), norm_value(r))).collect::<Vec<_>>();
        match self {
            Driver::B(f) => {
                let tags: Vec<String> = tags.iter().map(|s| s.to_string()).collect();
                blocking(f, move |f| f.map_reduce_json(&p, Some(&params), &tags, reduce))
            }
            Driver::A { fleet, rt } => asyncly(rt.as_ref().unwrap(), async { fleet.map_reduce_json(&p, Some(&params), tags, reduce).await }),
        }
    }
}

#[derive(Clone, Copy, Debug, PartialEq, Eq)]
pub enum FanApi {
    Broadcast,
    MapReduce,
}

impl FanApi {
    pub fn name(self) -> &'static str {
        match self {
            FanApi::Broadcast => "broadcast_json",
            FanApi::MapReduce => "map_reduce_json",
        }
    }
}

#[derive(Clone, Debug)]
pub struct OpObs {
    pub op: DynOp,
    /// "added" / "rejected: .." / "removed" / "not-found"
    pub ret: Result<String, Res>,
    pub was_member: bool,
    pub had_connection: bool,
    pub connection_outlived_removal: bool,
}

#[derive(Clone, Debug)]
pub struct Round {
    pub phase: &'static str,
    pub api: FanApi,
    pub requested: u8,
    pub model: Model,
    pub dead: [bool; TAG_NODES],
    /// the node killed its cached connection while idle and the fleet has not used the client since
    pub excused: [bool; TAG_NODES],
    /// `filter_nodes(requested)` asked right before (same membership)
    pub filter: Option<Result<Vec<(String, Vec<String>)>, Res>>,
    pub results: Result<Vec<(String, Res)>, Res>,
    pub attempts: Vec<Vec<Attempt>>,
    pub expected_replies: BTreeMap<(usize, u64), Value>,
    pub elapsed: std::time::Duration,
}

/// Nothing in a dynamic scenario waits (no silent outcome, retry delay 1 ms, node
/// timeout 3 s): a fan-out that took this long was stalled by the machine, and a
/// stall of 3 s would turn into a timeout of the fleet's. Such a run is repeated,
/// like the single-node runs that overran (never judged on its timing).
const FAN_OUT_STALLED: std::time::Duration = std::time::Duration::from_millis(1000);

#[derive(Clone, Debug, Default)]
pub struct DynObs {
    pub ops: Vec<OpObs>,
    pub rounds: Vec<Round>,
    pub aborted: bool,
    pub disturbed: Option<String>,
}

struct Run<'a> {
    nodes: &'a [FakeNode],
    driver: &'a Driver,
    model: Model,
    dead: [bool; TAG_NODES],
    carry: [bool; TAG_NODES],
    call: u64,
}

impl Run<'_> {
    fn fan(&mut self, phase: &'static str, api: FanApi, q: u8, filter: Option<Result<Vec<(String, Vec<String>)>, Res>>, obs: &mut DynObs) -> Result<bool, String> {
        self.call += 1;
        let mut excused = [false; TAG_NODES];
        for (i, n) in self.nodes.iter().enumerate() {
            let start = n.begin_call(self.call)?;
            self.carry[i] |= start.excused;
            let addressed = self.model[i].is_some_and(|m| m & q == q);
            if addressed {
                excused[i] = std::mem::replace(&mut self.carry[i], false);
            }
        }
        let tags = mask_tags(q);
        let t0 = std::time::Instant::now();
        let results: Result<Vec<(String, Res)>, Res> = match api {
            FanApi::Broadcast => self.driver.broadcast(&tags, self.call).map(|m| m.into_iter().collect()),
            FanApi::MapReduce => self.driver.map_reduce(&tags, self.call),
        };
        let elapsed = t0.elapsed();
        let hung = matches!(results, Err(Res::Hang));
        if !hung && elapsed >= FAN_OUT_STALLED && obs.disturbed.is_none() {
            obs.disturbed = Some(format!("{} #{} took {} ms", api.name(), self.call, elapsed.as_millis()));
        }
        let mut attempts = Vec::new();
        let mut expected = BTreeMap::new();
        for (i, n) in self.nodes.iter().enumerate() {
            let a = if hung { Vec::new() } else { n.end_call(self.call)? };
            for x in &a {
                if x.realized == Realized::ReplyOk {
                    expected.insert((i, x.serial), n.sh.reply_value(x.serial));
                }
            }
            attempts.push(a);
        }
        obs.rounds.push(Round {
            phase,
            api,
            requested: q,
            model: self.model,
            dead: self.dead,
            excused,
            filter,
            results,
            attempts,
            expected_replies: expected,
            elapsed,
        });
        Ok(hung)
    }

    /// filter_nodes + broadcast_json + map_reduce_json for every requested subset.
    fn sweep(&mut self, phase: &'static str, map_reduce_first: bool, obs: &mut DynObs) -> Result<bool, String> {
        let full = (1u8 << TAGS.len()) - 1;
        let order = if map_reduce_first { [FanApi::MapReduce, FanApi::Broadcast] } else { [FanApi::Broadcast, FanApi::MapReduce] };
        for q in 0..=full {
            let filter = self.driver.filter_nodes(&mask_tags(q));
            for api in order {
                if self.fan(phase, api, q, Some(filter.clone()), obs)? {
                    return Ok(true);
                }
            }
        }
        Ok(false)
    }
}

pub fn run_dyn(ds: &DynScenario) -> Result<DynObs, String> {
    let mut nodes = Vec::new();
    let mut cfgs = Vec::new();
    let cfg_for = |i: usize, port: u16, mask: u8| -> Result<NodeConfig, String> {
        Ok(NodeConfig::new("127.0.0.1", port)
            .and_then(|c| c.with_name(format!("n{i}")))
            .and_then(|c| c.with_timeout(TAG_NODE_TIMEOUT))
            .map_err(|e| e.to_string())?
            .with_tags(mask_tags(mask)))
    };
    for i in 0..TAG_NODES {
        let n = FakeNode::start(&format!("n{i}"), vec![], Garbage::BadSpec, 0)?;
        if let Some(m) = INITS[ds.init][i] {
            cfgs.push(cfg_for(i, n.port(), m)?);
        }
        nodes.push(n);
    }
    let driver = Driver::new(ds.kind, cfgs, TAG_MAX_ATTEMPTS)?;
    let mut obs = DynObs::default();
    let mut run = Run { nodes: &nodes, driver: &driver, model: INITS[ds.init], dead: [false; TAG_NODES], carry: [false; TAG_NODES], call: 0 };

    let mut body = || -> Result<bool, String> {
        if ds.warm && run.fan("warm-up", FanApi::Broadcast, 0, None, &mut obs)? {
            return Ok(true);
        }
        for op in &ds.ops {
            let (i, was_member) = match op {
                DynOp::Remove(i) | DynOp::Add(i, _) => (*i, run.model[*i].is_some()),
            };
            let had_connection = was_member && driver.is_connected(&format!("n{i}")) == Some(true);
            let mut lingering = false;
            let ret = match op {
                DynOp::Remove(i) => driver.remove_node(&format!("n{i}")).map(|removed| {
                    if removed {
                        run.model[*i] = None;
                        run.carry[*i] = false;
                        // the fleet has discarded the node's client: let the node see the connection end
                        if had_connection && !nodes[*i].wait_conns_gone() {
                            lingering = true;
                        }
                        "removed".to_string()
                    } else {
                        "not-found".to_string()
                    }
                }),
                DynOp::Add(i, m) => driver.add_node(cfg_for(*i, nodes[*i].port(), *m)?).map(|rejected| match rejected {
                    None => {
                        run.model[*i] = Some(*m);
                        "added".to_string()
                    }
                    Some(e) => format!("rejected: {e}"),
                }),
            };
            let bad = ret.is_err();
            obs.ops.push(OpObs { op: *op, ret, was_member, had_connection, connection_outlived_removal: lingering });
            if bad {
                return Ok(true);
            }
        }
        // which of the two calls meets the freshly changed node set / the unhealthy nodes first
        let map_reduce_first = ds.health.iter().map(|h| *h as usize).sum::<usize>() % 2 == 1;
        if run.sweep("healthy", map_reduce_first, &mut obs)? {
            return Ok(true);
        }
        // prep: the `I` nodes answer once more and then close the connection while idle
        for (i, n) in nodes.iter().enumerate() {
            if ds.health[i] == H_IDLE_CLOSED {
                n.set_script(vec![Out::IdleClose]);
            }
        }
        if run.fan("prep", FanApi::Broadcast, 0, None, &mut obs)? {
            return Ok(true);
        }
        for (i, n) in nodes.iter().enumerate() {
            n.set_script(Vec::new());
            if ds.health[i] == H_DEAD {
                n.set_dead(true);
                run.dead[i] = true;
            }
        }
        if run.sweep("mixed", map_reduce_first, &mut obs)? {
            return Ok(true);
        }
        for (i, n) in nodes.iter().enumerate() {
            n.set_dead(false);
            run.dead[i] = false;
            n.set_healthy();
        }
        run.fan("final", FanApi::Broadcast, 0, None, &mut obs)
    };
    obs.aborted = body()?;

    let mut errs = Vec::new();
    for n in &nodes {
        errs.extend(n.errors());
        if obs.disturbed.is_none() {
            // a request that surfaced after its call had returned
            obs.disturbed = n.anomalies().first().cloned();
        }
    }
    drop(driver);
    for n in nodes {
        n.stop();
    }
    if !errs.is_empty() {
        return Err(format!("fake node trouble: {}", errs.join("; ")));
    }
    Ok(obs)
}

fn show_results(r: &Result<Vec<(String, Res)>, Res>) -> String {
    match r {
        Ok(v) => format!("[{}]", v.iter().map(|(k, v)| format!("{k}: {}", v.show())).collect::<Vec<_>>().join(", ")),
        Err(e) => e.show(),
    }
}

pub fn trace(obs: &DynObs) -> String {
    let ops = obs.ops.iter().map(|o| format!("{} -> {}", o.op.show(), match &o.ret { Ok(s) => s.clone(), Err(e) => e.show() })).collect::<Vec<_>>().join("; ");
    let rounds = obs
        .rounds
        .iter()
        .map(|r| {
            format!(
                "{}:{} req={{{}}} -> {}",
                r.phase,
                r.api.name(),
                mask_tags(r.requested).join(","),
                match &r.results {
                    Ok(v) => {
                        // by name: the order in which a HashMap hands out its values is not an observation
                        let mut e: Vec<String> = v.iter().map(|(k, v)| format!("{k}:{}", v.class())).collect();
                        e.sort();
                        e.join(",")
                    }
                    Err(e) => e.show(),
                }
            )
        })
        .collect::<Vec<_>>()
        .join(" | ");
    format!("ops: {ops} || {rounds}")
}

pub fn judge_dyn(ds: &DynScenario, obs: &DynObs) -> Vec<Viol> {
    let f = ds.kind.name();
    let label = ds.label();
    let mut out: Vec<Viol> = Vec::new();
    let history = obs.ops.iter().map(|o| format!("{} -> {}", o.op.show(), match &o.ret { Ok(s) => s.clone(), Err(e) => e.show() })).collect::<Vec<_>>().join("; ");
    for o in &obs.ops {
        let (key, what) = match &o.ret {
            Err(Res::Hang) => (format!("C19:node-set-call-hung:{f}"), format!("{} did not return within the watchdog", o.op.show())),
            Err(e) => (format!("C19:panic:{f}"), format!("{} panicked: {}", o.op.show(), e.show())),
            Ok(_) => continue,
        };
        if !out.iter().any(|v| v.key == key) {
            out.push(Viol { key, what: format!("{what}; scenario {label}; history: {history}") });
        }
    }
    for (ri, b) in obs.rounds.iter().enumerate() {
        let api = b.api.name();
        let ctx_txt = || {
            format!(
                "scenario {label}; history: {history}; members now: [{}]; step {} ({}) {api} requested={{{}}}{}; returned={}; attempts per node={:?}",
                show_model(&b.model),
                ri + 1,
                b.phase,
                mask_tags(b.requested).join(","),
                {
                    let d: Vec<String> = (0..TAG_NODES).filter(|i| b.dead[*i]).map(|i| format!("n{i}")).collect();
                    if d.is_empty() { String::new() } else { format!(" (dead: {})", d.join(",")) }
                },
                show_results(&b.results),
                b.attempts.iter().map(|a| a.len()).collect::<Vec<_>>()
            )
        };
        let mut add = |key: String, what: String| {
            if !out.iter().any(|v| v.key == key) {
                out.push(Viol { key, what: format!("{what}; {}", ctx_txt()) });
            }
        };
        let results = match &b.results {
            Ok(m) => m,
            Err(Res::Hang) => {
                add(format!("C19:call-hung:{f}"), format!("{api} did not return within the watchdog (>= 10 s of this process running)"));
                continue;
            }
            Err(e) => {
                add(format!("C19:panic:{f}"), format!("{api} panicked: {}", e.show()));
                continue;
            }
        };
        let (missing_key, extra_key) = match b.api {
            FanApi::Broadcast => (format!("C19:broadcast-missing-result:{f}"), format!("C19:broadcast-extra-result:{f}")),
            FanApi::MapReduce => (format!("C19:map-reduce-missing-entry:{f}"), format!("C19:map-reduce-extra-entry:{f}")),
        };
        let thing = match b.api {
            FanApi::Broadcast => "returned no result for it",
            FanApi::MapReduce => "handed the reducer no entry for it",
        };
        for i in 0..TAG_NODES {
            let name = format!("n{i}");
            let addressed = b.model[i].is_some_and(|m| m & b.requested == b.requested);
            let mine: Vec<&Res> = results.iter().filter(|(k, _)| *k == name).map(|(_, v)| v).collect();
            let n = b.attempts[i].len();
            let why_not = match b.model[i] {
                None => "is not a member of the fleet (never added, or removed)",
                Some(_) => "does not carry all requested tags",
            };
            if addressed && mine.is_empty() {
                add(missing_key.clone(), format!("{name} is a member carrying all requested tags but {api} {thing}"));
            }
            if addressed && mine.len() > 1 {
                add(extra_key.clone(), format!("{name} appears {} times in what {api} produced", mine.len()));
            }
            if !addressed && !mine.is_empty() {
                add(extra_key.clone(), format!("{name} {why_not} but {api} produced a result for it"));
            }
            if !addressed && n > 0 {
                add(format!("C19:broadcast-contacted-nonmatching-node:{f}"), format!("{name} {why_not} but received {n} attempt(s) during {api}"));
            }
            if !addressed {
                continue;
            }
            if n > TAG_MAX_ATTEMPTS {
                add(format!("C19:too-many-attempts:{f}"), format!("{name} received {n} attempts in one {api} with max_attempts={TAG_MAX_ATTEMPTS}"));
            }
            let Some(r) = mine.first() else { continue };
            let reply = b.attempts[i].iter().find(|a| a.realized == Realized::ReplyOk);
            if b.dead[i] {
                if !r.is_io() {
                    add(format!("C19:result-not-transport-error:{f}"), format!("{name} is dead but its {api} result is {}", r.show()));
                }
            } else if let Some(a) = reply {
                let good = b.expected_replies.get(&(i, a.serial)).is_some_and(|v| **r == Res::Ok(v.clone()));
                if !good {
                    add(format!("C19:broadcast-wrong-result:{f}"), format!("{name} answered attempt #{} but its {api} result is {}", a.serial, r.show()));
                }
            } else if b.excused[i] {
                // its cached connection was killed while idle and nothing reached the node: only a transport error fits
                if !r.is_io() {
                    add(format!("C19:result-not-transport-error:{f}"), format!("nothing reached {name} (its cached connection had been closed while idle) yet its {api} result is {}", r.show()));
                }
            } else {
                add(
                    format!("C19:broadcast-wrong-result:{f}"),
                    format!("{name} is up, addressed and no connection of it was killed, yet its {api} result is {} (attempts seen: {n})", r.show()),
                );
            }
        }
        let unknown: Vec<&String> = results.iter().map(|(k, _)| k).filter(|k| node_index(k).is_none()).collect();
        if !unknown.is_empty() {
            add(extra_key.clone(), format!("results for unknown nodes {unknown:?}"));
        }
        // differential: filter_nodes(tags) against the set this call addressed
        match &b.filter {
            Some(Ok(fl)) => {
                let mut a: Vec<&String> = fl.iter().map(|(k, _)| k).collect();
                let mut r: Vec<&String> = results.iter().map(|(k, _)| k).collect();
                a.sort();
                r.sort();
                if a != r {
                    add(
                        format!("C19:filter-nodes-differs-from-addressed-set:{f}"),
                        format!("filter_nodes({:?}) named {a:?} but {api} with the same tags addressed {r:?}", mask_tags(b.requested)),
                    );
                }
            }
            Some(Err(Res::Hang)) => add(format!("C19:node-set-call-hung:{f}"), "filter_nodes did not return within the watchdog".into()),
            Some(Err(e)) => add(format!("C19:panic:{f}"), format!("filter_nodes panicked: {}", e.show())),
            None => {}
        }
    }
    out
}

pub fn account_dyn(st: &mut super::Stats, ds: &DynScenario, obs: &DynObs) {
    let f = ds.kind.name();
    st.scenarios += 1;
    st.bump(&format!("{f}:dyn:scenarios"));
    if obs.aborted {
        st.bump(&format!("{f}:dyn:scenarios_aborted"));
    }
    let mut removed_before: [bool; TAG_NODES] = [false; TAG_NODES];
    for o in &obs.ops {
        st.calls += 1;
        let r = match &o.ret {
            Ok(s) => s.split(':').next().unwrap_or("").to_string(),
            Err(e) => e.class(),
        };
        match o.op {
            DynOp::Remove(i) => {
                st.bump(&format!("{f}:dyn:remove_node:{r}"));
                if o.had_connection && r == "removed" {
                    st.bump(&format!("{f}:dyn:remove_node:of_a_node_with_cached_connection"));
                }
                if o.connection_outlived_removal {
                    st.bump(&format!("{f}:dyn:remove_node:connection_outlived_removal(info)"));
                }
                if o.was_member != (r == "removed") {
                    st.bump(&format!("{f}:dyn:remove_node:return_differs_from_membership(info)"));
                }
                if r == "removed" {
                    removed_before[i] = true;
                }
            }
            DynOp::Add(i, m) => {
                st.bump(&format!("{f}:dyn:add_node:{r}"));
                if o.was_member == (r == "added") {
                    st.bump(&format!("{f}:dyn:add_node:return_differs_from_membership(info)"));
                }
                if r == "added" && removed_before[i] {
                    st.bump(&format!("{f}:dyn:add_node:re-added_a_removed_name"));
                    if INITS[ds.init][i] != Some(m) {
                        st.bump(&format!("{f}:dyn:add_node:re-added_with_different_tags"));
                    }
                }
            }
        }
    }
    for b in &obs.rounds {
        st.calls += 1;
        let api = b.api.name();
        let addressed: Vec<usize> = (0..TAG_NODES).filter(|i| b.model[*i].is_some_and(|m| m & b.requested == b.requested)).collect();
        st.bump(&format!("{f}:dyn:{api}"));
        st.bump(&format!("{f}:dyn:{api}:{}", b.phase));
        st.bump(&format!("{f}:dyn:{api}:addressing_{}_of_{TAG_NODES}", addressed.len()));
        let members = b.model.iter().filter(|m| m.is_some()).count();
        st.bump(&format!("{f}:dyn:fan_outs_over_{members}_members"));
        for a in &b.attempts {
            st.attempts += a.len() as u64;
        }
        if addressed.iter().any(|i| b.dead[*i]) {
            st.bump(&format!("{f}:dyn:{api}:addressing_a_dead_node"));
        }
        if addressed.iter().any(|i| b.excused[*i]) {
            st.bump(&format!("{f}:dyn:{api}:addressing_a_node_behind_a_half_open_client"));
        }
        if addressed.iter().any(|i| b.dead[*i] || b.excused[*i]) && addressed.iter().any(|i| !b.dead[*i] && !b.excused[*i]) {
            st.bump(&format!("{f}:dyn:{api}:mixed_health_among_addressed"));
        }
        if (0..TAG_NODES).any(|i| b.model[i].is_none() && INITS[ds.init][i].is_some()) {
            st.bump(&format!("{f}:dyn:{api}:after_a_removal"));
        }
        if let Ok(m) = &b.results {
            st.add(&format!("{f}:dyn:{api}:results"), m.len() as u64);
            if let Some(Ok(fl)) = &b.filter {
                st.bump(&format!("{f}:dyn:filter_nodes_compared"));
                // informational: the tags filter_nodes shows against the tags the node was added with
                for (name, tags) in fl {
                    if let Some(i) = node_index(name) {
                        let want: Vec<String> = b.model[i].map(|m| mask_tags(m).iter().map(|s| s.to_string()).collect()).unwrap_or_default();
                        if &want != tags {
                            st.bump(&format!("{f}:dyn:filter_nodes_shows_other_tags_than_added(info)"));
                        }
                    }
                }
            }
            st.signatures.insert(format!(
                "{f}|{api}|{}|req{}|{}",
                b.phase,
                b.requested,
                (0..TAG_NODES)
                    .map(|i| match m.iter().find(|(k, _)| node_index(k) == Some(i)) {
                        Some((_, r)) => r.class(),
                        None => "-".into(),
                    })
                    .collect::<Vec<_>>()
                    .join(",")
            ));
        }
    }
}
