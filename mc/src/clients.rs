//! E3 harness for the two tokio clients (`AsyncClient`, `WebSocketClient`) over
//! in-memory streams on a paused current-thread runtime, shared by C04
//! (correlation), C05 (whole frames) and C06 (dead connection / timeouts /
//! cancellation). The harness *is* the peer and the clock: every scenario is a
//! deterministic script.
#![allow(dead_code)]

use crate::frames::{self, FMT_JSON, Frame, Hdr};
use crate::memstream::{self, Ctl, End};
use futures_util::{SinkExt, StreamExt};
use repe::{AsyncClient, RepeError, WebSocketClient};
use serde_json::{Value, json};
use std::collections::BTreeMap;
use std::future::Future;
use std::pin::Pin;
use std::sync::atomic::{AtomicU64, Ordering};
use std::time::Duration;
use tokio_tungstenite::WebSocketStream;
use tokio_tungstenite::tungstenite::Message as WsMessage;

pub const HOUR: Duration = Duration::from_secs(3600);

/// Which AsyncClient API `Cli::call` goes through: its own calls, the relay variant
/// (`forward_message[_with_timeout]`, caller-chosen ids), or a mix (even tags forwarded).
/// Thread-local: every scenario runs on a current-thread runtime.
#[derive(Clone, Copy, Debug, PartialEq, Eq)]
pub enum Api {
    Call,
    Forward,
    Mixed,
}
thread_local! {
    static API: std::cell::Cell<Api> = const { std::cell::Cell::new(Api::Call) };
}
pub fn set_api(a: Api) {
    API.with(|c| c.set(a));
}
pub fn api() -> Api {
    API.with(|c| c.get())
}

#[derive(Clone, Copy, Debug, PartialEq, Eq, PartialOrd, Ord)]
pub enum Kind {
    Async,
    Ws,
}

impl Kind {
    pub fn name(self) -> &'static str {
        match self {
            Kind::Async => "AsyncClient",
            Kind::Ws => "WebSocketClient",
        }
    }
}

type BoxFut<T> = Pin<Box<dyn Future<Output = T> + Send>>;

#[derive(Clone)]
pub enum Cli {
    Async(AsyncClient),
    Ws(WebSocketClient),
}

/// Request body: `{"t": tag, "p": "<pad>"}`; the response body is the request id.
fn body(tag: u64, pad: usize) -> Value {
    if pad == 0 { json!({"t": tag}) } else { json!({"t": tag, "p": "x".repeat(pad)}) }
}

impl Cli {
    pub fn call(&self, tag: u64, timeout: Option<Duration>, pad: usize) -> BoxFut<Result<Value, RepeError>> {
        if matches!(self, Cli::Async(_)) && (api() == Api::Forward || (api() == Api::Mixed && tag % 2 == 0)) {
            return self.forward(tag, timeout, pad);
        }
        let b = body(tag, pad);
        match self.clone() {
            Cli::Async(c) => Box::pin(async move {
                match timeout {
                    Some(d) => c.call_json_with_timeout("/p", &b, d).await,
                    None => c.call_json("/p", &b).await,
                }
            }),
            Cli::Ws(c) => Box::pin(async move {
                match timeout {
                    Some(d) => c.call_json_with_timeout("/p", &b, d).await,
                    None => c.call_json("/p", &b).await,
                }
            }),
        }
    }
    /// A call whose method path is `path_len` bytes long ("/p" followed by padding segments).
    pub fn call_path(&self, tag: u64, path_len: usize) -> BoxFut<Result<Value, RepeError>> {
        let b = body(tag, 0);
        let mut path = String::from("/p");
        while path.len() < path_len {
            path.push(if path.len() % 17 == 0 { '/' } else { 'q' });
        }
        match self.clone() {
            Cli::Async(c) => Box::pin(async move { c.call_json(&path, &b).await }),
            Cli::Ws(c) => Box::pin(async move { c.call_json(&path, &b).await }),
        }
    }
    /// The relay variant: `AsyncClient::forward_message[_with_timeout]` with a caller-chosen id
    /// (ids from 1 << 40 upwards never collide with the client's own numbering). The WebSocket
    /// client has no such API (falls back to `call`).
    pub fn forward(&self, tag: u64, timeout: Option<Duration>, pad: usize) -> BoxFut<Result<Value, RepeError>> {
        let b = body(tag, pad);
        match self.clone() {
            Cli::Async(c) => Box::pin(async move {
                let msg = repe::Message::builder()
                    .id((1u64 << 40) + tag)
                    .query_str("/p")
                    .query_format(repe::QueryFormat::JsonPointer)
                    .body_json(&b)?
                    .build();
                let r = match timeout {
                    Some(d) => c.forward_message_with_timeout(&msg, d).await?,
                    None => c.forward_message(&msg).await?,
                };
                match r {
                    Some(m) if m.header.ec != 0 => Err(RepeError::Io(std::io::Error::other(format!("error reply {}", m.header.ec)))),
                    Some(m) => serde_json::from_slice(&m.body).map_err(RepeError::from),
                    None => Ok(Value::Null),
                }
            }),
            Cli::Ws(_) => Box::pin(async { Err(RepeError::Io(std::io::Error::other("the WebSocket client has no forward API"))) }),
        }
    }
    pub fn notify(&self, tag: u64, pad: usize) -> BoxFut<Result<(), RepeError>> {
        let b = body(tag, pad);
        match self.clone() {
            Cli::Async(c) => Box::pin(async move { c.notify_json("/p", &b).await }),
            Cli::Ws(c) => Box::pin(async move { c.notify_json("/p", &b).await }),
        }
    }
    pub fn batch(&self, tags: Vec<u64>) -> BoxFut<Vec<Result<Value, RepeError>>> {
        let reqs: Vec<(String, Value)> = tags.iter().map(|t| ("/p".to_string(), body(*t, 0))).collect();
        match self.clone() {
            Cli::Async(c) => Box::pin(async move { c.batch_json(reqs).await }),
            Cli::Ws(c) => Box::pin(async move { c.batch_json(reqs).await }),
        }
    }
    /// `batch_json_with_timeout`: every request of the batch with the same per-request timeout
    pub fn batch_with_timeout(&self, tags: Vec<u64>, t: Duration) -> BoxFut<Vec<Result<Value, RepeError>>> {
        let reqs: Vec<(String, Value)> = tags.iter().map(|t| ("/p".to_string(), body(*t, 0))).collect();
        match self.clone() {
            Cli::Async(c) => Box::pin(async move { c.batch_json_with_timeout(reqs, t).await }),
            Cli::Ws(c) => Box::pin(async move { c.batch_json_with_timeout(reqs, t).await }),
        }
    }
    pub fn pending(&self) -> usize {
        match self {
            Cli::Async(c) => c.verif_pending_len(),
            Cli::Ws(c) => c.verif_pending_len(),
        }
    }
}

pub enum Peer {
    /// raw byte peer of the AsyncClient: `ctl.a_to_b` = bytes the client wrote
    Raw { ctl: Ctl, inbuf: Vec<u8>, _end: End },
    /// WebSocket server side of the WebSocketClient
    Ws { ws: WebSocketStream<End>, ctl: Ctl },
}

static SLOT: AtomicU64 = AtomicU64::new(2000);
fn slot() -> u16 {
    (2000 + SLOT.fetch_add(1, Ordering::SeqCst) % 60000) as u16
}

pub struct Conn {
    pub cli: Cli,
    pub peer: Peer,
    pub notifies: Option<tokio::sync::mpsc::UnboundedReceiver<repe::Message>>,
}

pub async fn connect(kind: Kind) -> Conn {
    connect_with(kind, None).await
}

/// `ws_limits`: `WebSocketClient::connect_with_limits` instead of `connect` (ignored for the AsyncClient).
pub async fn connect_with(kind: Kind, ws_limits: Option<repe::WebSocketLimits>) -> Conn {
    let s = slot();
    match kind {
        Kind::Async => {
            let (client_end, peer_end, ctl) = memstream::pair();
            repe::verif_io::register_stream(s, client_end);
            let c = AsyncClient::connect(("127.254.77.1", s)).await.expect("mem connect");
            Conn { cli: Cli::Async(c), peer: Peer::Raw { ctl, inbuf: Vec::new(), _end: peer_end }, notifies: None }
        }
        Kind::Ws => {
            let (client_end, server_end, ctl) = memstream::pair();
            repe::verif_io::register_stream(s, client_end);
            let url = format!("ws://127.254.77.1:{s}/");
            let (c, ws) = match ws_limits {
                None => tokio::join!(WebSocketClient::connect(&url), tokio_tungstenite::accept_async(server_end)),
                Some(l) => {
                    let (c, ws) = tokio::join!(WebSocketClient::connect_with_limits(&url, l), tokio_tungstenite::accept_async(server_end));
                    (c, ws)
                }
            };
            let c = c.expect("ws mem connect");
            let ws = ws.expect("ws accept");
            let rx = c.subscribe_notifies().ok();
            Conn { cli: Cli::Ws(c), peer: Peer::Ws { ws, ctl }, notifies: rx }
        }
    }
}

impl Peer {
    pub fn ctl(&self) -> &Ctl {
        match self {
            Peer::Raw { ctl, .. } | Peer::Ws { ctl, .. } => ctl,
        }
    }
    /// Requests received so far (non-blocking after a settle); malformed input is an error.
    pub async fn drain_requests(&mut self) -> Result<Vec<Frame>, String> {
        memstream::settle().await;
        match self {
            Peer::Raw { ctl, inbuf, .. } => {
                inbuf.extend(ctl.a_to_b.take());
                let mut out = Vec::new();
                loop {
                    match frames::parse_one(inbuf)? {
                        Some((f, n)) => {
                            out.push(f);
                            inbuf.drain(..n);
                        }
                        None => return Ok(out),
                    }
                }
            }
            Peer::Ws { ws, .. } => {
                let mut out = Vec::new();
                loop {
                    match tokio::time::timeout(Duration::from_nanos(1), ws.next()).await {
                        Err(_) => return Ok(out),
                        Ok(None) => return Ok(out),
                        Ok(Some(Err(e))) => return Err(format!("websocket peer read: {e}")),
                        Ok(Some(Ok(WsMessage::Binary(b)))) => match frames::parse_one(&b) {
                            Ok(Some((f, n))) if n == b.len() => out.push(f),
                            _ => return Err(format!("binary message of {} bytes is not exactly one frame", b.len())),
                        },
                        Ok(Some(Ok(WsMessage::Close(_)))) => return Ok(out),
                        Ok(Some(Ok(_))) => {}
                    }
                }
            }
        }
    }
    /// bytes of an incomplete frame currently held (Raw only)
    pub fn partial_len(&self) -> usize {
        match self {
            Peer::Raw { inbuf, .. } => inbuf.len(),
            Peer::Ws { .. } => 0,
        }
    }
    pub async fn send(&mut self, f: &Frame) {
        match self {
            Peer::Raw { ctl, .. } => ctl.b_to_a.push(&f.to_bytes()),
            Peer::Ws { ws, .. } => {
                let _ = ws.send(WsMessage::Binary(f.to_bytes())).await;
            }
        }
    }
    pub async fn send_bytes(&mut self, b: &[u8]) {
        match self {
            Peer::Raw { ctl, .. } => ctl.b_to_a.push(b),
            Peer::Ws { ws, .. } => {
                let _ = ws.send(WsMessage::Binary(b.to_vec())).await;
            }
        }
    }
    /// the peer goes away: EOF towards the client (and writes from the client fail)
    pub fn close(&mut self) {
        match self {
            Peer::Raw { ctl, .. } | Peer::Ws { ctl, .. } => {
                ctl.b_to_a.close();
                ctl.a_to_b.fail_writer(std::io::ErrorKind::BrokenPipe);
            }
        }
    }
    pub fn reset(&mut self) {
        match self {
            Peer::Raw { ctl, .. } | Peer::Ws { ctl, .. } => {
                ctl.b_to_a.fail_reader(std::io::ErrorKind::ConnectionReset);
                ctl.a_to_b.fail_writer(std::io::ErrorKind::ConnectionReset);
            }
        }
    }
}

pub fn tag_of(f: &Frame) -> Option<u64> {
    serde_json::from_slice::<Value>(&f.body).ok().and_then(|v| v.get("t").and_then(|t| t.as_u64()))
}

pub fn reply(id: u64) -> Frame {
    let h = Hdr { version: 1, id, query_format: 1, body_format: FMT_JSON, ..Default::default() };
    Frame::new(h, b"/p", id.to_string().as_bytes())
}

pub fn notify_frame(id: u64, marker: u64) -> Frame {
    let h = Hdr { version: 1, id, notify: 1, query_format: 1, body_format: FMT_JSON, ..Default::default() };
    Frame::new(h, b"/push", format!("{{\"n\":{marker}}}").as_bytes())
}

#[derive(Debug, Clone, PartialEq)]
pub enum Res {
    /// Ok(value) where the value is a request id
    Id(u64),
    OkOther(String),
    Timeout,
    Err(String),
    Hang,
}

pub fn classify(r: Result<Value, RepeError>) -> Res {
    match r {
        Ok(v) => match v.as_u64() {
            Some(id) => Res::Id(id),
            None => Res::OkOther(v.to_string()),
        },
        Err(RepeError::Io(e)) if e.kind() == std::io::ErrorKind::TimedOut => Res::Timeout,
        Err(e) => Res::Err(e.to_string()),
    }
}

/// Await a spawned call with a (virtual) watchdog.
pub async fn join_call(h: tokio::task::JoinHandle<Result<Value, RepeError>>) -> Res {
    match tokio::time::timeout(HOUR, h).await {
        Err(_) => Res::Hang,
        Ok(Err(e)) => Res::Err(format!("task: {e}")),
        Ok(Ok(r)) => classify(r),
    }
}

/// Map tag -> request id from received request frames.
pub fn tag_ids(reqs: &[Frame]) -> BTreeMap<u64, u64> {
    reqs.iter().filter_map(|f| tag_of(f).map(|t| (t, f.h.id))).collect()
}
