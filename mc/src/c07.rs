//! C07 — all dispatch paths and route shapes give the same answer for the same
//! request.
//!
//! Everything is driven through `Router::get(path)` and the returned handler's
//! `handle` / `handle_with_ctx` / `handle_view`; no sockets. Three sub-spaces,
//! each enumerated completely within its bound (see DESIGN.md §5 C07):
//!
//! * **A1** (`c07_a1.rs`) owned vs borrowed vs middleware: every built-in handler
//!   kind x body-format code x body bytes x forwarding-middleware configuration;
//!   the request is handled through `handle`, `handle_with_ctx` and `handle_view`
//!   (the frame placed at offsets 0..7 of an 8-aligned backing store). Oracle:
//!   the responses are equal after the documented echo rule and after the
//!   documented `Err(RepeError)` -> error-response mapping of the dispatch
//!   layer; every forwarding middleware ran exactly once, in registration order.
//! * **A2** (`c07_a2.rs`) routing: all 120 registration orders of {exact route,
//!   registry mount, struct mount, middleware 1, middleware 2} x mount prefixes x
//!   exact paths x request paths, against a reference router.
//! * **A3** (`c07_a3.rs`) struct segments: a recording `RepeStruct` (mounted at
//!   the root, under a prefix, and nested in a `#[derive(RepeStruct)]` type)
//!   against an independent RFC 6901 tokenizer for depths 0..40.

use crate::ctx::{Ctx, Samples, Tier};
use crate::frames::{Frame, HEADER, Hdr};
use repe::server::{HandlerErased, Middleware, Next};
use repe::{CallContext, Message, MessageView, RepeError};
use serde_json::{Value, json};
use std::cell::Cell;
use std::collections::BTreeMap;
use std::sync::{Arc, Mutex};

#[path = "c07_a1.rs"]
mod a1;
#[path = "c07_a2.rs"]
mod a2;
#[path = "c07_a3.rs"]
mod a3;
#[path = "c07_a4.rs"]
mod a4;

// ---------------------------------------------------------------------------
// shared machinery
// ---------------------------------------------------------------------------

/// One oracle failure (collected by the sweeps and by `replay`).
pub(crate) struct Viol {
    pub key: String,
    pub what: String,
    pub case: Value,
}

/// A response in canonical framed form: what a server would put on the wire
/// for this handler result. `Ok(m)` is framed with the echo rule (an empty
/// response query stands for the request query, a query the handler set is
/// kept); `Err(e)` is framed the way `server_request::dispatch{,_view}` map it:
/// error code `e.to_error_code()`, UTF-8 body `e.to_string()`, request id and
/// request query. Lengths are recomputed by the independent frame oracle.
#[derive(Clone, PartialEq, Eq, Debug)]
pub(crate) struct Resp {
    pub wire: Vec<u8>,
    /// informational only (not part of equality of responses): the handler
    /// returned `Err` and the dispatch layer built the error frame.
    pub via_err: bool,
}

impl Resp {
    pub fn hdr(&self) -> Hdr {
        Hdr::decode_raw(&self.wire).expect("canonical frame has a header")
    }
    pub fn query(&self) -> &[u8] {
        let q = self.hdr().query_length as usize;
        &self.wire[HEADER..HEADER + q]
    }
    pub fn body(&self) -> &[u8] {
        let q = self.hdr().query_length as usize;
        &self.wire[HEADER + q..]
    }
    pub fn class(&self) -> String {
        let ec = self.hdr().ec;
        if ec == 0 { "ok".to_string() } else { format!("ec={ec}") }
    }
    /// Name of the first field in which two canonical responses differ.
    pub fn first_difference(&self, other: &Resp) -> &'static str {
        let (a, b) = (self.hdr(), other.hdr());
        if a.ec != b.ec {
            "ec"
        } else if a.id != b.id {
            "id"
        } else if a.body_format != b.body_format {
            "body_format"
        } else if a.query_format != b.query_format {
            "query_format"
        } else if self.query() != other.query() {
            "query"
        } else if self.body() != other.body() {
            "body"
        } else if a.notify != b.notify || a.version != b.version || a.reserved != b.reserved {
            "header"
        } else {
            "none"
        }
    }
    pub fn describe(&self) -> String {
        let h = self.hdr();
        format!(
            "(ec={} id={:#x} qf={} bf={} query={:?} body={})",
            h.ec,
            h.id,
            h.query_format,
            h.body_format,
            String::from_utf8_lossy(self.query()),
            show_bytes(self.body(), 80)
        )
    }
}

pub(crate) fn show_bytes(b: &[u8], max: usize) -> String {
    let cut = &b[..b.len().min(max)];
    let s = match std::str::from_utf8(cut) {
        Ok(s) if s.chars().all(|c| !c.is_control()) => format!("{s:?}"),
        _ => format!("0x{}", hex(cut)),
    };
    if b.len() > max { format!("{s}..(+{})", b.len() - max) } else { s }
}

pub(crate) fn hex(b: &[u8]) -> String {
    b.iter().map(|x| format!("{x:02x}")).collect()
}

pub(crate) fn unhex(s: &str) -> Result<Vec<u8>, String> {
    if s.len() % 2 != 0 {
        return Err("odd hex".into());
    }
    (0..s.len() / 2)
        .map(|i| u8::from_str_radix(&s[2 * i..2 * i + 2], 16).map_err(|e| e.to_string()))
        .collect()
}

pub(crate) fn normalise(req: &Message, r: Result<Message, RepeError>) -> Resp {
    match r {
        Ok(m) => {
            let q: &[u8] = if m.query.is_empty() { &req.query } else { &m.query };
            let h = Hdr {
                version: m.header.version,
                notify: m.header.notify,
                reserved: m.header.reserved,
                id: m.header.id,
                query_format: m.header.query_format,
                body_format: m.header.body_format,
                ec: m.header.ec,
                ..Default::default()
            };
            Resp { wire: Frame::new(h, q, &m.body).to_bytes(), via_err: false }
        }
        Err(e) => {
            let h = Hdr {
                version: 1,
                id: req.header.id,
                query_format: 0,
                body_format: 3,
                ec: u32::from(e.to_error_code()),
                ..Default::default()
            };
            Resp { wire: Frame::new(h, &req.query, e.to_string().as_bytes()).to_bytes(), via_err: true }
        }
    }
}

thread_local! {
    /// address range of the backing store the current `handle_view` call borrows from
    pub(crate) static BACKING_RANGE: Cell<(usize, usize)> = const { Cell::new((0, 0)) };
    /// number of times a slice handler saw its input inside BACKING_RANGE (zero-copy borrow)
    pub(crate) static BORROWED_INPUTS: Cell<u64> = const { Cell::new(0) };
}

/// 8-aligned backing store; a frame can be placed at byte offsets 0..7 of it.
pub(crate) struct Backing {
    words: Vec<u64>,
}

impl Backing {
    pub fn new() -> Self {
        Backing { words: Vec::new() }
    }
    pub fn place(&mut self, off: usize, wire: &[u8]) -> &[u8] {
        let need = (off + wire.len()) / 8 + 2;
        if self.words.len() < need {
            self.words.resize(need, 0);
        }
        // SAFETY: `words` is an initialised, 8-aligned allocation of `len*8` bytes.
        let bytes = unsafe {
            std::slice::from_raw_parts_mut(self.words.as_mut_ptr() as *mut u8, self.words.len() * 8)
        };
        debug_assert_eq!(bytes.as_ptr() as usize % 8, 0);
        bytes[off..off + wire.len()].copy_from_slice(wire);
        &bytes[off..off + wire.len()]
    }
}

#[derive(Clone, Copy, Debug, PartialEq, Eq)]
pub(crate) enum Via {
    Handle,
    Ctx,
    View(usize),
}

impl Via {
    pub fn family(self) -> &'static str {
        match self {
            Via::Handle => "handle",
            Via::Ctx => "handle_with_ctx",
            Via::View(_) => "handle_view",
        }
    }
    pub fn name(self) -> String {
        match self {
            Via::View(k) => format!("handle_view@+{k}"),
            v => v.family().to_string(),
        }
    }
}

/// Run one dispatch of `req` (whose wire form is `wire`) through `h`.
/// Err(..) = the code under test panicked.
pub(crate) fn invoke(
    h: &dyn HandlerErased,
    req: &Message,
    wire: &[u8],
    backing: &mut Backing,
    via: Via,
) -> Result<Resp, String> {
    let path = std::str::from_utf8(&req.query).unwrap_or("");
    let r = std::panic::catch_unwind(std::panic::AssertUnwindSafe(|| match via {
        Via::Handle => h.handle(req),
        Via::Ctx => h.handle_with_ctx(req, &CallContext::detached(path)),
        Via::View(off) => {
            let buf = backing.place(off, wire);
            let lo = buf.as_ptr() as usize;
            BACKING_RANGE.with(|c| c.set((lo, lo + buf.len())));
            let out = match MessageView::from_slice(buf) {
                Ok(view) => h.handle_view(&view, &CallContext::detached(path)),
                Err(e) => panic!("C07 harness: MessageView::from_slice rejected a well-formed frame: {e}"),
            };
            BACKING_RANGE.with(|c| c.set((0, 0)));
            out
        }
    }));
    match r {
        Ok(r) => Ok(normalise(req, r)),
        Err(p) => {
            BACKING_RANGE.with(|c| c.set((0, 0)));
            let msg = p
                .downcast_ref::<String>()
                .cloned()
                .or_else(|| p.downcast_ref::<&str>().map(|s| s.to_string()))
                .unwrap_or_else(|| "non-string panic".into());
            Err(msg)
        }
    }
}

pub(crate) fn request(id: u64, path: &str, body: &[u8], body_format: u16) -> Result<(Message, Vec<u8>), String> {
    let wire = Frame::request(id, path, body, body_format, false).to_bytes();
    let req = Message::from_slice(&wire).map_err(|e| format!("Message::from_slice rejected a well-formed request frame: {e}"))?;
    Ok((req, wire))
}

/// A forwarding middleware that logs its id, then continues the chain.
pub(crate) struct Fwd {
    pub id: u8,
    pub log: Arc<Mutex<Vec<u8>>>,
}

impl Middleware for Fwd {
    fn handle(&self, req: &Message, next: Next<'_>) -> Result<Message, RepeError> {
        self.log.lock().unwrap().push(self.id);
        next.run(req)
    }
}

/// Independent RFC 6901 tokenizer: "" -> no tokens; otherwise the pointer must
/// start with '/', is split on '/', and each token is unescaped by one
/// left-to-right scan (`~0` -> '~', `~1` -> '/'). None = not a JSON pointer or a
/// malformed escape (outside the property's quantifier).
pub(crate) fn rfc6901(ptr: &str) -> Option<Vec<String>> {
    if ptr.is_empty() {
        return Some(Vec::new());
    }
    let rest = ptr.strip_prefix('/')?;
    let mut out = Vec::new();
    for raw in rest.split('/') {
        let mut tok = String::new();
        let mut it = raw.chars();
        while let Some(c) = it.next() {
            if c == '~' {
                match it.next() {
                    Some('0') => tok.push('~'),
                    Some('1') => tok.push('/'),
                    _ => return None,
                }
            } else {
                tok.push(c);
            }
        }
        out.push(tok);
    }
    Some(out)
}

#[derive(Default)]
pub(crate) struct Counters(pub BTreeMap<String, u64>);

impl Counters {
    pub fn add(&mut self, k: &str, n: u64) {
        if let Some(v) = self.0.get_mut(k) {
            *v += n;
        } else {
            self.0.insert(k.to_string(), n);
        }
    }
    pub fn get(&self, k: &str) -> u64 {
        self.0.get(k).copied().unwrap_or(0)
    }
    pub fn merge(&mut self, o: &Counters) {
        for (k, v) in &o.0 {
            self.add(k, *v);
        }
    }
    pub fn json(&self) -> Value {
        json!(self.0)
    }
    pub fn with_prefix(&self, p: &str) -> Value {
        let m: BTreeMap<&str, u64> = self.0.iter().filter_map(|(k, v)| k.strip_prefix(p).map(|r| (r, *v))).collect();
        json!(m)
    }
}

/// Totals of one sub-space.
#[derive(Default)]
pub(crate) struct Totals {
    pub states: u64,
    pub transitions: u64,
    pub c: Counters,
    /// per violation key, the failing case with the smallest enumeration index
    /// (deterministic whatever the partition of the space over workers)
    pub viols: BTreeMap<String, (u64, Viol)>,
    /// enumeration index of the case being executed (set by the sweeps)
    pub order: u64,
    pub machinery: Option<String>,
    /// evidence samples, offered only at fixed positions of the enumeration so
    /// that the evidence file is identical on every run
    pub samples: Vec<Value>,
    /// size of the bounded space as computed from the alphabet sizes (set by `sweep`)
    pub expected_states: u64,
}

impl Totals {
    pub fn merge(&mut self, mut o: Totals) {
        self.states += o.states;
        self.transitions += o.transitions;
        self.c.merge(&o.c);
        for (k, (ord, v)) in std::mem::take(&mut o.viols) {
            match self.viols.get(&k) {
                Some((have, _)) if *have <= ord => {}
                _ => {
                    self.viols.insert(k, (ord, v));
                }
            }
        }
        if self.machinery.is_none() {
            self.machinery = o.machinery;
        }
        self.samples.append(&mut o.samples);
    }
    pub fn fail(&mut self, key: String, what: String, case: Value) {
        self.c.add("violations", 1);
        match self.viols.get(&key) {
            Some((have, _)) if *have <= self.order => {}
            _ => {
                let ord = self.order;
                self.viols.insert(key.clone(), (ord, Viol { key, what, case }));
            }
        }
    }
}

fn report(ctx: &Ctx, t: &mut Totals) {
    // deterministic: by key; per key the case with the smallest enumeration index
    for (_, (_, v)) in std::mem::take(&mut t.viols) {
        // re-execute the recorded case twice outside the sweep (fresh routers). The
        // code under test is sequential and deterministic, so the only legitimate
        // reason for a case not to reproduce is handler state accumulated earlier in
        // the sweep (registry / struct writes); say so rather than hide the failure.
        let again = [replay_inner(&v.case), replay_inner(&v.case)];
        if again.iter().any(|r| r.is_ok()) {
            ctx.note(format!(
                "violation {} was observed in the sweep but does not reproduce from its recorded case on a fresh router (state-dependent): {}",
                v.key, v.what
            ));
        }
        ctx.violation(v.key, v.what, v.case);
    }
}

pub fn run(tier: Tier) -> ! {
    let ctx = Ctx::new("C07", tier);
    let samples = Samples::new(12);
    let hook = std::panic::take_hook();
    std::panic::set_hook(Box::new(|_| {}));
    let t0 = std::time::Instant::now();
    let mut r1 = a1::sweep(tier);
    let t1 = t0.elapsed().as_secs_f64();
    let mut r2 = a2::sweep(tier);
    let t2 = t0.elapsed().as_secs_f64();
    let mut r3 = a3::sweep(tier);
    let t3 = t0.elapsed().as_secs_f64();
    let mut r4 = a4::sweep(tier);
    let t4 = t0.elapsed().as_secs_f64();

    for (name, r) in [("A1", &r1), ("A2", &r2), ("A3", &r3), ("A4", &r4)] {
        if let Some(m) = &r.machinery {
            ctx.machinery(format!("{name}: {m}"));
        }
    }
    report(&ctx, &mut r1);
    report(&ctx, &mut r2);
    report(&ctx, &mut r3);
    report(&ctx, &mut r4);
    std::panic::set_hook(hook);
    for r in [&mut r1, &mut r2, &mut r3] {
        r.samples.sort_by_key(|v| v.to_string());
        for v in r.samples.drain(..).take(4) {
            samples.offer(|| v);
        }
    }

    // ---- non-vacuity (asserted only when nothing failed) -------------------
    if !ctx.has_violation() {
        let mut missing = Vec::new();
        for k in a1::KINDS {
            if r1.c.get(&format!("kind:{}", k.name())) == 0 {
                missing.push(format!("A1 kind {} never exercised", k.name()));
            }
        }
        for k in [
            "class:ok",
            "class:ec=4",
            "class:ec=5",
            "class:ec=6",
            "class:ec=4096",
            "results_returned_as_Err",
            "leaf_invoked_behind_forwarding_middleware",
            "requests_behind_2_middlewares",
            "route_registered_before_middleware",
            "route_registered_after_middleware",
            "slice_input_borrowed_zero_copy",
            "responses_with_handler_set_query",
            "format_accepted_on_all_paths",
            "format_rejected_on_all_paths",
        ] {
            if r1.c.get(k) == 0 {
                missing.push(format!("A1 counter {k} is zero"));
            }
        }
        for k in [
            "outcome:exact",
            "outcome:registry",
            "outcome:struct",
            "outcome:none",
            "exact_won_over_matching_mount",
            "path_shares_string_prefix_without_boundary_not_routed",
            "path_equal_to_prefix_routed",
            "both_mounts_matched_precedence_unchecked",
            "mount_registered_before_middleware_and_wrapped",
            "mount_registered_after_middleware_and_wrapped",
            "trailing_slash_prefix_disambiguated",
        ] {
            if r2.c.get(k) == 0 {
                missing.push(format!("A2 counter {k} is zero"));
            }
        }
        for k in [
            "depth=0",
            "depth=16",
            "depth=17",
            "depth=40",
            "spilled_to_heap_escape_free",
            "stayed_on_stack_escape_free",
            "escaped_path_deeper_than_16",
            "escaped_path_not_deeper_than_16",
            "single_empty_token_path",
            "via_derive_nested",
        ] {
            if r3.c.get(k) == 0 {
                missing.push(format!("A3 counter {k} is zero"));
            }
        }
        for k in [
            "a4:routed_to_the_owning_mount",
            "a4:nested_mounts_both_matched_precedence_unchecked",
            "a4:owner_has_a_sibling_sorting_below_the_separator",
            "a4:unmatched_path_not_routed",
        ] {
            if r4.c.get(k) == 0 {
                missing.push(format!("A4 counter {k} is zero"));
            }
        }
        if !missing.is_empty() {
            ctx.machinery(format!("vacuous exploration: {}", missing.join("; ")));
        }
    }

    // every state of the bounded space was executed (sizes computed independently
    // from the alphabets); anything else is a harness defect unless a failure
    // cut a case short
    let exhaustive = r1.states == r1.expected_states && r2.states == r2.expected_states && r3.states == r3.expected_states && r4.states == r4.expected_states;
    if !exhaustive && !ctx.has_violation() {
        ctx.machinery(format!(
            "enumeration incomplete: A1 {}/{} A2 {}/{} A3 {}/{} A4 {}/{}",
            r1.states, r1.expected_states, r2.states, r2.expected_states, r3.states, r3.expected_states, r4.states, r4.expected_states
        ));
    }
    let lit = r2.c.get("trailing_slash_prefix:struct:behaves-as-literal");
    let trim = r2.c.get("trailing_slash_prefix:registry:behaves-as-trimmed");
    if lit > 0 && trim > 0 {
        ctx.note(format!(
            "mount prefixes with a trailing '/' are normalised differently by the two mount kinds: the registry mount behaved as if the '/' were trimmed in {trim} configurations (\"/a/\" receives /a, /a/, /a/b), the struct mount took it literally in {lit} configurations (\"/a/\" receives only /a/ and /a//...; /a/b is not routed to it). The property does not specify this; both are accepted"
        ));
    }
    let states = r1.states + r2.states + r3.states + r4.states;
    let transitions = r1.transitions + r2.transitions + r3.transitions + r4.transitions;
    let coverage = json!({
        "states": states,
        "transitions": transitions,
        "traces_validated_against_impl": transitions,
        "samples": samples.take(),
        "exhaustive": exhaustive,
        "rule": "A1: every (handler kind, query of that kind, middleware configuration, body-format code, body) is dispatched through handle, handle_with_ctx and handle_view at buffer offsets 0..7 and the canonical framed responses are compared; A2: every (registration order, registry prefix, struct prefix, exact path) router is asked for every request path and compared with a reference router; A3: every remaining path of the bound is sent to a recording RepeStruct under three mounts and compared with an independent RFC 6901 tokenizer; A4: every ordered selection of 2..3 mounts (structs, registries, mixes) over prefixes that are one another's prefix plus a byte below / above '/' or nested, asked for every request path: a path goes to a mount that owns it (prefix equal or extended at a '/' boundary) with exactly the remainder, a path nobody owns is not routed. states = distinct (configuration, request) pairs; transitions = handler invocations (or Router::get lookups answering None) compared with the oracle",
        "bound": {
            "A1": a1::bound(&r1),
            "A2": a2::bound(tier),
            "A3": a3::bound(tier, &r3),
            "A4": a4::bound(tier),
        },
        "alphabet": {
            "body_formats": a1::FORMATS,
            "handler_kinds": a1::KINDS.iter().map(|k| k.name()).collect::<Vec<_>>(),
            "middleware_configurations": a1::MWCFG_NAMES,
            "tokens": a3::TOKENS,
        },
        "per_subspace": {
            "A1": {"states": r1.states, "transitions": r1.transitions, "wall_s": t1},
            "A2": {"states": r2.states, "transitions": r2.transitions, "wall_s": t2 - t1},
            "A3": {"states": r3.states, "transitions": r3.transitions, "wall_s": t3 - t2},
            "A4": {"states": r4.states, "transitions": r4.transitions, "wall_s": t4 - t3},
        },
        "nonvacuity": {
            "A1_requests_per_handler_kind": r1.c.with_prefix("kind:"),
            "A1_base_responses_per_class": r1.c.with_prefix("class:"),
            "A1": r1.c.json(),
            "A2": r2.c.json(),
            "A3": r3.c.json(),
            "A4": r4.c.json(),
        },
    });
    ctx.finish(
        "model_checking",
        coverage,
        &[
            "a handler result Err(e) is compared as the error frame the dispatch layer builds from it (code e.to_error_code(), UTF-8 body e.to_string(), request id and query), as server_request::dispatch / dispatch_view do",
            "all middleware are forwarding (call next.run(req) once with the unchanged request); short-circuiting middleware is outside the statement",
            "request paths are JSON pointers (empty or starting with '/'); paths without a leading '/' are not enumerated",
            "a mount prefix with a trailing '/' may be taken literally or with the '/' trimmed (the statement does not say which); the mount must behave consistently as one of the two over all request paths",
            "precedence between a registry mount and a struct mount that both match is not checked, nor between nested mounts of one kind (A4)",
            "malformed '~' escapes are outside the quantifier and not generated",
            "Registry semantics of the handed-down pointer are C14's; here the mounted answer is compared with Registry::dispatch of (path minus prefix) on an identical registry",
        ],
    )
}

pub fn replay(case: &Value) -> Result<(), String> {
    let hook = std::panic::take_hook();
    std::panic::set_hook(Box::new(|_| {}));
    let r = replay_inner(case);
    std::panic::set_hook(hook);
    r
}

fn replay_inner(case: &Value) -> Result<(), String> {
    let mut t = Totals::default();
    let r = match case["space"].as_str() {
        Some("A1") => a1::replay(case, &mut t),
        Some("A2") => a2::replay(case, &mut t),
        Some("A3") => a3::replay(case, &mut t),
        Some("A4") => a4::replay(case, &mut t),
        _ => Err("case has no known `space`".to_string()),
    };
    r?;
    if let Some(m) = t.machinery {
        return Err(format!("machinery: {m}"));
    }
    if t.viols.is_empty() {
        Ok(())
    } else {
        Err(t.viols.values().map(|(_, v)| format!("{}: {}", v.key, v.what)).collect::<Vec<_>>().join("\n"))
    }
}
