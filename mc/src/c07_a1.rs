//! C07 / A1 — owned vs borrowed vs middleware-wrapped dispatch of one request.

use super::{BACKING_RANGE, BORROWED_INPUTS, Backing, Fwd, Resp, Totals, Via, hex, invoke, request, show_bytes, unhex};
use crate::ctx::Tier;
use crate::par;
use repe::server::{HandlerErased, JsonTypedHandler, Router, TypedResponse};
use repe::{CallContext, ErrorCode, Message, QueryFormat, Registry, RepeError, RepeStruct, StructError};
use serde::{Deserialize, Serialize};
use serde_json::{Value, json};
use std::collections::BTreeSet;
use std::sync::atomic::{AtomicU64, Ordering};
use std::sync::{Arc, Mutex};

pub(crate) const FORMATS: [u16; 6] = [0, 1, 2, 3, 9, 0xffff];

#[derive(Clone, Copy, PartialEq, Eq, Debug)]
pub(crate) enum Kind {
    Json,
    JsonBlocking,
    JsonCtx,
    JsonCtxBlocking,
    Typed,
    TypedBlocking,
    TypedCtx,
    TypedCtxBlocking,
    Adapter,
    Slice,
    SliceRef,
    RegistryMount,
    StructDerived,
    StructManual,
    Erased,
}

pub(crate) const KINDS: [Kind; 15] = [
    Kind::Json,
    Kind::JsonBlocking,
    Kind::JsonCtx,
    Kind::JsonCtxBlocking,
    Kind::Typed,
    Kind::TypedBlocking,
    Kind::TypedCtx,
    Kind::TypedCtxBlocking,
    Kind::Adapter,
    Kind::Slice,
    Kind::SliceRef,
    Kind::RegistryMount,
    Kind::StructDerived,
    Kind::StructManual,
    Kind::Erased,
];

impl Kind {
    pub fn name(self) -> &'static str {
        match self {
            Kind::Json => "with_json",
            Kind::JsonBlocking => "with_json_blocking",
            Kind::JsonCtx => "with_json_ctx",
            Kind::JsonCtxBlocking => "with_json_ctx_blocking",
            Kind::Typed => "with_typed",
            Kind::TypedBlocking => "with_typed_blocking",
            Kind::TypedCtx => "with_typed_ctx",
            Kind::TypedCtxBlocking => "with_typed_ctx_blocking",
            Kind::Adapter => "with_handler",
            Kind::Slice => "with_typed_slice",
            Kind::SliceRef => "with_typed_slice_ref",
            Kind::RegistryMount => "with_registry",
            Kind::StructDerived => "with_struct(derive)",
            Kind::StructManual => "with_struct(manual)",
            Kind::Erased => "with_erased_handler",
        }
    }
    pub fn from_name(s: &str) -> Option<Kind> {
        KINDS.iter().copied().find(|k| k.name() == s)
    }
    /// request paths served by a router of this kind
    pub fn queries(self) -> &'static [&'static str] {
        match self {
            Kind::Json => &["/k/json"],
            Kind::JsonBlocking => &["/k/json_b"],
            Kind::JsonCtx => &["/k/jctx"],
            Kind::JsonCtxBlocking => &["/k/jctx_b"],
            Kind::Typed => &["/k/typed"],
            Kind::TypedBlocking => &["/k/typed_b"],
            Kind::TypedCtx => &["/k/tctx"],
            Kind::TypedCtxBlocking => &["/k/tctx_b"],
            Kind::Adapter => &["/k/adapter"],
            // two query lengths so that the body lands on different alignments
            Kind::Slice => &["/k/slice"],
            Kind::SliceRef => &["/k/sref", "/k/sref/x"],
            Kind::RegistryMount => &["/r/f", "/r/v", "/r", "/r/missing/x"],
            Kind::StructDerived => &["/s/count", "/s/add", "/s", "/s/label/x"],
            Kind::StructManual => &["/h/x/y", "/h"],
            Kind::Erased => &["/k/erased"],
        }
    }
}

#[derive(Clone, Copy, PartialEq, Eq, Debug)]
pub(crate) enum Step {
    M(u8),
    R,
}

pub(crate) const MWCFG: [&[Step]; 6] = [
    &[Step::R],
    &[Step::M(1), Step::R],
    &[Step::R, Step::M(1)],
    &[Step::M(1), Step::M(2), Step::R],
    &[Step::R, Step::M(1), Step::M(2)],
    &[Step::M(1), Step::R, Step::M(2)],
];
pub(crate) const MWCFG_NAMES: [&str; 6] = ["none", "m1,route", "route,m1", "m1,m2,route", "route,m1,m2", "m1,route,m2"];

#[derive(Serialize, Deserialize)]
struct In {
    a: Vec<i64>,
}

#[derive(Serialize, Deserialize)]
struct Out {
    n: usize,
    s: i64,
}

fn json_leaf(v: Value) -> Result<Value, (ErrorCode, String)> {
    if v.get("fail").is_some() {
        Err((ErrorCode::ApplicationErrorBase, "refused".to_string()))
    } else {
        Ok(json!({ "got": v }))
    }
}

fn typed_leaf(i: In) -> Result<TypedResponse<Out>, (ErrorCode, String)> {
    let Some(&first) = i.a.first() else {
        return Err((ErrorCode::ApplicationErrorBase, "empty".to_string()));
    };
    let out = Out { n: i.a.len(), s: i.a.iter().fold(0i64, |x, y| x.wrapping_add(*y)) };
    Ok(match first {
        2 => TypedResponse::beve(out),
        3 => TypedResponse::utf8(out),
        4 => TypedResponse::raw_binary(out),
        _ => TypedResponse::json(out),
    })
}

fn slice_leaf(xs: &[f64]) -> Result<Vec<f64>, (ErrorCode, String)> {
    if xs.is_empty() {
        return Err((ErrorCode::ApplicationErrorBase, "empty slice".to_string()));
    }
    if !xs.is_empty() {
        let p = xs.as_ptr() as usize;
        let (lo, hi) = BACKING_RANGE.with(|c| c.get());
        if p >= lo && p < hi {
            BORROWED_INPUTS.with(|c| c.set(c.get() + 1));
        }
    }
    Ok(xs.iter().map(|x| x * 2.0).collect())
}

struct AdapterH(Arc<AtomicU64>);
impl JsonTypedHandler for AdapterH {
    type In = In;
    type Out = Out;
    fn call(&self, input: In) -> Result<Out, (ErrorCode, String)> {
        self.0.fetch_add(1, Ordering::Relaxed);
        let Some(_) = input.a.first() else {
            return Err((ErrorCode::ApplicationErrorBase, "empty".to_string()));
        };
        Ok(Out { n: input.a.len(), s: input.a.iter().fold(0i64, |x, y| x.wrapping_add(*y)) })
    }
}

/// custom erased handler using the default `handle_with_ctx` / `handle_view`;
/// sets its own response query for bodies starting with 'q', fails with
/// `Err(RepeError)` on an empty body, echoes otherwise.
struct Custom(Arc<AtomicU64>);
impl HandlerErased for Custom {
    fn handle(&self, req: &Message) -> Result<Message, RepeError> {
        self.0.fetch_add(1, Ordering::Relaxed);
        match req.body.first() {
            None => Err(RepeError::ServerError { code: ErrorCode::Timeout, message: "no body".to_string() }),
            Some(b'q') => Ok(Message::builder()
                .id(req.header.id)
                .query_str("/own")
                .query_format(QueryFormat::JsonPointer)
                .body_bytes(req.body.clone())
                .body_format_code(req.header.body_format)
                .build()),
            Some(_) => Ok(Message::builder()
                .id(req.header.id)
                .query_format_code(req.header.query_format)
                .body_bytes(req.body.clone())
                .body_format_code(req.header.body_format)
                .build()),
        }
    }
}

#[derive(Default, Serialize, Deserialize, repe::RepeStruct)]
#[repe(methods(
    add(&self, n: i64) -> i64,
    name(&self) -> String
))]
struct Dev {
    count: i64,
    label: String,
}

impl Dev {
    fn add(&self, n: i64) -> i64 {
        n.wrapping_add(1000)
    }
    fn name(&self) -> String {
        "dev".to_string()
    }
}

/// hand-written RepeStruct: answers with the segments and the body it was given
#[derive(Default)]
struct Manual(Arc<AtomicU64>);
impl RepeStruct for Manual {
    fn repe_handle(&mut self, segments: &[&str], body: Option<Value>) -> Result<Option<Value>, StructError> {
        self.0.fetch_add(1, Ordering::Relaxed);
        if body.as_ref().and_then(|b| b.get("fail")).is_some() {
            return Err(StructError::Execution { path: repe::structs::path_from_segments(segments), message: "refused".into() });
        }
        Ok(Some(json!({"segments": segments, "body": body})))
    }
}

pub(crate) struct Probes {
    pub leaf: Arc<AtomicU64>,
    pub mwlog: Arc<Mutex<Vec<u8>>>,
}

pub(crate) fn build(kind: Kind, steps: &[Step]) -> (Router, Probes, Vec<u8>) {
    let probes = Probes { leaf: Arc::new(AtomicU64::new(0)), mwlog: Arc::new(Mutex::new(Vec::new())) };
    let mut router = Router::new();
    let mut chain = Vec::new();
    for s in steps {
        router = match *s {
            Step::M(id) => {
                chain.push(id);
                router.with_middleware(Fwd { id, log: Arc::clone(&probes.mwlog) })
            }
            Step::R => register(router, kind, &probes),
        };
    }
    (router, probes, chain)
}

fn register(router: Router, kind: Kind, probes: &Probes) -> Router {
    let leaf = Arc::clone(&probes.leaf);
    let q = kind.queries()[0];
    match kind {
        Kind::Json => router.with_json(q, move |v: Value| {
            leaf.fetch_add(1, Ordering::Relaxed);
            json_leaf(v)
        }),
        Kind::JsonBlocking => router.with_json_blocking(q, move |v: Value| {
            leaf.fetch_add(1, Ordering::Relaxed);
            json_leaf(v)
        }),
        Kind::JsonCtx => router.with_json_ctx(q, move |ctx: &CallContext, v: Value| {
            leaf.fetch_add(1, Ordering::Relaxed);
            json_leaf(v).map(|r| json!({"r": r, "method": ctx.method(), "peer": ctx.peer().is_some()}))
        }),
        Kind::JsonCtxBlocking => router.with_json_ctx_blocking(q, move |ctx: &CallContext, v: Value| {
            leaf.fetch_add(1, Ordering::Relaxed);
            json_leaf(v).map(|r| json!({"r": r, "method": ctx.method(), "peer": ctx.peer().is_some()}))
        }),
        Kind::Typed => router.with_typed::<In, Out, _>(q, move |i: In| {
            leaf.fetch_add(1, Ordering::Relaxed);
            typed_leaf(i)
        }),
        Kind::TypedBlocking => router.with_typed_blocking::<In, Out, _>(q, move |i: In| {
            leaf.fetch_add(1, Ordering::Relaxed);
            typed_leaf(i)
        }),
        Kind::TypedCtx => router.with_typed_ctx::<In, Out, _>(q, move |ctx: &CallContext, i: In| {
            leaf.fetch_add(1, Ordering::Relaxed);
            if ctx.peer().is_some() {
                return Err((ErrorCode::InternalError, "unexpected peer".to_string()));
            }
            typed_leaf(i)
        }),
        Kind::TypedCtxBlocking => router.with_typed_ctx_blocking::<In, Out, _>(q, move |ctx: &CallContext, i: In| {
            leaf.fetch_add(1, Ordering::Relaxed);
            if ctx.peer().is_some() {
                return Err((ErrorCode::InternalError, "unexpected peer".to_string()));
            }
            typed_leaf(i)
        }),
        Kind::Adapter => router.with_handler(q, AdapterH(leaf)),
        Kind::Slice => router.with_typed_slice::<f64, f64, _>(q, move |xs: Vec<f64>| {
            leaf.fetch_add(1, Ordering::Relaxed);
            slice_leaf(&xs)
        }),
        Kind::SliceRef => {
            let leaf2 = Arc::clone(&leaf);
            router
                .with_typed_slice_ref::<f64, f64, _>(kind.queries()[0], move |xs: &[f64]| {
                    leaf.fetch_add(1, Ordering::Relaxed);
                    slice_leaf(xs)
                })
                .with_typed_slice_ref::<f64, f64, _>(kind.queries()[1], move |xs: &[f64]| {
                    leaf2.fetch_add(1, Ordering::Relaxed);
                    slice_leaf(xs)
                })
        }
        Kind::RegistryMount => {
            let reg = Arc::new(Registry::new());
            reg.register_value("/v", json!(1)).expect("register_value");
            reg.register_function("/f", move |p: Option<Value>| {
                leaf.fetch_add(1, Ordering::Relaxed);
                match &p {
                    Some(v) if v.get("fail").is_some() => Err((ErrorCode::ApplicationErrorBase, "refused".to_string())),
                    _ => Ok(json!({ "called": p })),
                }
            })
            .expect("register_function");
            router.with_registry("/r", reg)
        }
        Kind::StructDerived => router.with_struct("/s", Dev::default()).0,
        Kind::StructManual => router.with_struct("/h", Manual(leaf)).0,
        Kind::Erased => router.with_erased_handler(q, Arc::new(Custom(leaf))),
    }
}

fn aligned_f64(data: &[f64], base: usize) -> Vec<u8> {
    let mut v = Vec::new();
    // `write_aligned_typed_slice_at` pads for the absolute offset `base` of the marker byte
    beve::write_aligned_typed_slice_at(&mut v, data, base);
    v
}

/// The body alphabet shared by all kinds (a body valid for one kind is a
/// wrong-shape body for the others). Duplicates removed, order fixed.
/// `.0` = base set, crossed with every middleware configuration in both tiers;
/// `.1` = short-string set (all two-byte strings; thorough adds three- and
/// four-byte strings over reduced byte alphabets), crossed with the "none"
/// middleware configuration in quick and with every configuration in thorough.
pub(crate) fn bodies(tier: Tier) -> (Vec<Vec<u8>>, Vec<Vec<u8>>) {
    let out: std::cell::RefCell<Vec<Vec<u8>>> = std::cell::RefCell::new(Vec::new());
    let mut seen: BTreeSet<Vec<u8>> = BTreeSet::new();
    let mut push = |b: Vec<u8>| {
        if seen.insert(b.clone()) {
            out.borrow_mut().push(b);
        }
    };
    let with_truncations = |b: &[u8], push: &mut dyn FnMut(Vec<u8>)| {
        for n in 0..=b.len() {
            push(b[..n].to_vec());
        }
    };
    push(Vec::new());
    push(b"{}".to_vec());
    // the 12-byte body valid for the JSON / typed / adapter kinds, cut at every byte
    let twelve = br#"{"a":[1,23]}"#;
    assert_eq!(twelve.len(), 12);
    with_truncations(twelve, &mut push);
    for s in [
        r#"{"a":[2,23]}"#,
        r#"{"a":[3,23]}"#,
        r#"{"a":[4,23]}"#,
        r#"{"a":[]}"#,
        r#"{"fail":1}"#,
        r#"{"b":1}"#,
        r#"{"count":3,"label":"L"}"#,
        r#"{"x":1}"#,
        "[1,2]",
        "[1.5,2.5]",
        "\"str\"",
        "null",
        "7",
        " 7 ",
        "true",
        "{\"a\":[1,23]} trailing",
        "\u{feff}{}",
    ] {
        push(s.as_bytes().to_vec());
    }
    // BEVE encodings of the same values (valid for body format 1), cut at every byte
    let beve_in = beve::to_vec(&In { a: vec![1, 23] }).expect("beve In");
    with_truncations(&beve_in, &mut push);
    push(beve::to_vec(&In { a: vec![2, 23] }).expect("beve"));
    push(beve::to_vec(&In { a: vec![] }).expect("beve"));
    push(beve::to_vec(&json!({"fail": 1})).expect("beve"));
    push(beve::to_vec(&json!({"count": 3, "label": "L"})).expect("beve"));
    push(beve::to_vec(&7i64).expect("beve"));
    push(beve::to_vec(&"str").expect("beve"));
    // typed numeric arrays: regular form cut at every byte, aligned form for every
    // padding residue (one of them cut at every byte), empty, wrong element type
    let data = [1.0f64, 2.5, -3.0];
    let regular = beve::to_vec_typed_slice(&data[..]);
    with_truncations(&regular, &mut push);
    for base in 0..8 {
        push(aligned_f64(&data, base));
    }
    // padded for the two SliceRef queries at frame offset 0 (48 + query length)
    for q in Kind::SliceRef.queries() {
        push(aligned_f64(&data, 48 + q.len()));
    }
    with_truncations(&aligned_f64(&data, 48 + Kind::SliceRef.queries()[0].len()), &mut push);
    push(beve::to_vec_typed_slice::<f64>(&[]));
    push(aligned_f64(&[], 0));
    push(beve::to_vec_typed_slice(&[1u32, 2, 3][..]));
    push(beve::to_vec_typed_slice(&[f64::NAN, f64::INFINITY][..]));
    // invalid UTF-8
    push(vec![0xff, 0xfe]);
    push(vec![b'"', 0xff, b'"']);
    push(vec![b'{', b'"', 0xc3, 0x28, b'"', b':', b'1', b'}']);
    push(vec![b'q', 0xff]);
    push(b"q-own-query".to_vec());
    for b in 0..=255u8 {
        push(vec![b]);
    }
    let base_len = out.borrow().len();
    for a in 0..=255u8 {
        for b in 0..=255u8 {
            push(vec![a, b]);
        }
    }
    if tier == Tier::Thorough {
        // three-byte strings over 40 bytes that matter to the JSON and BEVE decoders
        let a3: Vec<u8> = THREE_BYTE_ALPHABET.to_vec();
        for x in &a3 {
            for y in &a3 {
                for z in &a3 {
                    push(vec![*x, *y, *z]);
                }
            }
        }
        let a4: &[u8] = FOUR_BYTE_ALPHABET;
        for x in a4 {
            for y in a4 {
                for z in a4 {
                    for w in a4 {
                        push(vec![*x, *y, *z, *w]);
                    }
                }
            }
        }
    }
    drop(push);
    let mut out = out.into_inner();
    let ext = out.split_off(base_len);
    (out, ext)
}

/// JSON structural characters, digits, literal prefixes, whitespace, a quote
/// escape, plus BEVE header bytes (null/bool, i64, f64, string, object, typed
/// array of f64 / i64, generic array, aligned marker), a size byte, NUL and
/// two non-UTF-8 bytes.
const THREE_BYTE_ALPHABET: &[u8] = &[
    b'{', b'}', b'[', b']', b'"', b':', b',', b'0', b'1', b'7', b'-', b'.', b'e', b't', b'n', b'f', b'a', b'q', b' ', b'\\',
    0x00, 0x01, 0x02, 0x03, 0x04, 0x05, 0x08, 0x0c, 0x18, 0x61, 0x64, 0x69, 0x6c, 0x5c, 0x71, 0x74, 0x80, 0xc3, 0xfe, 0xff,
];
const FOUR_BYTE_ALPHABET: &[u8] = &[b'{', b'}', b'[', b']', b'"', b'a', b':', b'1', b',', b' ', 0x00, 0x03, 0x04, 0x64, 0x5c, 0xff];

pub(crate) fn bound(t: &Totals) -> Value {
    json!({
        "handler_kinds": KINDS.len(),
        "kind_queries": KINDS.iter().map(|k| k.queries().len()).sum::<usize>(),
        "body_formats": FORMATS,
        "bodies_base": t.c.get("enumerated_base_bodies"),
        "bodies_short_strings": t.c.get("enumerated_short_string_bodies"),
        "bodies_rule": "base set (x every middleware configuration): empty, {}, JSON/BEVE/typed-array bodies valid for each kind, valid JSON of the wrong shape, the 12-byte body {\"a\":[1,23]} and the BEVE/typed-array bodies cut at every byte, invalid UTF-8, all 256 single bytes. short-string set (quick: x middleware configuration 'none'; thorough: x every configuration): all 65536 two-byte strings; thorough adds all three-byte strings over a 40-byte alphabet and all four-byte strings over a 16-byte alphabet",
        "middleware_configurations": MWCFG_NAMES,
        "dispatch_paths": ["handle", "handle_with_ctx", "handle_view at buffer offsets 0..7"],
    })
}

fn mw_shape(steps: &[Step]) -> (&'static str, usize) {
    let n = steps.iter().filter(|s| matches!(s, Step::M(_))).count();
    let r = steps.iter().position(|s| *s == Step::R).unwrap_or(0);
    let before = steps[..r].iter().filter(|s| matches!(s, Step::M(_))).count();
    let shape = if n == 0 {
        "none"
    } else if before == n {
        "middleware-before-route"
    } else if before == 0 {
        "middleware-after-route"
    } else {
        "middleware-around-route"
    };
    (shape, n)
}

fn case_json(kind: Kind, mwi: usize, query: &str, fmt: u16, body: &[u8], id: u64) -> Value {
    json!({
        "space": "A1",
        "kind": kind.name(),
        "middleware": MWCFG_NAMES[mwi],
        "mw_index": mwi,
        "query": query,
        "body_format": fmt,
        "body_hex": hex(body),
        "id": id,
    })
}

struct Unit {
    router: Router,
    probes: Probes,
    chain: Vec<u8>,
    kind: Kind,
    mwi: usize,
    backing: Backing,
}

impl Unit {
    fn new(kind: Kind, mwi: usize) -> Unit {
        let (router, probes, chain) = build(kind, MWCFG[mwi]);
        Unit { router, probes, chain, kind, mwi, backing: Backing::new() }
    }

    fn one_request(&mut self, query: &str, fmt: u16, body: &[u8], id: u64, t: &mut Totals, sample: bool) {
        let kind = self.kind;
        t.order = id;
        let (shape, nmw) = mw_shape(MWCFG[self.mwi]);
        let (req, wire) = match request(id, query, body, fmt) {
            Ok(x) => x,
            Err(e) => {
                t.machinery = Some(e);
                return;
            }
        };
        t.states += 1;
        let Some(h) = self.router.get(query) else {
            // every A1 query is either registered exactly or equal to / below the
            // kind's mount prefix at a '/' boundary
            t.fail(
                format!("C07:A1:{}:registered-path-not-routed", kind.name()),
                format!("Router::get({query:?}) is None on a router with {} registered as [{}]", kind.name(), MWCFG_NAMES[self.mwi]),
                case_json(kind, self.mwi, query, fmt, body, id),
            );
            return;
        };
        t.c.add(&format!("kind:{}", kind.name()), 1);
        let mut base: Option<Resp> = None;
        let vias = [
            Via::Handle,
            Via::Ctx,
            Via::View(0),
            Via::View(1),
            Via::View(2),
            Via::View(3),
            Via::View(4),
            Via::View(5),
            Via::View(6),
            Via::View(7),
        ];
        for via in vias {
            self.probes.mwlog.lock().unwrap().clear();
            let leaf0 = self.probes.leaf.load(Ordering::Relaxed);
            let borrowed0 = BORROWED_INPUTS.with(|c| c.get());
            let r = invoke(h.as_ref(), &req, &wire, &mut self.backing, via);
            t.transitions += 1;
            let leaf_ran = self.probes.leaf.load(Ordering::Relaxed) - leaf0;
            let borrowed = BORROWED_INPUTS.with(|c| c.get()) - borrowed0;
            if borrowed > 0 {
                t.c.add("slice_input_borrowed_zero_copy", 1);
            }
            let r = match r {
                Ok(r) => r,
                Err(p) => {
                    t.fail(
                        format!("C07:A1:{}:panic:{}", kind.name(), via.family()),
                        format!(
                            "{} of {} {query} panicked ({p}) on body_format={fmt} body={}",
                            via.name(),
                            kind.name(),
                            show_bytes(body, 40)
                        ),
                        case_json(kind, self.mwi, query, fmt, body, id),
                    );
                    continue;
                }
            };
            // middleware: every forwarding middleware exactly once, in registration order
            let log = self.probes.mwlog.lock().unwrap().clone();
            if log != self.chain {
                t.fail(
                    format!("C07:A1:{}:middleware:{shape}:{}", kind.name(), via.family()),
                    format!(
                        "{} {query} behind middleware registered as [{}]: middleware ran as {:?}, expected {:?} ({}, body_format={fmt} body={})",
                        kind.name(),
                        MWCFG_NAMES[self.mwi],
                        log,
                        self.chain,
                        via.name(),
                        show_bytes(body, 40)
                    ),
                    case_json(kind, self.mwi, query, fmt, body, id),
                );
            }
            if nmw > 0 && leaf_ran > 0 && log == self.chain {
                t.c.add("leaf_invoked_behind_forwarding_middleware", 1);
            }
            match &base {
                None => {
                    // classify the request by its base response (non-vacuity)
                    t.c.add(&format!("class:{}", r.class()), 1);
                    if r.via_err {
                        t.c.add("results_returned_as_Err", 1);
                    }
                    if nmw == 2 {
                        t.c.add("requests_behind_2_middlewares", 1);
                    }
                    match shape {
                        "middleware-before-route" => t.c.add("route_registered_after_middleware", 1),
                        "middleware-after-route" => t.c.add("route_registered_before_middleware", 1),
                        "middleware-around-route" => t.c.add("route_registered_between_middlewares", 1),
                        _ => t.c.add("requests_without_middleware", 1),
                    }
                    if r.query() != req.query.as_slice() {
                        t.c.add("responses_with_handler_set_query", 1);
                    }
                    if r.hdr().ec == 0 {
                        t.c.add("format_accepted_on_all_paths", 1);
                    } else if r.body().starts_with(b"Expected ") || r.body().windows(9).any(|w| w == b"requires ") || r.body().ends_with(b"is unsupported") {
                        t.c.add("format_rejected_on_all_paths", 1);
                    }
                    if sample {
                        t.samples.push(json!({"space": "A1", "kind": kind.name(), "middleware": MWCFG_NAMES[self.mwi], "query": query,
                            "body_format": fmt, "body": show_bytes(body, 40), "response_of_the_first_dispatch": r.describe()}));
                    }
                    base = Some(r);
                }
                Some(b) => {
                    if b.wire != r.wire {
                        let field = b.first_difference(&r);
                        t.fail(
                            format!("C07:A1:{}:{}-differs-from-handle:{field}", kind.name(), via.family()),
                            format!(
                                "{} {query} [{}] body_format={fmt} body={}: handle -> {} but {} -> {}",
                                kind.name(),
                                MWCFG_NAMES[self.mwi],
                                show_bytes(body, 40),
                                b.describe(),
                                via.name(),
                                r.describe()
                            ),
                            case_json(kind, self.mwi, query, fmt, body, id),
                        );
                    }
                }
            }
        }
    }
}

pub(crate) fn sweep(tier: Tier) -> Totals {
    let (base, ext) = bodies(tier);
    let units = (KINDS.len() * MWCFG.len() * FORMATS.len()) as u64;
    let parts = par::for_each_index(
        units,
        1,
        |_| Totals::default(),
        |t: &mut Totals, i| {
            let fi = (i % FORMATS.len() as u64) as usize;
            let mwi = ((i / FORMATS.len() as u64) % MWCFG.len() as u64) as usize;
            let ki = (i / (FORMATS.len() * MWCFG.len()) as u64) as usize;
            let kind = KINDS[ki];
            let mut unit = Unit::new(kind, mwi);
            let mut n = 0u64;
            let with_ext = tier == Tier::Thorough || mwi == 0;
            for q in kind.queries() {
                for (bi, b) in base.iter().chain(ext.iter().filter(|_| with_ext)).enumerate() {
                    n += 1;
                    let id = 0x0100_0000_0000_0000u64 | (i << 32) | n;
                    // evidence samples at fixed positions: the 12-byte valid body and `{}` of
                    // format 2 behind two middlewares, for the first query of every kind
                    let sample = mwi == 5 && FORMATS[fi] == 2 && (bi == 1 || bi == 14) && n < 16;
                    unit.one_request(q, FORMATS[fi], b, id, t, sample);
                    if t.machinery.is_some() {
                        return;
                    }
                }
            }
        },
    );
    let mut total = Totals::default();
    for p in parts {
        total.merge(p);
    }
    total.c.add("enumerated_base_bodies", base.len() as u64);
    total.c.add("enumerated_short_string_bodies", ext.len() as u64);
    let kind_queries: u64 = KINDS.iter().map(|k| k.queries().len() as u64).sum();
    let ext_cfgs = if tier == Tier::Thorough { MWCFG.len() as u64 } else { 1 };
    total.expected_states =
        kind_queries * FORMATS.len() as u64 * (MWCFG.len() as u64 * base.len() as u64 + ext_cfgs * ext.len() as u64);
    total
}

pub(crate) fn replay(case: &Value, t: &mut Totals) -> Result<(), String> {
    let kind = case["kind"].as_str().and_then(Kind::from_name).ok_or("kind")?;
    let mwi = case["mw_index"].as_u64().ok_or("mw_index")? as usize;
    if mwi >= MWCFG.len() {
        return Err("mw_index out of range".into());
    }
    let query = case["query"].as_str().ok_or("query")?;
    let fmt = case["body_format"].as_u64().ok_or("body_format")? as u16;
    let body = unhex(case["body_hex"].as_str().ok_or("body_hex")?)?;
    let id = case["id"].as_u64().unwrap_or(0x0100_0000_0000_0001);
    let mut unit = Unit::new(kind, mwi);
    unit.one_request(query, fmt, &body, id, t, false);
    Ok(())
}
