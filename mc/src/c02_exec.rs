//! C02 execution of one input on every entry point ("slot") and the oracle.
//! Runs inside a worker process: an abort here kills only the worker.

use super::cases::{HUGE, MIB16, hex};
use crate::frames::{HEADER, Hdr};
use serde_json::{Value, json};
use std::cell::{Cell, RefCell};
use std::future::Future;
use std::io::Read;
use std::pin::Pin;
use std::sync::Arc;
use std::task::{Context, Poll, Wake, Waker};
use tokio::io::{AsyncRead, ReadBuf};

// ---------------------------------------------------------------- entry points

pub const ENTRIES: [&str; 10] = [
    "Header::decode",
    "Message::from_slice",
    "Message::from_slice_exact",
    "MessageView::from_slice",
    "MessageView::from_slice_exact",
    "Message::new",
    "read_message",
    "read_message_into",
    "read_message_async",
    "read_message_into_async",
];
const E_DECODE: usize = 0;
const E_MFROM: usize = 1;
const E_MEXACT: usize = 2;
const E_VFROM: usize = 3;
const E_VEXACT: usize = 4;
const E_NEW: usize = 5;
const E_READ: usize = 6;
const E_INTO: usize = 7;
const E_READ_A: usize = 8;
const E_INTO_A: usize = 9;

/// read size of the scripted stream: `0` = everything that is asked for
pub const CHUNKS: [usize; 4] = [1, 7, 48, 0];

#[derive(Clone, Copy, Debug, PartialEq, Eq)]
pub struct Slot {
    pub entry: usize,
    /// stream read size (0 = all); for Message::new the split variant
    pub chunk: usize,
    /// `_into` readers: the reused buffer starts with stale content and spare capacity
    pub dirty: bool,
    /// async readers: the stream answers Pending (after waking) before every chunk
    pub pend: bool,
}

impl Slot {
    pub fn is_stream(&self) -> bool {
        self.entry >= E_READ
    }
    pub fn name(&self) -> String {
        let mut s = ENTRIES[self.entry].to_string();
        if self.entry == E_NEW {
            s.push_str(if self.chunk == 0 { "/split=declared" } else { "/split=all-query" });
        }
        if self.is_stream() {
            if self.chunk == 0 {
                s.push_str("/read=all");
            } else {
                s.push_str(&format!("/read={}", self.chunk));
            }
            if self.dirty {
                s.push_str("/reused-buf");
            }
            if self.pend {
                s.push_str("/pending");
            }
        }
        s
    }
}

pub fn slots() -> Vec<Slot> {
    let mut v = Vec::new();
    let s = |entry, chunk, dirty, pend| Slot { entry, chunk, dirty, pend };
    for e in [E_DECODE, E_MFROM, E_MEXACT, E_VFROM, E_VEXACT] {
        v.push(s(e, 0, false, false));
    }
    v.push(s(E_NEW, 0, false, false));
    v.push(s(E_NEW, 1, false, false));
    for c in CHUNKS {
        v.push(s(E_READ, c, false, false));
    }
    for c in CHUNKS {
        for d in [false, true] {
            v.push(s(E_INTO, c, d, false));
        }
    }
    for c in CHUNKS {
        v.push(s(E_READ_A, c, false, false));
    }
    v.push(s(E_READ_A, 7, false, true));
    for c in CHUNKS {
        for d in [false, true] {
            v.push(s(E_INTO_A, c, d, false));
        }
    }
    v.push(s(E_INTO_A, 7, true, true));
    v
}

// ------------------------------------------------------------ scripted stream

pub struct ChunkReader<'a> {
    data: &'a [u8],
    pos: usize,
    chunk: usize,
    pend: bool,
    armed: bool,
    pub reads: u64,
}

impl<'a> ChunkReader<'a> {
    pub fn new(data: &'a [u8], chunk: usize, pend: bool) -> Self {
        ChunkReader { data, pos: 0, chunk, pend, armed: false, reads: 0 }
    }
    fn next_chunk(&mut self, want: usize) -> &'a [u8] {
        let mut n = want.min(self.data.len() - self.pos);
        if self.chunk != 0 {
            n = n.min(self.chunk);
        }
        let s = &self.data[self.pos..self.pos + n];
        self.pos += n;
        self.reads += 1;
        s
    }
}

impl Read for ChunkReader<'_> {
    fn read(&mut self, buf: &mut [u8]) -> std::io::Result<usize> {
        let s = self.next_chunk(buf.len());
        buf[..s.len()].copy_from_slice(s);
        Ok(s.len())
    }
}

impl AsyncRead for ChunkReader<'_> {
    fn poll_read(mut self: Pin<&mut Self>, cx: &mut Context<'_>, buf: &mut ReadBuf<'_>) -> Poll<std::io::Result<()>> {
        if self.pend && !self.armed {
            self.armed = true;
            cx.waker().wake_by_ref();
            return Poll::Pending;
        }
        self.armed = false;
        let s = self.get_mut().next_chunk(buf.remaining());
        buf.put_slice(s);
        Poll::Ready(Ok(()))
    }
}

struct NoopWake;
impl Wake for NoopWake {
    fn wake(self: Arc<Self>) {}
}

/// Polls to completion; the scripted stream is always immediately re-pollable.
/// `None` = the future kept answering Pending beyond any possible need (livelock).
fn block_on<F: Future>(f: F, max_polls: u64) -> Option<F::Output> {
    thread_local! { static WAKER: Waker = Waker::from(Arc::new(NoopWake)); }
    WAKER.with(|w| {
        let mut cx = Context::from_waker(w);
        let mut f = std::pin::pin!(f);
        for _ in 0..max_polls {
            if let Poll::Ready(v) = f.as_mut().poll(&mut cx) {
                return Some(v);
            }
        }
        None
    })
}

// -------------------------------------------------------- reference (oracle)

#[derive(Clone, Copy, Debug, PartialEq, Eq)]
pub enum RefClass {
    /// fewer than 48 bytes
    Short = 0,
    BadMagic = 1,
    /// 48+q+b fits u64 and differs from length
    Mismatch = 2,
    /// 48+q+b exceeds u64 and the wrapped sum differs from length
    OverflowMismatch = 3,
    /// 48+q+b exceeds u64 and the wrapped sum EQUALS length (the dangerous one)
    WrapConsistent = 4,
    /// consistent header, buffer shorter than the frame
    Incomplete = 5,
    /// consistent header, buffer is exactly the frame
    Exact = 6,
    /// consistent header, whole frame plus trailing bytes
    Trailing = 7,
}
pub const REF_CLASSES: [&str; 8] = [
    "short_lt48",
    "bad_magic",
    "length_mismatch",
    "overflowing_sum_mismatch",
    "wrapped_sum_equals_length",
    "consistent_incomplete",
    "consistent_exact",
    "consistent_with_trailing",
];
const ACCEPT_REASON: [&str; 8] = [
    "short-header",
    "bad-magic",
    "length-mismatch",
    "overflowing-sum",
    "wrapped-sum",
    "incomplete-frame",
    "",
    "trailing-bytes",
];

pub struct RefInfo {
    pub raw: Option<Hdr>,
    pub class: RefClass,
    /// frame size when the header is consistent and fits the buffer
    pub total: usize,
}

/// Reference classification with u128 arithmetic (`Hdr::consistent_total`).
pub fn classify(bytes: &[u8]) -> RefInfo {
    let Some(h) = Hdr::decode_raw(bytes) else {
        return RefInfo { raw: None, class: RefClass::Short, total: 0 };
    };
    let class;
    let mut total = 0usize;
    match h.consistent_total() {
        Some(t) => {
            if (bytes.len() as u128) < t {
                class = RefClass::Incomplete;
            } else {
                total = t as usize;
                class = if bytes.len() == total { RefClass::Exact } else { RefClass::Trailing };
            }
        }
        None => {
            if h.spec != crate::frames::SPEC {
                class = RefClass::BadMagic;
            } else {
                let sum = HEADER as u128 + h.query_length as u128 + h.body_length as u128;
                class = if sum <= u64::MAX as u128 {
                    RefClass::Mismatch
                } else if (sum as u64) == h.length {
                    RefClass::WrapConsistent
                } else {
                    RefClass::OverflowMismatch
                };
            }
        }
    }
    RefInfo { raw: Some(h), class, total }
}

/// The stream readers only see inputs whose three declared lengths are each
/// <= 16 MiB or >= 2^62, so no outcome depends on how much memory the machine has
/// (whatever combination of the fields an implementation allocates from).
pub fn stream_allowed(r: &RefInfo) -> bool {
    match &r.raw {
        None => true,
        Some(h) => [h.length, h.query_length, h.body_length].iter().all(|&v| v <= MIB16 || v >= HUGE),
    }
}

// ------------------------------------------------------------------ execution

pub struct Got {
    pub h: Hdr,
    pub query: Vec<u8>,
    pub body: Vec<u8>,
    /// stream readers: bytes taken from the stream
    pub consumed: Option<usize>,
    /// `_into` readers: the whole buffer they produced
    pub frame: Option<Vec<u8>>,
    /// views: both slices point into the input buffer at the right offsets
    pub aliased: Option<bool>,
}

pub const ERR_CLASSES: [&str; 8] = [
    "InvalidHeaderLength",
    "InvalidSpec",
    "LengthMismatch",
    "BufferTooSmall",
    "Io:UnexpectedEof",
    "Io:OutOfMemory",
    "Io:other",
    "other",
];

pub enum Res {
    Ok(Got),
    Err(usize, String),
    Panic(String),
    Livelock,
}

fn err_class(e: &repe::RepeError) -> usize {
    use repe::RepeError as E;
    match e {
        E::InvalidHeaderLength(_) => 0,
        E::InvalidSpec(_) => 1,
        E::LengthMismatch { .. } => 2,
        E::BufferTooSmall { .. } => 3,
        E::Io(io) => match io.kind() {
            std::io::ErrorKind::UnexpectedEof => 4,
            std::io::ErrorKind::OutOfMemory => 5,
            _ => 6,
        },
        _ => 7,
    }
}

fn hdr_of(h: &repe::Header) -> Hdr {
    Hdr {
        length: h.length,
        spec: h.spec,
        version: h.version,
        notify: h.notify,
        reserved: h.reserved,
        id: h.id,
        query_length: h.query_length,
        body_length: h.body_length,
        query_format: h.query_format,
        body_format: h.body_format,
        ec: h.ec,
    }
}

fn header_of(h: &Hdr) -> repe::Header {
    repe::Header {
        length: h.length,
        spec: h.spec,
        version: h.version,
        notify: h.notify,
        reserved: h.reserved,
        id: h.id,
        query_length: h.query_length,
        body_length: h.body_length,
        query_format: h.query_format,
        body_format: h.body_format,
        ec: h.ec,
    }
}

fn got_msg(m: repe::Message, consumed: Option<usize>) -> Got {
    Got { h: hdr_of(&m.header), query: m.query, body: m.body, consumed, frame: None, aliased: None }
}

fn got_view(v: repe::MessageView<'_>, buf: &[u8]) -> Got {
    let q_ok = buf
        .get(HEADER..)
        .is_some_and(|rest| v.query.len() <= rest.len() && std::ptr::eq(v.query.as_ptr(), rest.as_ptr()));
    let b_ok = HEADER
        .checked_add(v.query.len())
        .and_then(|off| buf.get(off..))
        .is_some_and(|rest| v.body.len() <= rest.len() && std::ptr::eq(v.body.as_ptr(), rest.as_ptr()));
    Got {
        h: hdr_of(&v.header),
        query: v.query.to_vec(),
        body: v.body.to_vec(),
        consumed: None,
        frame: None,
        aliased: Some(q_ok && b_ok),
    }
}

/// Splits an `_into` buffer the way the documentation says it is to be used
/// (header + query + body), without trusting it: `None` if it is not even that long.
fn got_frame(buf: &[u8], consumed: usize) -> Option<Got> {
    let h = Hdr::decode_raw(buf)?;
    let q = usize::try_from(h.query_length).ok()?;
    let b = usize::try_from(h.body_length).ok()?;
    let qe = HEADER.checked_add(q)?;
    let be = qe.checked_add(b)?;
    if be > buf.len() {
        return None;
    }
    Some(Got {
        h,
        query: buf[HEADER..qe].to_vec(),
        body: buf[qe..be].to_vec(),
        consumed: Some(consumed),
        frame: Some(buf.to_vec()),
        aliased: None,
    })
}

thread_local! {
    /// true exactly while code of the crate under test is on the stack
    pub static IN_SUT: Cell<bool> = const { Cell::new(false) };
    pub static LAST_PANIC: RefCell<String> = const { RefCell::new(String::new()) };
}

fn stale_buf() -> Vec<u8> {
    let mut v = Vec::with_capacity(256);
    v.extend(std::iter::repeat_n(0xEEu8, 100));
    v
}

/// Message::new arguments derived from the input: the raw header plus the payload
/// split either as the header declares (clamped to what is there) or all-in-query.
fn new_args(bytes: &[u8], h: &Hdr, variant: usize) -> (Vec<u8>, Vec<u8>) {
    let rest = &bytes[HEADER..];
    if variant == 0 {
        let q = (h.query_length.min(rest.len() as u64)) as usize;
        let b = (h.body_length.min((rest.len() - q) as u64)) as usize;
        (rest[..q].to_vec(), rest[q..q + b].to_vec())
    } else {
        (rest.to_vec(), Vec::new())
    }
}

fn call(slot: Slot, bytes: &[u8], r: &RefInfo) -> Result<Got, repe::RepeError> {
    let polls = 4 * bytes.len() as u64 + 1000;
    match slot.entry {
        E_DECODE => repe::Header::decode(bytes)
            .map(|h| Got { h: hdr_of(&h), query: vec![], body: vec![], consumed: None, frame: None, aliased: None }),
        E_MFROM => repe::Message::from_slice(bytes).map(|m| got_msg(m, None)),
        E_MEXACT => repe::Message::from_slice_exact(bytes).map(|m| got_msg(m, None)),
        E_VFROM => repe::MessageView::from_slice(bytes).map(|v| got_view(v, bytes)),
        E_VEXACT => repe::MessageView::from_slice_exact(bytes).map(|v| got_view(v, bytes)),
        E_NEW => {
            let h = r.raw.as_ref().expect("Message::new slot needs a header");
            let (q, b) = new_args(bytes, h, slot.chunk);
            repe::Message::new(header_of(h), q, b).map(|m| got_msg(m, None))
        }
        E_READ => {
            let mut rd = ChunkReader::new(bytes, slot.chunk, false);
            let m = repe::read_message(&mut rd)?;
            Ok(got_msg(m, Some(rd.pos)))
        }
        E_INTO => {
            let mut rd = ChunkReader::new(bytes, slot.chunk, false);
            let mut buf = if slot.dirty { stale_buf() } else { Vec::new() };
            repe::read_message_into(&mut rd, &mut buf)?;
            Ok(got_frame(&buf, rd.pos).unwrap_or_else(|| short_frame(&buf, rd.pos)))
        }
        E_READ_A => {
            let mut rd = ChunkReader::new(bytes, slot.chunk, slot.pend);
            match block_on(repe::async_io::read_message_async(&mut rd), polls) {
                Some(res) => res.map(|m| got_msg(m, Some(rd.pos))),
                None => Err(livelock()),
            }
        }
        E_INTO_A => {
            let mut rd = ChunkReader::new(bytes, slot.chunk, slot.pend);
            let mut buf = if slot.dirty { stale_buf() } else { Vec::new() };
            match block_on(repe::async_io::read_message_into_async(&mut rd, &mut buf), polls) {
                Some(res) => {
                    res?;
                    Ok(got_frame(&buf, rd.pos).unwrap_or_else(|| short_frame(&buf, rd.pos)))
                }
                None => Err(livelock()),
            }
        }
        _ => unreachable!(),
    }
}

const LIVELOCK_MARK: &str = "c02-harness: future still pending after the whole stream was delivered";

fn livelock() -> repe::RepeError {
    repe::RepeError::Io(std::io::Error::other(LIVELOCK_MARK))
}

/// `_into` reported success but the buffer does not even hold what its own header declares.
fn short_frame(buf: &[u8], consumed: usize) -> Got {
    Got {
        h: Hdr::decode_raw(buf).unwrap_or_default(),
        query: Vec::new(),
        body: Vec::new(),
        consumed: Some(consumed),
        frame: Some(buf.to_vec()),
        aliased: None,
    }
}

pub fn execute(slot: Slot, bytes: &[u8], r: &RefInfo) -> Res {
    IN_SUT.with(|f| f.set(true));
    let out = std::panic::catch_unwind(std::panic::AssertUnwindSafe(|| call(slot, bytes, r)));
    IN_SUT.with(|f| f.set(false));
    match out {
        Ok(Ok(g)) => Res::Ok(g),
        Ok(Err(e)) => {
            let s = e.to_string();
            if s.contains(LIVELOCK_MARK) { Res::Livelock } else { Res::Err(err_class(&e), s) }
        }
        Err(_) => Res::Panic(LAST_PANIC.with(|p| p.borrow().clone())),
    }
}

// --------------------------------------------------------------------- verdict

#[derive(Default, Clone)]
pub struct Counters {
    pub inputs: u64,
    pub executions: u64,
    pub per_entry: [[u64; 5]; 10], // exec, ok, err, panic, converse (rejected although the frame is complete)
    pub ref_class: [u64; 8],
    pub err_class: [[u64; 8]; 10],
    pub stream_inputs: u64,
    pub stream_inputs_skipped_midrange: u64,
    /// consistent header declaring >= 2^62 bytes, run on a stream reader
    pub stream_huge_consistent_exec: u64,
    /// some declared field >= 2^62, run on a stream reader
    pub stream_huge_field_exec: u64,
    /// consistent header declaring > 1 MiB (<= 16 MiB), run on a stream reader
    pub stream_big_alloc_exec: u64,
    pub stream_big_ok: u64,
    pub into_reused_ok: u64,
    pub pending_ok: u64,
    pub new_accepts_mismatch: u64,
    pub over_consumed: u64,
    pub other_header_field_diff: u64,
    pub violations: u64,
    pub violations_by_key: std::collections::BTreeMap<String, u64>,
    pub converse_example: Option<String>,
}

impl Counters {
    pub fn to_json(&self) -> Value {
        json!({
            "inputs": self.inputs, "executions": self.executions,
            "per_entry": self.per_entry, "ref_class": self.ref_class, "err_class": self.err_class,
            "stream_inputs": self.stream_inputs, "skipped": self.stream_inputs_skipped_midrange,
            "huge_consistent": self.stream_huge_consistent_exec, "huge_field": self.stream_huge_field_exec,
            "big_alloc": self.stream_big_alloc_exec, "big_ok": self.stream_big_ok,
            "into_reused_ok": self.into_reused_ok, "pending_ok": self.pending_ok,
            "new_accepts_mismatch": self.new_accepts_mismatch, "over_consumed": self.over_consumed, "other_header_field_diff": self.other_header_field_diff,
            "violations": self.violations, "by_key": self.violations_by_key,
            "converse_example": self.converse_example,
        })
    }
    pub fn add_json(&mut self, v: &Value) {
        let u = |k: &str| v[k].as_u64().unwrap_or(0);
        self.inputs += u("inputs");
        self.executions += u("executions");
        for e in 0..10 {
            for k in 0..5 {
                self.per_entry[e][k] += v["per_entry"][e][k].as_u64().unwrap_or(0);
            }
            for k in 0..8 {
                self.err_class[e][k] += v["err_class"][e][k].as_u64().unwrap_or(0);
            }
        }
        for k in 0..8 {
            self.ref_class[k] += v["ref_class"][k].as_u64().unwrap_or(0);
        }
        self.stream_inputs += u("stream_inputs");
        self.stream_inputs_skipped_midrange += u("skipped");
        self.stream_huge_consistent_exec += u("huge_consistent");
        self.stream_huge_field_exec += u("huge_field");
        self.stream_big_alloc_exec += u("big_alloc");
        self.stream_big_ok += u("big_ok");
        self.into_reused_ok += u("into_reused_ok");
        self.pending_ok += u("pending_ok");
        self.new_accepts_mismatch += u("new_accepts_mismatch");
        self.over_consumed += u("over_consumed");
        self.other_header_field_diff += u("other_header_field_diff");
        self.violations += u("violations");
        if let Some(m) = v["by_key"].as_object() {
            for (k, n) in m {
                *self.violations_by_key.entry(k.clone()).or_insert(0) += n.as_u64().unwrap_or(0);
            }
        }
        if self.converse_example.is_none() {
            self.converse_example = v["converse_example"].as_str().map(|s| s.to_string());
        }
    }
}

pub struct Finding {
    pub key: String,
    pub what: String,
    pub slot: String,
}

fn panic_class(msg: &str) -> &'static str {
    let m = msg.to_ascii_lowercase();
    if m.contains("capacity overflow") {
        "capacity"
    } else if m.contains("overflow") {
        "overflow"
    } else if m.contains("out of range") || m.contains("out of bounds") || m.contains("index") || m.contains("slice") {
        "slice-bounds"
    } else {
        "other"
    }
}

pub fn describe_input(bytes: &[u8], r: &RefInfo) -> String {
    let shown = &bytes[..bytes.len().min(64)];
    match &r.raw {
        Some(h) => format!(
            "{}-byte input [{}] length={} spec=0x{:04x} query_length={} body_length={} bytes={}{}",
            bytes.len(),
            REF_CLASSES[r.class as usize],
            h.length,
            h.spec,
            h.query_length,
            h.body_length,
            hex(shown),
            if bytes.len() > 64 { ".." } else { "" }
        ),
        None => format!("{}-byte input [short] bytes={}", bytes.len(), hex(shown)),
    }
}

/// Runs `slot` on `bytes`, updates the counters and returns the violation, if any.
///
/// Oracle clauses (statement of C02):
///  P  no panic (overflow, slice bounds, capacity, anything) and no livelock;
///     aborts are seen by the parent process as the death of this worker
///  A  `Ok` only if magic == 0x1507, length == 48+q+b in u128 arithmetic, and the
///     supplied bytes hold the whole frame (exact variants: and nothing more)
///  R  on `Ok` the header fields equal the input's and query/body are exactly
///     bytes 48..48+q and 48+q..48+q+b of the input (views: the very same memory;
///     `_into` readers: the buffer is exactly the frame's bytes)
/// `Err` on a complete consistent frame is outside the statement: counted as a note.
pub fn check(slot: Slot, bytes: &[u8], r: &RefInfo, c: &mut Counters) -> Option<Finding> {
    let e = slot.entry;
    let entry = ENTRIES[e];
    let res = execute(slot, bytes, r);
    c.executions += 1;
    c.per_entry[e][0] += 1;
    let consistent = matches!(r.class, RefClass::Incomplete | RefClass::Exact | RefClass::Trailing);
    let complete = matches!(r.class, RefClass::Exact | RefClass::Trailing);
    if slot.is_stream() {
        if let Some(h) = &r.raw {
            if [h.length, h.query_length, h.body_length].iter().any(|&v| v >= HUGE) {
                c.stream_huge_field_exec += 1;
                if consistent {
                    c.stream_huge_consistent_exec += 1;
                }
            } else if consistent && h.length > (1 << 20) {
                c.stream_big_alloc_exec += 1;
            }
        }
    }
    let may_ok = match e {
        E_DECODE => consistent,
        E_MEXACT | E_VEXACT => r.class == RefClass::Exact,
        E_NEW => true,
        _ => complete,
    };
    let fail = |kind: String, detail: String| {
        Some(Finding {
            key: format!("C02:{entry}:{kind}"),
            what: format!("{} {detail}; {}", slot.name(), describe_input(bytes, r)),
            slot: slot.name(),
        })
    };
    match res {
        Res::Panic(msg) => {
            c.per_entry[e][3] += 1;
            fail(format!("panic:{}", panic_class(&msg)), format!("panicked: {msg}"))
        }
        Res::Livelock => {
            c.per_entry[e][3] += 1;
            fail("hang".into(), "never completed although the stream had delivered everything and reported EOF".into())
        }
        Res::Err(k, _msg) => {
            c.per_entry[e][2] += 1;
            c.err_class[e][k] += 1;
            if may_ok && e != E_NEW {
                c.per_entry[e][4] += 1;
                if c.converse_example.is_none() {
                    c.converse_example = Some(format!("{} returned Err({_msg}) for {}", slot.name(), describe_input(bytes, r)));
                }
            }
            None
        }
        Res::Ok(g) => {
            c.per_entry[e][1] += 1;
            let h = r.raw.as_ref();
            if e == E_NEW {
                let h = h.unwrap();
                let (q, b) = new_args(bytes, h, slot.chunk);
                if h.query_length != q.len() as u64 || h.body_length != b.len() as u64 {
                    // a constructor, not a parser: the statement's "parse succeeds only when" does not bind it
                    c.new_accepts_mismatch += 1;
                    return None;
                }
                if g.h != *h {
                    return fail("returns:wrong-header".into(), format!("returned header {:?}", g.h));
                }
                if g.query != q {
                    return fail("returns:wrong-query".into(), "returned a query different from the one given".into());
                }
                if g.body != b {
                    return fail("returns:wrong-body".into(), "returned a body different from the one given".into());
                }
                return None;
            }
            if !may_ok {
                let reason = ACCEPT_REASON[r.class as usize];
                return fail(
                    format!("accepts:{reason}"),
                    format!("returned Ok (header {:?}, {} query bytes, {} body bytes)", g.h, g.query.len(), g.body.len()),
                );
            }
            let h = h.unwrap();
            if (g.h.length, g.h.spec, g.h.query_length, g.h.body_length) != (h.length, h.spec, h.query_length, h.body_length) {
                return fail("returns:wrong-header".into(), format!("returned header {:?}, input header is {:?}", g.h, h));
            }
            if g.h != *h {
                // fields C02 does not speak about (id, formats, reserved, ...): C01 decides those
                c.other_header_field_diff += 1;
            }
            if e != E_DECODE {
                let q = h.query_length as usize;
                if g.query != bytes[HEADER..HEADER + q] {
                    return fail("returns:wrong-query".into(), format!("query is not input[48..{}]: got {} bytes {}", 48 + q, g.query.len(), hex(&g.query[..g.query.len().min(32)])));
                }
                if g.body != bytes[HEADER + q..r.total] {
                    return fail("returns:wrong-body".into(), format!("body is not input[{}..{}]: got {} bytes {}", 48 + q, r.total, g.body.len(), hex(&g.body[..g.body.len().min(32)])));
                }
                if g.aliased == Some(false) {
                    return fail("returns:view-not-in-buffer".into(), "returned slices do not point at input[48..] / input[48+q..]".into());
                }
                if let Some(f) = &g.frame {
                    if f[..] != bytes[..r.total] {
                        return fail("returns:wrong-frame-bytes".into(), format!("buffer holds {} bytes that are not the frame's {} bytes", f.len(), r.total));
                    }
                    if slot.dirty {
                        c.into_reused_ok += 1;
                    }
                }
                if let Some(n) = g.consumed {
                    if n != r.total {
                        c.over_consumed += 1;
                    }
                    if h.length > (1 << 20) {
                        c.stream_big_ok += 1;
                    }
                    if slot.pend {
                        c.pending_ok += 1;
                    }
                }
            }
            None
        }
    }
}

/// Slots applicable to this input, in canonical order.
pub fn applicable<'a>(all: &'a [Slot], r: &'a RefInfo) -> impl Iterator<Item = (usize, Slot)> + 'a {
    let stream = stream_allowed(r);
    all.iter().copied().enumerate().filter(move |(_, s)| {
        if s.entry == E_NEW {
            r.raw.is_some()
        } else if s.is_stream() {
            stream
        } else {
            true
        }
    })
}

pub fn fnv64(bytes: &[u8]) -> u64 {
    let mut h: u64 = 0xcbf29ce484222325;
    for &b in bytes {
        h ^= b as u64;
        h = h.wrapping_mul(0x100000001b3);
    }
    // length mixed in so that prefixes of zero bytes differ
    h ^ (bytes.len() as u64).wrapping_mul(0x9E3779B97F4A7C15)
}
