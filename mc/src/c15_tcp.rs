//! C15, loopback-TCP part: the built-in accept loops (`serve_listener`,
//! `serve_listener_with_graceful_drain`) — handshake failures, graceful drain,
//! drain-deadline abort (`JoinSet::shutdown`), with a raw tungstenite client.

use super::mem::{cause_frame, next_msg, request};
use super::{
    Cause, Cell, ConnFacts, Ev, NOCONN, Outcome, PHASES, Phase, Plan, SHORT_WATCHDOG, WATCHDOG, World, build_server, bump, cell_from_json, cell_json,
    evaluate, skip_reason,
};
use crate::ctx::Tier;
use crate::wsh::Got;
use futures_util::SinkExt;
use serde_json::{Value, json};
use std::collections::BTreeMap;
use std::net::SocketAddr;
use std::sync::Arc;
use std::sync::atomic::Ordering;
use std::time::Duration;
use tokio::io::{AsyncReadExt, AsyncWriteExt};
use tokio::net::{TcpSocket, TcpStream};
use tokio_tungstenite::WebSocketStream;
use tokio_tungstenite::tungstenite::Message as WsMessage;
use tokio_tungstenite::tungstenite::client::IntoClientRequest;

#[derive(Clone, Copy, Debug, PartialEq, Eq)]
pub(crate) enum Fail {
    /// upgrade request for another path (404)
    WrongPath,
    /// plain HTTP GET without upgrade headers
    NotUpgrade,
    /// bytes that are not HTTP
    Garbage,
    /// TCP connect, then close without sending anything
    EarlyClose,
    /// TCP connect, then silence (still in the handshake when the drain aborts)
    Stalled,
}
const FAILS: [Fail; 5] = [Fail::WrongPath, Fail::NotUpgrade, Fail::Garbage, Fail::EarlyClose, Fail::Stalled];

#[derive(Clone, Copy, Debug, PartialEq, Eq)]
pub(crate) enum Deadline {
    /// 30 s: every connection drains through the cancellation
    Generous,
    /// 0: the deadline is the next timer tick (<= 1 ms); whatever has not drained by
    /// then (a blocked writer, a parked inline callback) is aborted
    Zero,
    /// 150 ms: cancel is processed, then the stragglers are aborted
    Short,
}
const DEADLINES: [Deadline; 3] = [Deadline::Generous, Deadline::Zero, Deadline::Short];

#[derive(Clone, Copy, Debug, PartialEq, Eq)]
pub(crate) enum Loop {
    /// `serve_listener`: every good connection ends by its own cause
    Listener,
    /// `serve_listener_with_graceful_drain`: all good connections are ended by the drain
    Drain(Deadline),
}

#[derive(Clone, Copy, Debug, PartialEq, Eq)]
pub(crate) enum TConn {
    Good(Cell),
    Fail(Fail),
}

#[derive(Clone, Debug)]
pub(crate) struct TcpScenario {
    pub lp: Loop,
    /// worker threads of the server runtime; 0 = current-thread runtime
    pub workers: usize,
    pub conns: Vec<TConn>,
}

impl TcpScenario {
    pub(crate) fn to_json(&self) -> Value {
        json!({
            "kind": "tcp",
            "loop": match self.lp { Loop::Listener => "serve_listener".to_string(), Loop::Drain(d) => format!("{d:?}") },
            "workers": self.workers,
            "conns": self.conns.iter().map(|c| match c {
                TConn::Good(cell) => cell_json(cell),
                TConn::Fail(f) => json!({"fail": format!("{f:?}")}),
            }).collect::<Vec<_>>(),
        })
    }
    pub(crate) fn from_json(v: &Value) -> Result<TcpScenario, String> {
        let lp = match v["loop"].as_str().ok_or("loop")? {
            "serve_listener" => Loop::Listener,
            d => Loop::Drain(DEADLINES.iter().copied().find(|x| format!("{x:?}") == d).ok_or("deadline")?),
        };
        let mut conns = Vec::new();
        for c in v["conns"].as_array().ok_or("conns")? {
            if let Some(f) = c.get("fail").and_then(|f| f.as_str()) {
                conns.push(TConn::Fail(FAILS.iter().copied().find(|x| format!("{x:?}") == f).ok_or("fail kind")?));
            } else {
                conns.push(TConn::Good(cell_from_json(c)?));
            }
        }
        Ok(TcpScenario { lp, workers: v["workers"].as_u64().unwrap_or(4) as usize, conns })
    }
}

pub(crate) fn bound(tier: Tier) -> Value {
    json!({
        "serve_listener": "every executable (cause, phase in Idle/Inline/Off/Connect) cell x one failed handshake (kind and position rotating; thorough: all kinds x both positions)",
        "graceful_drain": format!("phase tuples of length 1..{} over Idle/Inline/Off/Connect x deadline Generous/Zero on a 4-worker runtime, Idle/Off tuples also on a current-thread runtime, Outbound (peer not reading, responses > socket buffers) x Short/Zero, failed and stalled handshakes mixed in", tier.pick(2, 3)),
    })
}

pub(crate) fn enumerate(tier: Tier, skipped: &mut BTreeMap<String, u64>) -> Vec<TcpScenario> {
    let mut v = Vec::new();
    let kinds = [Fail::WrongPath, Fail::NotUpgrade, Fail::Garbage, Fail::EarlyClose];
    // ---- serve_listener: good connection (own cause) + one failed handshake
    let mut k = 0usize;
    for &cause in &super::CAUSES {
        for &phase in &PHASES {
            if let Some(r) = skip_reason(cause, phase, false, true) {
                bump(skipped, format!("{cause:?}x{phase:?}@serve_listener: {r}"));
                continue;
            }
            if cause == Cause::Abort {
                bump(skipped, format!("{cause:?}x{phase:?}@serve_listener: the accept loop's connection tasks are detached; nobody holds a JoinHandle to abort"));
                continue;
            }
            if phase == Phase::Outbound {
                bump(skipped, format!("{cause:?}x{phase:?}@serve_listener: a non-reading TCP peer needs multi-MiB responses; decided in memory and in the drain rows"));
                continue;
            }
            let cell = Cell { cause, phase };
            match tier {
                Tier::Quick => {
                    let f = TConn::Fail(kinds[k % kinds.len()]);
                    let conns = if (k / kinds.len()) % 2 == 0 { vec![f, TConn::Good(cell)] } else { vec![TConn::Good(cell), f] };
                    v.push(TcpScenario { lp: Loop::Listener, workers: 4, conns });
                }
                Tier::Thorough => {
                    for f in kinds {
                        v.push(TcpScenario { lp: Loop::Listener, workers: 4, conns: vec![TConn::Fail(f), TConn::Good(cell)] });
                        v.push(TcpScenario { lp: Loop::Listener, workers: 4, conns: vec![TConn::Good(cell), TConn::Fail(f)] });
                    }
                }
            }
            k += 1;
        }
    }
    // three good connections + every failure kind on one listener
    v.push(TcpScenario {
        lp: Loop::Listener,
        workers: 4,
        conns: vec![
            TConn::Fail(Fail::WrongPath),
            TConn::Good(Cell { cause: Cause::Close, phase: Phase::Off }),
            TConn::Fail(Fail::NotUpgrade),
            TConn::Good(Cell { cause: Cause::Drop, phase: Phase::Idle }),
            TConn::Fail(Fail::Garbage),
            TConn::Good(Cell { cause: Cause::InlinePanic, phase: Phase::Inline }),
            TConn::Fail(Fail::EarlyClose),
        ],
    });
    // ---- graceful drain
    let drain_cell = |phase| TConn::Good(Cell { cause: Cause::Drain, phase });
    let ph4 = [Phase::Idle, Phase::Inline, Phase::Off, Phase::Connect];
    let max_n = tier.pick(2, 3);
    for n in 1..=max_n {
        let total = ph4.len().pow(n as u32);
        for code in 0..total {
            let mut phases = Vec::new();
            let mut c = code;
            for _ in 0..n {
                phases.push(ph4[c % ph4.len()]);
                c /= ph4.len();
            }
            let blocking = phases.iter().any(|p| matches!(p, Phase::Inline | Phase::Connect));
            for d in [Deadline::Generous, Deadline::Zero] {
                v.push(TcpScenario { lp: Loop::Drain(d), workers: 4, conns: phases.iter().map(|p| drain_cell(*p)).collect() });
                if !blocking {
                    v.push(TcpScenario { lp: Loop::Drain(d), workers: 0, conns: phases.iter().map(|p| drain_cell(*p)).collect() });
                }
            }
        }
    }
    bump(skipped, "DrainxInline/Connect@graceful_drain on a current-thread runtime: the parked callback occupies the only thread, the shutdown future cannot be polled");
    bump(skipped, "DrainxOutbound@graceful_drain(Generous): the blocked writer would hold the drain for the whole 30 s deadline");
    for d in [Deadline::Short, Deadline::Zero] {
        for workers in [4, 0] {
            v.push(TcpScenario { lp: Loop::Drain(d), workers, conns: vec![drain_cell(Phase::Outbound)] });
            v.push(TcpScenario { lp: Loop::Drain(d), workers, conns: vec![drain_cell(Phase::Off), drain_cell(Phase::Outbound), drain_cell(Phase::Idle)] });
        }
    }
    // failed / unfinished handshakes in a draining server
    for workers in [4, 0] {
        v.push(TcpScenario {
            lp: Loop::Drain(Deadline::Zero),
            workers,
            conns: vec![TConn::Fail(Fail::Stalled), drain_cell(Phase::Idle), TConn::Fail(Fail::WrongPath), drain_cell(Phase::Off)],
        });
        v.push(TcpScenario {
            lp: Loop::Drain(Deadline::Generous),
            workers,
            conns: vec![TConn::Fail(Fail::NotUpgrade), drain_cell(Phase::Off), TConn::Fail(Fail::EarlyClose), drain_cell(Phase::Idle), TConn::Fail(Fail::Garbage)],
        });
    }
    v
}

type Ws = WebSocketStream<TcpStream>;

async fn ws_connect(addr: SocketAddr, path: &str, alias: &str, small_rcvbuf: bool) -> Result<Ws, String> {
    let sock = TcpSocket::new_v4().map_err(|e| e.to_string())?;
    if small_rcvbuf {
        sock.set_recv_buffer_size(4096).map_err(|e| e.to_string())?;
    }
    let stream = sock.connect(addr).await.map_err(|e| e.to_string())?;
    let mut req = format!("ws://{addr}{path}").into_client_request().map_err(|e| e.to_string())?;
    req.headers_mut().insert("x-alias", alias.parse().map_err(|_| "header".to_string())?);
    let (ws, _resp) = tokio_tungstenite::client_async(req, stream).await.map_err(|e| e.to_string())?;
    Ok(ws)
}

/// Number of 1 MiB responses that cannot fit into the kernel's socket buffers.
fn big_count() -> u64 {
    let wmem = std::fs::read_to_string("/proc/sys/net/ipv4/tcp_wmem")
        .ok()
        .and_then(|s| s.split_whitespace().nth(2).and_then(|x| x.parse::<u64>().ok()))
        .unwrap_or(4 << 20);
    (2 * wmem >> 20) + 8
}
const BIG: u64 = 1 << 20;

struct TcpConn {
    idx: usize,
    client: Option<Ws>,
    /// kept open for a stalled handshake
    raw: Option<TcpStream>,
    wire: Vec<Got>,
    read_done: bool,
    bigs: u64,
}

struct Run<'a> {
    w: &'a Arc<World>,
    sc: &'a TcpScenario,
    out: &'a mut Outcome,
    addr: SocketAddr,
}

impl Run<'_> {
    fn stuck(&mut self, idx: usize, what: &str) {
        self.out.stuck.push(format!("{what} [tcp conn {idx} of {}]", self.sc.to_json()));
    }
    async fn send(&mut self, c: &mut TcpConn, m: WsMessage) {
        let r = match c.client.as_mut() {
            Some(cl) => cl.send(m).await.map_err(|e| e.to_string()),
            None => Err("client already dropped".into()),
        };
        if let Err(e) = r {
            self.stuck(c.idx, &format!("client send failed: {e}"));
        }
    }
    async fn read_until_response(&mut self, c: &mut TcpConn, id: u64) -> bool {
        if c.wire.iter().any(|g| matches!(g, Got::Frame(f) if f.h.notify == 0 && f.h.id == id)) {
            return true;
        }
        loop {
            let Some(cl) = c.client.as_mut() else { return false };
            let g = next_msg(cl, WATCHDOG).await;
            let done = matches!(&g, Got::Frame(f) if f.h.notify == 0 && f.h.id == id);
            let over = matches!(&g, Got::Nothing | Got::End(_));
            if !matches!(g, Got::Nothing) {
                c.wire.push(g);
            }
            if done {
                return true;
            }
            if over {
                c.read_done = true;
                return false;
            }
        }
    }
    async fn read_to_end(&mut self, c: &mut TcpConn) {
        if c.read_done {
            return;
        }
        while let Some(cl) = c.client.as_mut() {
            let g = next_msg(cl, WATCHDOG).await;
            let over = matches!(&g, Got::Nothing | Got::End(_));
            if matches!(g, Got::Nothing) {
                self.stuck(c.idx, "client never saw the end of the stream");
            } else {
                // keep 1 MiB bodies out of the log
                c.wire.push(match g {
                    Got::Frame(mut f) => {
                        f.body.truncate(16);
                        Got::Frame(f)
                    }
                    g => g,
                });
            }
            if over {
                break;
            }
        }
        c.read_done = true;
    }

    async fn fail_handshake(&mut self, idx: usize, kind: Fail) -> TcpConn {
        let w = self.w.clone();
        let before = w.count(|e| matches!(e, Ev::Error { kind: "handshake" }));
        w.set_starting(Some(idx));
        let mut c = TcpConn { idx, client: None, raw: None, wire: Vec::new(), read_done: true, bigs: 0 };
        match kind {
            Fail::WrongPath => {
                if ws_connect(self.addr, "/nope", "nobody", false).await.is_ok() {
                    self.stuck(idx, "upgrade for a wrong path was accepted");
                }
            }
            Fail::NotUpgrade | Fail::Garbage => match TcpStream::connect(self.addr).await {
                Ok(mut s) => {
                    let bytes: Vec<u8> = if kind == Fail::NotUpgrade {
                        b"GET /repe HTTP/1.1\r\nHost: localhost\r\nAccept: */*\r\n\r\n".to_vec()
                    } else {
                        let mut b = vec![0xFFu8; 64];
                        b.extend_from_slice(b"\r\n\r\n");
                        b
                    };
                    let _ = s.write_all(&bytes).await;
                    let mut sink = Vec::new();
                    let _ = tokio::time::timeout(WATCHDOG, s.read_to_end(&mut sink)).await;
                }
                Err(e) => self.stuck(idx, &format!("tcp connect: {e}")),
            },
            Fail::EarlyClose => match TcpStream::connect(self.addr).await {
                Ok(s) => drop(s),
                Err(e) => self.stuck(idx, &format!("tcp connect: {e}")),
            },
            Fail::Stalled => match TcpStream::connect(self.addr).await {
                Ok(s) => c.raw = Some(s),
                Err(e) => self.stuck(idx, &format!("tcp connect: {e}")),
            },
        }
        if kind != Fail::Stalled {
            if !w.wait(WATCHDOG, |l| l.iter().filter(|e| matches!(e, Ev::Error { kind: "handshake" })).count() > before) {
                self.stuck(idx, "handshake failure was never reported through on_error");
            }
            // a hook that (wrongly) fires for this connection would have bound itself by now
        }
        c
    }

    async fn bring(&mut self, idx: usize, cell: Cell) -> TcpConn {
        let w = self.w.clone();
        let plan = &w.plans[idx];
        let mut c = TcpConn { idx, client: None, raw: None, wire: Vec::new(), read_done: false, bigs: 0 };
        if cell.cause == Cause::ConnPanic1 {
            w.push(Ev::Ending { conn: idx });
        }
        w.set_starting(Some(idx));
        match ws_connect(self.addr, "/repe", &plan.alias, cell.phase == Phase::Outbound).await {
            Ok(ws) => c.client = Some(ws),
            Err(e) => {
                self.stuck(idx, &format!("websocket connect failed: {e}"));
                return c;
            }
        }
        if matches!(cell.phase, Phase::Idle | Phase::Inline | Phase::Off) {
            // first request right behind the upgrade, without waiting for the hooks
            self.send(&mut c, request(1, "/probe", 1)).await;
        }
        if !w.wait(WATCHDOG, |l| l.iter().any(|e| matches!(e, Ev::C1 { conn, .. } if *conn == idx))) {
            self.stuck(idx, "first connect hook never ran");
            return c;
        }
        if cell.phase == Phase::Connect {
            if cell.cause != Cause::ConnPanic1 && !w.wait(WATCHDOG, |l| l.iter().any(|e| matches!(e, Ev::C2Parked { conn } if *conn == idx))) {
                self.stuck(idx, "second connect hook never parked");
            }
            return c;
        }
        if !w.wait(WATCHDOG, |l| l.iter().any(|e| matches!(e, Ev::H { conn, .. } if *conn == idx))) {
            self.stuck(idx, "connect hooks did not complete");
            return c;
        }
        match cell.phase {
            Phase::Idle | Phase::Inline | Phase::Off => {
                if !self.read_until_response(&mut c, 1).await {
                    self.stuck(idx, "no response to the first request");
                    return c;
                }
                if cell.phase == Phase::Inline {
                    self.send(&mut c, request(2, "/park_inline", 2)).await;
                    if !w.wait(WATCHDOG, |l| l.iter().any(|e| matches!(e, Ev::ParkedInline { conn } if *conn == idx))) {
                        self.stuck(idx, "inline handler never parked");
                    }
                }
                if cell.phase == Phase::Off {
                    self.send(&mut c, request(3, "/park_off", 3)).await;
                    if !w.wait(WATCHDOG, |l| l.iter().any(|e| matches!(e, Ev::ParkedOff { conn } if *conn == idx))) {
                        self.stuck(idx, "off-reader handler never parked");
                    }
                }
            }
            Phase::Outbound => {
                // the peer stops reading; more response bytes than the kernel can buffer
                c.bigs = big_count();
                for n in 0..c.bigs {
                    let m = WsMessage::Binary(crate::frames::Frame::request(1000 + n, "/big", format!("{{\"bytes\":{BIG},\"n\":{}}}", 1000 + n).as_bytes(), 2, false).to_bytes());
                    self.send(&mut c, m).await;
                }
                let want = c.bigs as usize;
                if !w.wait(WATCHDOG, |l| l.iter().filter(|e| matches!(e, Ev::Probe { conn, n, .. } if *conn == idx && *n >= 1000)).count() >= want) {
                    self.stuck(idx, "the big requests were not all handled");
                } else {
                    self.out.counters.queue_nonempty_at_exit += 1;
                }
            }
            Phase::Connect => unreachable!(),
        }
        c
    }

    /// `serve_listener` rows: end one good connection by its own cause.
    async fn finish_own(&mut self, c: &mut TcpConn, cell: Cell) {
        let idx = c.idx;
        let w = self.w.clone();
        let plan = &w.plans[idx];
        if c.client.is_none() {
            return;
        }
        match cell.phase {
            Phase::Inline if w.has(|e| matches!(e, Ev::ParkedInline { conn } if *conn == idx)) && plan.inline_gate.await_waiting(1) => self.out.counters.inline_parked_at_trigger += 1,
            Phase::Connect if w.has(|e| matches!(e, Ev::C2Parked { conn } if *conn == idx)) && plan.hook_gate.await_waiting(1) => self.out.counters.hook_parked_at_trigger += 1,
            _ => {}
        }
        if cell.cause != Cause::OffPanic && cell.cause != Cause::ConnPanic1 {
            w.push(Ev::Ending { conn: idx });
        }
        let panics_before = w.count(|e| matches!(e, Ev::Error { kind: "handler-panic" }));
        match cell.cause {
            Cause::Close | Cause::Text | Cause::BadHdr | Cause::Trailing | Cause::OffPanic => {
                self.send(c, cause_frame(cell.cause).expect("frame")).await;
            }
            Cause::InlinePanic => {
                if cell.phase == Phase::Inline {
                    plan.wake_panics.store(true, Ordering::SeqCst);
                } else {
                    self.send(c, cause_frame(cell.cause).expect("frame")).await;
                }
            }
            Cause::Drop => c.client = None,
            Cause::Cut => {
                // RST instead of FIN
                if let Some(cl) = c.client.take() {
                    let _ = cl.get_ref().set_linger(Some(Duration::ZERO));
                    drop(cl);
                }
            }
            _ => {}
        }
        if cell.phase == Phase::Inline {
            plan.inline_gate.open();
        }
        if cell.phase == Phase::Connect {
            plan.hook_gate.open();
        }
        if cell.cause == Cause::OffPanic {
            let seen = w.wait(WATCHDOG, |l| {
                l.iter().any(|e| matches!(e, Ev::D2 { conn, .. } if *conn == idx))
                    || (l.iter().any(|e| matches!(e, Ev::OffPanicking { conn } if *conn == idx))
                        && l.iter().filter(|e| matches!(e, Ev::Error { kind: "handler-panic" })).count() > panics_before)
            });
            if !seen {
                self.stuck(idx, "off-reader panic was never reported");
            }
            self.send(c, request(71, "/probe", 71)).await;
            if !self.read_until_response(c, 71).await && !c.read_done {
                self.stuck(idx, "request after the off-reader panic was not answered");
            }
            if !c.read_done {
                self.read_until_response(c, 70).await;
            }
            w.push(Ev::Ending { conn: idx });
            if !c.read_done {
                self.send(c, WsMessage::Close(None)).await;
            }
        }
        // the server closes the socket after the hooks have run
        self.read_to_end(c).await;
        if !w.wait(SHORT_WATCHDOG, |l| l.iter().any(|e| matches!(e, Ev::D2 { conn, .. } if *conn == idx))) {
            // the oracle decides (zero disconnect hooks)
        }
        w.sample_after(idx);
        if w.has(|e| matches!(e, Ev::ParkedOff { conn } if *conn == idx)) {
            plan.off_gate.open();
            if !w.wait(WATCHDOG, |l| l.iter().any(|e| matches!(e, Ev::WokeOff { conn, .. } if *conn == idx))) {
                self.stuck(idx, "parked off-reader handler never woke");
            }
        }
    }
}

pub(crate) fn run(sc: &TcpScenario) -> Outcome {
    let mut out = Outcome::default();
    let plans: Vec<Plan> = sc
        .conns
        .iter()
        .enumerate()
        .map(|(i, c)| match c {
            TConn::Good(cell) => Plan::new(i, cell.cause, cell.phase),
            TConn::Fail(_) => Plan::new(i, Cause::Close, Phase::Idle),
        })
        .collect();
    let w = World::new(plans);
    let via = match sc.lp {
        Loop::Listener => "tcp:serve_listener".to_string(),
        Loop::Drain(d) => format!("tcp:graceful_drain:{d:?}:{}", if sc.workers == 0 { "current-thread" } else { "multi-thread" }),
    };
    out.counters.scenarios += 1;
    out.counters.connections += sc.conns.len() as u64;
    for c in &sc.conns {
        bump(&mut out.counters.via, via.clone());
        if let TConn::Good(cell) = c {
            bump(&mut out.counters.cells, format!("{:?}x{:?}", cell.cause, cell.phase));
        }
    }
    // ---- the server, on its own runtime thread
    let (addr_tx, addr_rx) = std::sync::mpsc::channel::<Result<SocketAddr, String>>();
    let (stop_tx, stop_rx) = tokio::sync::oneshot::channel::<()>();
    let server_thread = {
        let w = w.clone();
        let lp = sc.lp;
        let workers = sc.workers;
        std::thread::Builder::new()
            .name("c15-tcp-server".into())
            .spawn(move || {
                let rt = if workers == 0 {
                    tokio::runtime::Builder::new_current_thread().enable_all().build()
                } else {
                    tokio::runtime::Builder::new_multi_thread().worker_threads(workers).enable_all().build()
                }
                .expect("runtime");
                rt.block_on(async {
                    let listener = match tokio::net::TcpListener::bind(("127.0.0.1", 0)).await {
                        Ok(l) => l,
                        Err(e) => {
                            let _ = addr_tx.send(Err(e.to_string()));
                            return;
                        }
                    };
                    let _ = addr_tx.send(listener.local_addr().map_err(|e| e.to_string()));
                    let server = build_server(&w);
                    match lp {
                        Loop::Listener => {
                            // run the accept loop as its own task, as `serve` users do
                            let h = tokio::spawn(async move { server.serve_listener(listener, "/repe").await });
                            let _ = stop_rx.await;
                            h.abort();
                            let _ = h.await;
                        }
                        Loop::Drain(d) => {
                            let timeout = match d {
                                Deadline::Generous => Duration::from_secs(30),
                                Deadline::Zero => Duration::ZERO,
                                Deadline::Short => Duration::from_millis(150),
                            };
                            let w2 = w.clone();
                            let h = tokio::spawn(async move {
                                server
                                    .serve_listener_with_graceful_drain(
                                        listener,
                                        "/repe",
                                        async move {
                                            let _ = stop_rx.await;
                                            w2.push(Ev::ShutdownResolved);
                                        },
                                        timeout,
                                    )
                                    .await
                            });
                            let _ = h.await;
                        }
                    }
                    w.push(Ev::LoopReturned);
                });
                drop(rt); // waits for parked off-reader handlers
            })
            .expect("thread")
    };
    let addr = match addr_rx.recv_timeout(WATCHDOG) {
        Ok(Ok(a)) => a,
        other => {
            out.stuck.push(format!("listener setup failed: {other:?}"));
            return out;
        }
    };
    let hrt = tokio::runtime::Builder::new_current_thread().enable_all().build().expect("runtime");
    let mut conns: Vec<TcpConn> = Vec::new();
    {
        let mut run = Run { w: &w, sc, out: &mut out, addr };
        hrt.block_on(async {
            for (i, c) in sc.conns.iter().enumerate() {
                let tc = match c {
                    TConn::Good(cell) => run.bring(i, *cell).await,
                    TConn::Fail(k) => run.fail_handshake(i, *k).await,
                };
                conns.push(tc);
            }
            w.set_starting(None);
            match sc.lp {
                Loop::Listener => {
                    for i in 0..sc.conns.len() {
                        if let TConn::Good(cell) = sc.conns[i] {
                            let mut c = std::mem::replace(&mut conns[i], TcpConn { idx: i, client: None, raw: None, wire: Vec::new(), read_done: true, bigs: 0 });
                            run.finish_own(&mut c, cell).await;
                            conns[i] = c;
                        }
                    }
                    let _ = stop_tx.send(());
                    if !w.wait(WATCHDOG, |l| l.iter().any(|e| matches!(e, Ev::LoopReturned))) {
                        run.stuck(NOCONN, "accept loop task did not stop");
                    }
                }
                Loop::Drain(_) => {
                    for (i, c) in sc.conns.iter().enumerate() {
                        if let TConn::Good(cell) = c {
                            let plan = &w.plans[i];
                            match cell.phase {
                                Phase::Inline if w.has(|e| matches!(e, Ev::ParkedInline { conn } if *conn == i)) && plan.inline_gate.await_waiting(1) => run.out.counters.inline_parked_at_trigger += 1,
                                Phase::Connect if w.has(|e| matches!(e, Ev::C2Parked { conn } if *conn == i)) && plan.hook_gate.await_waiting(1) => run.out.counters.hook_parked_at_trigger += 1,
                                _ => {}
                            }
                            w.push(Ev::Ending { conn: i });
                        }
                    }
                    let _ = stop_tx.send(());
                    if !w.wait(WATCHDOG, |l| l.iter().any(|e| matches!(e, Ev::ShutdownResolved))) {
                        run.stuck(NOCONN, "shutdown future was never polled to completion");
                    }
                    // callbacks that occupy a connection task must return for the drain to finish
                    for (i, c) in sc.conns.iter().enumerate() {
                        if let TConn::Good(cell) = c {
                            if cell.phase == Phase::Inline {
                                w.plans[i].inline_gate.open();
                            }
                            if cell.phase == Phase::Connect {
                                w.plans[i].hook_gate.open();
                            }
                        }
                    }
                    if !w.wait(WATCHDOG, |l| l.iter().any(|e| matches!(e, Ev::LoopReturned))) {
                        run.stuck(NOCONN, "graceful drain never returned");
                    }
                    let parked = w.count(|e| matches!(e, Ev::ParkedOff { .. })) - w.count(|e| matches!(e, Ev::WokeOff { .. }));
                    if parked > 0 {
                        run.out.counters.drain_returned_with_parked_handler += 1;
                    }
                    for (i, c) in sc.conns.iter().enumerate() {
                        if let TConn::Good(_) = c {
                            w.sample_after(i);
                        }
                    }
                    for (i, c) in sc.conns.iter().enumerate() {
                        if let TConn::Good(_) = c {
                            if w.has(|e| matches!(e, Ev::ParkedOff { conn } if *conn == i)) {
                                w.plans[i].off_gate.open();
                                if !w.wait(WATCHDOG, |l| l.iter().any(|e| matches!(e, Ev::WokeOff { conn, .. } if *conn == i))) {
                                    run.stuck(i, "parked off-reader handler never woke");
                                }
                            }
                        }
                    }
                    for i in 0..conns.len() {
                        let mut c = std::mem::replace(&mut conns[i], TcpConn { idx: i, client: None, raw: None, wire: Vec::new(), read_done: true, bigs: 0 });
                        run.read_to_end(&mut c).await;
                        conns[i] = c;
                    }
                }
            }
        });
    }
    // make sure nothing keeps the server runtime from shutting down
    for p in &w.plans {
        p.off_gate.open();
        p.inline_gate.open();
        p.hook_gate.open();
    }
    let _ = server_thread.join();
    let mut facts = Vec::new();
    for (c, tc) in sc.conns.iter().zip(conns.iter()) {
        match c {
            TConn::Good(cell) => {
                if let Loop::Drain(d) = sc.lp {
                    // aborted stragglers never get the writer's Close frame
                    let got_close = tc.wire.iter().any(|g| matches!(g, Got::Close));
                    // (counted only where the abort cannot race a graceful finish: the
                    // writer is blocked on a peer that does not read)
                    if !got_close && d != Deadline::Generous && cell.phase == Phase::Outbound {
                        out.counters.drain_aborted_stragglers += 1;
                    }
                    if cell.phase == Phase::Outbound {
                        let delivered = tc.wire.iter().filter(|g| matches!(g, Got::Frame(f) if f.h.notify == 0 && f.h.id >= 1000)).count() as u64;
                        if delivered < tc.bigs {
                            out.counters.undelivered_at_abort += 1;
                        }
                    }
                }
                facts.push(ConnFacts { cause: cell.cause, phase: cell.phase, accepted: true, has_handshake: true, wire: tc.wire.clone(), via: via.clone() });
            }
            TConn::Fail(_) => facts.push(ConnFacts { cause: Cause::Close, phase: Phase::Idle, accepted: false, has_handshake: true, wire: Vec::new(), via: via.clone() }),
        }
    }
    evaluate(&w, &facts, matches!(sc.lp, Loop::Drain(_)), &mut out);
    out
}
