//! C15, loopback-TCP part: the built-in accept loops (`serve_listener`,
//! `serve_listener_with_graceful_drain`) — handshake failures, graceful drain,
//! drain-deadline abort (`JoinSet::shutdown`), with a raw tungstenite client.
//!
//! Also: `serve_listener_with_shutdown` whose shutdown future resolves while the
//! accepted connections are alive (the loop returns, the connections keep being
//! served and end by their own causes; the server runtime is kept alive by a second
//! stop signal), the address-taking twins `serve` / `serve_with_shutdown` /
//! `serve_with_graceful_drain` (port reserved by bind(0)+drop, server awaited by a
//! connect-retry probe, bind failures retried on another port), and the co-hosting
//! accept helpers (`WebSocketServer::accept*`, `SharedWebSocketServer::accept*`)
//! inside an accept loop the harness owns, each followed by its `serve_connection*`.
//! Every scenario listens on (and its clients connect from) a loopback address of
//! its own, 127.x.y.z: a connection attempt made after a listener was closed can
//! never reach the listener of another scenario running in parallel, and neither
//! the listeners' bind(0) nor the clients depend on the ephemeral port range of
//! 127.0.0.1 (which can be exhausted by TIME_WAIT sockets of other processes on a
//! busy machine: "Address already in use" from bind(0)).

use super::mem::{cause_frame, next_msg, request};
use super::{
    Bad, Cause, Cell, ConnFacts, Ev, NOCONN, Outcome, PHASES, Phase, Plan, SHORT_WATCHDOG, WATCHDOG, World, build_server, bump, cell_from_json,
    cell_json, evaluate, skip_reason,
};
use crate::ctx::Tier;
use crate::wsh::Got;
use futures_util::SinkExt;
use repe::websocket_server::{ShutdownToken, WebSocketServer};
use serde_json::{Value, json};
use std::collections::BTreeMap;
use std::net::{Ipv4Addr, SocketAddr};
use std::sync::atomic::{AtomicU32, Ordering};
use std::sync::{Arc, Mutex};
use std::time::{Duration, Instant};
use tokio::task::AbortHandle;
use tokio::io::{AsyncReadExt, AsyncWriteExt};
use tokio::net::{TcpSocket, TcpStream};
use tokio_tungstenite::WebSocketStream;
use tokio_tungstenite::tungstenite::Message as WsMessage;
use tokio_tungstenite::tungstenite::client::IntoClientRequest;

#[derive(Clone, Copy, Debug, PartialEq, Eq)]
pub(crate) enum Fail {
    /// upgrade request for another path (404)
    WrongPath,
    /// plain HTTP GET without upgrade headers
    NotUpgrade,
    /// bytes that are not HTTP
    Garbage,
    /// TCP connect, then close without sending anything
    EarlyClose,
    /// TCP connect, then silence (still in the handshake when the drain aborts)
    Stalled,
}
const FAILS: [Fail; 5] = [Fail::WrongPath, Fail::NotUpgrade, Fail::Garbage, Fail::EarlyClose, Fail::Stalled];

#[derive(Clone, Copy, Debug, PartialEq, Eq)]
pub(crate) enum Deadline {
    /// 30 s: every connection drains through the cancellation
    Generous,
    /// 0: the deadline is the next timer tick (<= 1 ms); whatever has not drained by
    /// then (a blocked writer, a parked inline callback) is aborted
    Zero,
    /// 150 ms: cancel is processed, then the stragglers are aborted
    Short,
}
const DEADLINES: [Deadline; 3] = [Deadline::Generous, Deadline::Zero, Deadline::Short];

/// A co-hosting accept helper, and the `serve_connection*` call it is paired with.
#[derive(Clone, Copy, Debug, PartialEq, Eq)]
pub(crate) enum Helper {
    /// `WebSocketServer::accept` -> `serve_connection`
    Accept,
    /// `WebSocketServer::accept_with_limits` -> `serve_connection_with_cancel`
    AcceptWithLimits,
    /// `WebSocketServer::accept_with_handshake` -> `serve_connection_with_handshake`
    AcceptWithHandshake,
    /// `WebSocketServer::accept_with_handshake_and_limits` -> `serve_connection_with_cancel_and_handshake`
    AcceptWithHandshakeAndLimits,
    /// `SharedWebSocketServer::accept` -> `serve_connection_with_cancel`
    SharedAccept,
    /// `SharedWebSocketServer::accept_with_handshake` -> `serve_connection_with_handshake`
    SharedAcceptWithHandshake,
}
pub(crate) const HELPERS: [Helper; 6] =
    [Helper::Accept, Helper::AcceptWithLimits, Helper::AcceptWithHandshake, Helper::AcceptWithHandshakeAndLimits, Helper::SharedAccept, Helper::SharedAcceptWithHandshake];

impl Helper {
    fn has_handshake(self) -> bool {
        matches!(self, Helper::AcceptWithHandshake | Helper::AcceptWithHandshakeAndLimits | Helper::SharedAcceptWithHandshake)
    }
    fn has_token(self) -> bool {
        matches!(self, Helper::AcceptWithLimits | Helper::AcceptWithHandshakeAndLimits | Helper::SharedAccept)
    }
    fn pairing(self) -> &'static str {
        match self {
            Helper::Accept => "WebSocketServer::accept -> serve_connection",
            Helper::AcceptWithLimits => "WebSocketServer::accept_with_limits -> serve_connection_with_cancel",
            Helper::AcceptWithHandshake => "WebSocketServer::accept_with_handshake -> serve_connection_with_handshake",
            Helper::AcceptWithHandshakeAndLimits => "WebSocketServer::accept_with_handshake_and_limits -> serve_connection_with_cancel_and_handshake",
            Helper::SharedAccept => "SharedWebSocketServer::accept -> serve_connection_with_cancel",
            Helper::SharedAcceptWithHandshake => "SharedWebSocketServer::accept_with_handshake -> serve_connection_with_handshake",
        }
    }
}

#[derive(Clone, Copy, Debug, PartialEq, Eq)]
pub(crate) enum Loop {
    /// `serve_listener`: every good connection ends by its own cause
    Listener,
    /// `serve_listener_with_graceful_drain`: all good connections are ended by the drain
    Drain(Deadline),
    /// `serve_listener_with_shutdown` whose shutdown future resolves while the connections
    /// are alive in their phases: the loop returns, then every connection ends by its own cause
    ListenerShutdown,
    /// `serve(addr, path)`: as `Listener`
    Addr,
    /// `serve_with_shutdown(addr, path, fut)`: as `ListenerShutdown`
    AddrShutdown,
    /// `serve_with_graceful_drain(addr, path, fut, timeout)`: as `Drain`
    AddrDrain(Deadline),
    /// an accept loop owned by the harness: TCP accept, the helper, then the paired
    /// `serve_connection*`; every good connection ends by its own cause
    Accept(Helper),
}

impl Loop {
    fn name(self) -> String {
        match self {
            Loop::Listener => "serve_listener".into(),
            Loop::Drain(d) => format!("{d:?}"),
            Loop::ListenerShutdown => "serve_listener_with_shutdown".into(),
            Loop::Addr => "serve".into(),
            Loop::AddrShutdown => "serve_with_shutdown".into(),
            Loop::AddrDrain(d) => format!("serve_with_graceful_drain:{d:?}"),
            Loop::Accept(h) => format!("accept:{h:?}"),
        }
    }
    fn parse(s: &str) -> Option<Loop> {
        let deadline = |d: &str| DEADLINES.iter().copied().find(|x| format!("{x:?}") == d);
        Some(match s {
            "serve_listener" => Loop::Listener,
            "serve_listener_with_shutdown" => Loop::ListenerShutdown,
            "serve" => Loop::Addr,
            "serve_with_shutdown" => Loop::AddrShutdown,
            _ => {
                if let Some(d) = s.strip_prefix("serve_with_graceful_drain:") {
                    Loop::AddrDrain(deadline(d)?)
                } else if let Some(h) = s.strip_prefix("accept:") {
                    Loop::Accept(HELPERS.iter().copied().find(|x| format!("{x:?}") == h)?)
                } else {
                    Loop::Drain(deadline(s)?)
                }
            }
        })
    }
    /// the good connections are ended by the loop's drain
    fn drain(self) -> Option<Deadline> {
        match self {
            Loop::Drain(d) | Loop::AddrDrain(d) => Some(d),
            _ => None,
        }
    }
    /// the shutdown future resolves while the connections are alive and the loop returns without ending them
    fn shutdown_midlife(self) -> bool {
        matches!(self, Loop::ListenerShutdown | Loop::AddrShutdown)
    }
    fn by_addr(self) -> bool {
        matches!(self, Loop::Addr | Loop::AddrShutdown | Loop::AddrDrain(_))
    }
    fn has_handshake(self) -> bool {
        match self {
            Loop::Accept(h) => h.has_handshake(),
            _ => true,
        }
    }
    fn via(self, workers: usize) -> String {
        let rt = if workers == 0 { "current-thread" } else { "multi-thread" };
        match self {
            Loop::Listener => "tcp:serve_listener".to_string(),
            Loop::Drain(d) => format!("tcp:graceful_drain:{d:?}:{rt}"),
            Loop::ListenerShutdown => format!("tcp:serve_listener_with_shutdown(resolves mid-life):{rt}"),
            Loop::Addr => "tcp:serve(addr)".to_string(),
            Loop::AddrShutdown => format!("tcp:serve_with_shutdown(addr, resolves mid-life):{rt}"),
            Loop::AddrDrain(d) => format!("tcp:serve_with_graceful_drain(addr):{d:?}:{rt}"),
            Loop::Accept(h) => format!("tcp:{}", h.pairing()),
        }
    }
}

static NEXT_ADDRESS: AtomicU32 = AtomicU32::new(0);
/// A loopback address no other scenario of this process listens on.
fn own_loopback_address() -> Ipv4Addr {
    let n = NEXT_ADDRESS.fetch_add(1, Ordering::Relaxed);
    Ipv4Addr::new(127, 1 + ((n >> 16) % 200) as u8, (n >> 8) as u8, n as u8)
}

#[derive(Clone, Copy, Debug, PartialEq, Eq)]
pub(crate) enum TConn {
    Good(Cell),
    Fail(Fail),
}

#[derive(Clone, Debug)]
pub(crate) struct TcpScenario {
    pub lp: Loop,
    /// worker threads of the server runtime; 0 = current-thread runtime
    pub workers: usize,
    pub conns: Vec<TConn>,
    /// own-cause rows: end the connections in reverse order of acceptance
    pub reverse_end: bool,
}

impl TcpScenario {
    pub(crate) fn to_json(&self) -> Value {
        json!({
            "kind": "tcp",
            "loop": self.lp.name(),
            "workers": self.workers,
            "reverse_end": self.reverse_end,
            "conns": self.conns.iter().map(|c| match c {
                TConn::Good(cell) => cell_json(cell),
                TConn::Fail(f) => json!({"fail": format!("{f:?}")}),
            }).collect::<Vec<_>>(),
        })
    }
    pub(crate) fn from_json(v: &Value) -> Result<TcpScenario, String> {
        let lp = Loop::parse(v["loop"].as_str().ok_or("loop")?).ok_or("loop name")?;
        let mut conns = Vec::new();
        for c in v["conns"].as_array().ok_or("conns")? {
            if let Some(f) = c.get("fail").and_then(|f| f.as_str()) {
                conns.push(TConn::Fail(FAILS.iter().copied().find(|x| format!("{x:?}") == f).ok_or("fail kind")?));
            } else {
                conns.push(TConn::Good(cell_from_json(c)?));
            }
        }
        Ok(TcpScenario { lp, workers: v["workers"].as_u64().unwrap_or(4) as usize, conns, reverse_end: v["reverse_end"].as_bool().unwrap_or(false) })
    }
}

/// `via` fragments every one of which must have served at least one connection.
pub(crate) fn entry_points() -> Vec<String> {
    let mut v: Vec<String> = vec![
        "tcp:serve_listener".into(),
        "tcp:graceful_drain:".into(),
        "tcp:serve_listener_with_shutdown(resolves mid-life):multi-thread".into(),
        "tcp:serve_listener_with_shutdown(resolves mid-life):current-thread".into(),
        "tcp:serve(addr)".into(),
        "tcp:serve_with_shutdown(addr, resolves mid-life):".into(),
        "tcp:serve_with_graceful_drain(addr):Generous".into(),
        "tcp:serve_with_graceful_drain(addr):Zero".into(),
        "tcp:serve_with_graceful_drain(addr):Short".into(),
    ];
    for h in HELPERS {
        v.push(format!("tcp:{}", h.pairing()));
    }
    v
}

pub(crate) fn bound(tier: Tier) -> Value {
    json!({
        "serve_listener_with_shutdown": format!("shutdown future resolves with 1 connection in every executable own-cause cell (cause x Idle/Inline/Off/Connect; Idle/Off also on a current-thread runtime), 2 connections ({}; every third pair with a failed handshake in between; both ending orders), 3 connections ({})", tier.pick("a covering selection of ordered pairs", "every ordered pair of cells"), tier.pick("a covering selection of triples of cells", "every triple of causes, phases from a fixed covering rule")),
        "address_taking_loops": format!("serve(addr): {} x one failed handshake; serve_with_shutdown(addr): the same cells with 1 and 2 connections; serve_with_graceful_drain(addr): phase tuples of length 1..{} over Idle/Inline/Off/Connect x Generous/Zero, Outbound x Short, failed and stalled handshakes mixed in", tier.pick("one cell per cause (phase rotating)", "every own-cause cell"), tier.pick(2, 3)),
        "accept_helpers": format!("each of the 6 helpers, followed by its serve_connection* call: every executable own-cause cell (incl. Cancel where the paired call takes a token, and Abort of the embedder's task) x {}; plus one accept loop with 3 good connections and all 4 failing kinds on a multi-thread and a current-thread runtime", tier.pick("one failed handshake (kind and position rotating)", "all 4 failing handshake kinds x both positions")),
        "serve_listener": "every executable (cause, phase in Idle/Inline/Off/Connect) cell x one failed handshake (kind and position rotating; thorough: all kinds x both positions)",
        "graceful_drain": format!("phase tuples of length 1..{} over Idle/Inline/Off/Connect x deadline Generous/Zero on a 4-worker runtime, Idle/Off tuples also on a current-thread runtime, Outbound (peer not reading, responses > socket buffers) x Short/Zero, failed and stalled handshakes mixed in", tier.pick(2, 3)),
    })
}

pub(crate) fn enumerate(tier: Tier, skipped: &mut BTreeMap<String, u64>) -> Vec<TcpScenario> {
    let mut v = Vec::new();
    let kinds = [Fail::WrongPath, Fail::NotUpgrade, Fail::Garbage, Fail::EarlyClose];
    // ---- serve_listener: good connection (own cause) + one failed handshake
    let mut k = 0usize;
    for &cause in &super::CAUSES {
        for &phase in &PHASES {
            if let Some(r) = skip_reason(cause, phase, false, true) {
                bump(skipped, format!("{cause:?}x{phase:?}@serve_listener: {r}"));
                continue;
            }
            if cause == Cause::Abort {
                bump(skipped, format!("{cause:?}x{phase:?}@serve_listener: the accept loop's connection tasks are detached; nobody holds a JoinHandle to abort"));
                continue;
            }
            if phase == Phase::Outbound {
                bump(skipped, format!("{cause:?}x{phase:?}@serve_listener: a non-reading TCP peer needs multi-MiB responses; decided in memory and in the drain rows"));
                continue;
            }
            let cell = Cell { cause, phase };
            match tier {
                Tier::Quick => {
                    let f = TConn::Fail(kinds[k % kinds.len()]);
                    let conns = if (k / kinds.len()) % 2 == 0 { vec![f, TConn::Good(cell)] } else { vec![TConn::Good(cell), f] };
                    v.push(TcpScenario { lp: Loop::Listener, workers: 4, conns, reverse_end: false });
                }
                Tier::Thorough => {
                    for f in kinds {
                        v.push(TcpScenario { lp: Loop::Listener, workers: 4, conns: vec![TConn::Fail(f), TConn::Good(cell)], reverse_end: false });
                        v.push(TcpScenario { lp: Loop::Listener, workers: 4, conns: vec![TConn::Good(cell), TConn::Fail(f)], reverse_end: false });
                    }
                }
            }
            k += 1;
        }
    }
    // three good connections + every failure kind on one listener
    v.push(TcpScenario {
        lp: Loop::Listener,
        workers: 4,
        conns: vec![
            TConn::Fail(Fail::WrongPath),
            TConn::Good(Cell { cause: Cause::Close, phase: Phase::Off }),
            TConn::Fail(Fail::NotUpgrade),
            TConn::Good(Cell { cause: Cause::Drop, phase: Phase::Idle }),
            TConn::Fail(Fail::Garbage),
            TConn::Good(Cell { cause: Cause::InlinePanic, phase: Phase::Inline }),
            TConn::Fail(Fail::EarlyClose),
        ],
        reverse_end: false,
    });
    // ---- graceful drain
    let drain_cell = |phase| TConn::Good(Cell { cause: Cause::Drain, phase });
    let ph4 = [Phase::Idle, Phase::Inline, Phase::Off, Phase::Connect];
    let max_n = tier.pick(2, 3);
    for n in 1..=max_n {
        let total = ph4.len().pow(n as u32);
        for code in 0..total {
            let mut phases = Vec::new();
            let mut c = code;
            for _ in 0..n {
                phases.push(ph4[c % ph4.len()]);
                c /= ph4.len();
            }
            let blocking = phases.iter().any(|p| matches!(p, Phase::Inline | Phase::Connect));
            for d in [Deadline::Generous, Deadline::Zero] {
                v.push(TcpScenario { lp: Loop::Drain(d), workers: 4, conns: phases.iter().map(|p| drain_cell(*p)).collect(), reverse_end: false });
                if !blocking {
                    v.push(TcpScenario { lp: Loop::Drain(d), workers: 0, conns: phases.iter().map(|p| drain_cell(*p)).collect(), reverse_end: false });
                }
            }
        }
    }
    bump(skipped, "DrainxInline/Connect@graceful_drain on a current-thread runtime: the parked callback occupies the only thread, the shutdown future cannot be polled");
    bump(skipped, "DrainxOutbound@graceful_drain(Generous): the blocked writer would hold the drain for the whole 30 s deadline");
    for d in [Deadline::Short, Deadline::Zero] {
        for workers in [4, 0] {
            v.push(TcpScenario { lp: Loop::Drain(d), workers, conns: vec![drain_cell(Phase::Outbound)], reverse_end: false });
            v.push(TcpScenario { lp: Loop::Drain(d), workers, conns: vec![drain_cell(Phase::Off), drain_cell(Phase::Outbound), drain_cell(Phase::Idle)], reverse_end: false });
        }
    }
    // failed / unfinished handshakes in a draining server
    for workers in [4, 0] {
        v.push(TcpScenario {
            lp: Loop::Drain(Deadline::Zero),
            workers,
            conns: vec![TConn::Fail(Fail::Stalled), drain_cell(Phase::Idle), TConn::Fail(Fail::WrongPath), drain_cell(Phase::Off)],
            reverse_end: false,
        });
        v.push(TcpScenario {
            lp: Loop::Drain(Deadline::Generous),
            workers,
            conns: vec![TConn::Fail(Fail::NotUpgrade), drain_cell(Phase::Off), TConn::Fail(Fail::EarlyClose), drain_cell(Phase::Idle), TConn::Fail(Fail::Garbage)],
            reverse_end: false,
        });
    }
    enumerate_entry_points(tier, skipped, &mut v);
    v
}

const PH4: [Phase; 4] = [Phase::Idle, Phase::Inline, Phase::Off, Phase::Connect];
const KINDS: [Fail; 4] = [Fail::WrongPath, Fail::NotUpgrade, Fail::Garbage, Fail::EarlyClose];

/// The cells a connection served over TCP can be ended by on its own (`Outbound` needs a
/// non-reading peer and multi-MiB responses: in memory and in the drain rows).
fn own_cells(has_token: bool, has_handshake: bool, abortable: bool, at: &str, skipped: &mut BTreeMap<String, u64>) -> Vec<Cell> {
    let mut v = Vec::new();
    for &cause in &super::CAUSES {
        for &phase in &PH4 {
            if let Some(r) = skip_reason(cause, phase, has_token, has_handshake) {
                bump(skipped, format!("{cause:?}x{phase:?}@{at}: {r}"));
            } else if cause == Cause::Drain {
                bump(skipped, format!("{cause:?}x{phase:?}@{at}: cancel-then-abort by the embedder is decided in memory"));
            } else if cause == Cause::Abort && !abortable {
                bump(skipped, format!("{cause:?}x{phase:?}@{at}: the accept loop's connection tasks are detached; nobody holds a JoinHandle to abort"));
            } else {
                v.push(Cell { cause, phase });
            }
        }
    }
    v
}

/// One cell per cause, the phase rotating with `salt`.
fn one_cell_per_cause(cells: &[Cell], salt: usize) -> Vec<Cell> {
    let mut v: Vec<Cell> = Vec::new();
    let mut causes: Vec<Cause> = Vec::new();
    for c in cells {
        if !causes.contains(&c.cause) {
            causes.push(c.cause);
        }
    }
    for (i, cause) in causes.iter().enumerate() {
        let of: Vec<&Cell> = cells.iter().filter(|c| c.cause == *cause).collect();
        v.push(*of[(i + salt) % of.len()]);
    }
    v
}

/// Rows for the entry points the accept-loop rows above do not reach.
fn enumerate_entry_points(tier: Tier, skipped: &mut BTreeMap<String, u64>, v: &mut Vec<TcpScenario>) {
    let good = |c: &Cell| TConn::Good(*c);
    let needs_worker = |c: &Cell| matches!(c.phase, Phase::Inline | Phase::Connect);
    // ---- (1) serve_listener_with_shutdown, the future resolving while the connections live
    let cells = own_cells(false, true, false, "serve_listener_with_shutdown", skipped);
    let n = cells.len();
    for c in &cells {
        v.push(TcpScenario { lp: Loop::ListenerShutdown, workers: 4, conns: vec![good(c)], reverse_end: false });
        if !needs_worker(c) {
            v.push(TcpScenario { lp: Loop::ListenerShutdown, workers: 0, conns: vec![good(c)], reverse_end: false });
        }
    }
    bump(skipped, "Inline/Connect@serve_listener_with_shutdown on a current-thread runtime: the parked callback occupies the only thread, the shutdown future cannot be polled");
    let mut k = 0usize;
    let pair = |v: &mut Vec<TcpScenario>, lp: Loop, a: &Cell, b: &Cell, k: usize| {
        // every third pair has a failed handshake between the two good connections
        let conns = if k % 3 == 0 { vec![good(a), TConn::Fail(KINDS[(k / 3) % KINDS.len()]), good(b)] } else { vec![good(a), good(b)] };
        v.push(TcpScenario { lp, workers: 4, conns, reverse_end: k % 2 == 1 });
    };
    match tier {
        Tier::Quick => {
            for i in 0..n {
                pair(v, Loop::ListenerShutdown, &cells[i], &cells[(i * 11 + 5) % n], k);
                k += 1;
            }
            for i in 0..n {
                v.push(TcpScenario {
                    lp: Loop::ListenerShutdown,
                    workers: 4,
                    conns: vec![good(&cells[i]), good(&cells[(i + 12) % n]), good(&cells[(i + 23) % n])],
                    reverse_end: i % 2 == 1,
                });
            }
        }
        Tier::Thorough => {
            for a in &cells {
                for b in &cells {
                    pair(v, Loop::ListenerShutdown, a, b, k);
                    k += 1;
                }
            }
            // every triple of causes, phases from a fixed covering rule
            let causes: Vec<Cause> = one_cell_per_cause(&cells, 0).iter().map(|c| c.cause).collect();
            for (i, &a) in causes.iter().enumerate() {
                for (j, &b) in causes.iter().enumerate() {
                    for (l, &c) in causes.iter().enumerate() {
                        let ph = |cause: Cause, salt: usize| -> Cell {
                            let phase = if matches!(cause, Cause::ConnPanic1 | Cause::ConnPanic2 | Cause::ConnPanicH) { Phase::Connect } else { PH4[(i + 2 * j + 3 * l + salt) % PH4.len()] };
                            Cell { cause, phase }
                        };
                        v.push(TcpScenario {
                            lp: Loop::ListenerShutdown,
                            workers: 4,
                            conns: vec![good(&ph(a, 0)), good(&ph(b, 1)), good(&ph(c, 2))],
                            reverse_end: (i + j + l) % 2 == 1,
                        });
                    }
                }
            }
        }
    }
    // ---- (2) the address-taking twins on a reduced cell set
    let reduced: Vec<Cell> = match tier {
        Tier::Quick => one_cell_per_cause(&cells, 1),
        Tier::Thorough => cells.clone(),
    };
    for (i, c) in reduced.iter().enumerate() {
        let f = TConn::Fail(KINDS[i % KINDS.len()]);
        let conns = if (i / KINDS.len()) % 2 == 0 { vec![f, good(c)] } else { vec![good(c), f] };
        v.push(TcpScenario { lp: Loop::Addr, workers: 4, conns, reverse_end: false });
    }
    let reduced2: Vec<Cell> = match tier {
        Tier::Quick => one_cell_per_cause(&cells, 2),
        Tier::Thorough => cells.clone(),
    };
    for (i, c) in reduced2.iter().enumerate() {
        v.push(TcpScenario { lp: Loop::AddrShutdown, workers: 4, conns: vec![good(c)], reverse_end: false });
        if !needs_worker(c) && i % 2 == 0 {
            v.push(TcpScenario { lp: Loop::AddrShutdown, workers: 0, conns: vec![good(c)], reverse_end: false });
        }
        pair(v, Loop::AddrShutdown, c, &reduced2[(i * 5 + 3) % reduced2.len()], i);
    }
    let drain_cell = |phase| TConn::Good(Cell { cause: Cause::Drain, phase });
    let max_n = tier.pick(2, 3);
    for n in 1..=max_n {
        let total = PH4.len().pow(n as u32);
        for code in 0..total {
            let mut phases = Vec::new();
            let mut c = code;
            for _ in 0..n {
                phases.push(PH4[c % PH4.len()]);
                c /= PH4.len();
            }
            let blocking = phases.iter().any(|p| matches!(p, Phase::Inline | Phase::Connect));
            for d in [Deadline::Generous, Deadline::Zero] {
                v.push(TcpScenario { lp: Loop::AddrDrain(d), workers: 4, conns: phases.iter().map(|p| drain_cell(*p)).collect(), reverse_end: false });
                if !blocking && n == 1 {
                    v.push(TcpScenario { lp: Loop::AddrDrain(d), workers: 0, conns: phases.iter().map(|p| drain_cell(*p)).collect(), reverse_end: false });
                }
            }
        }
    }
    v.push(TcpScenario { lp: Loop::AddrDrain(Deadline::Short), workers: 4, conns: vec![drain_cell(Phase::Off), drain_cell(Phase::Outbound), drain_cell(Phase::Idle)], reverse_end: false });
    v.push(TcpScenario {
        lp: Loop::AddrDrain(Deadline::Zero),
        workers: 4,
        conns: vec![TConn::Fail(Fail::Stalled), drain_cell(Phase::Idle), TConn::Fail(Fail::WrongPath), drain_cell(Phase::Off), TConn::Fail(Fail::Garbage)],
        reverse_end: false,
    });
    // ---- (4) the co-hosting accept helpers, each followed by its serve_connection*
    for &h in &HELPERS {
        let cells = own_cells(h.has_token(), h.has_handshake(), true, &format!("{h:?}"), skipped);
        for (i, c) in cells.iter().enumerate() {
            match tier {
                Tier::Quick => {
                    let f = TConn::Fail(KINDS[i % KINDS.len()]);
                    let conns = if (i / KINDS.len()) % 2 == 0 { vec![f, good(c)] } else { vec![good(c), f] };
                    v.push(TcpScenario { lp: Loop::Accept(h), workers: 4, conns, reverse_end: false });
                }
                Tier::Thorough => {
                    for f in KINDS {
                        v.push(TcpScenario { lp: Loop::Accept(h), workers: 4, conns: vec![TConn::Fail(f), good(c)], reverse_end: false });
                        v.push(TcpScenario { lp: Loop::Accept(h), workers: 4, conns: vec![good(c), TConn::Fail(f)], reverse_end: false });
                    }
                }
            }
        }
        // every failing handshake kind and three good connections in one accept loop
        for workers in [4, 0] {
            v.push(TcpScenario {
                lp: Loop::Accept(h),
                workers,
                conns: vec![
                    TConn::Fail(Fail::WrongPath),
                    TConn::Good(Cell { cause: Cause::Close, phase: Phase::Off }),
                    TConn::Fail(Fail::NotUpgrade),
                    TConn::Good(Cell { cause: Cause::Drop, phase: Phase::Idle }),
                    TConn::Fail(Fail::Garbage),
                    TConn::Good(Cell { cause: Cause::Abort, phase: Phase::Off }),
                    TConn::Fail(Fail::EarlyClose),
                ],
                reverse_end: workers == 0,
            });
        }
    }
}

type Ws = WebSocketStream<TcpStream>;

/// A client socket for `addr`. Rows that listen on a loopback address of their own also
/// connect FROM that address, so that their (TIME_WAIT) client ports never occupy the
/// ephemeral port range of 127.0.0.1, which every bind(0) listener of the machine draws from.
fn client_socket(addr: SocketAddr) -> std::io::Result<TcpSocket> {
    let sock = TcpSocket::new_v4()?;
    if let SocketAddr::V4(a) = addr {
        if *a.ip() != Ipv4Addr::LOCALHOST {
            sock.bind(SocketAddr::from((*a.ip(), 0)))?;
        }
    }
    Ok(sock)
}

async fn tcp_connect(addr: SocketAddr) -> std::io::Result<TcpStream> {
    client_socket(addr)?.connect(addr).await
}

async fn ws_connect(addr: SocketAddr, path: &str, alias: &str, small_rcvbuf: bool) -> Result<Ws, String> {
    let sock = client_socket(addr).map_err(|e| e.to_string())?;
    if small_rcvbuf {
        sock.set_recv_buffer_size(4096).map_err(|e| e.to_string())?;
    }
    let stream = sock.connect(addr).await.map_err(|e| e.to_string())?;
    let mut req = format!("ws://{addr}{path}").into_client_request().map_err(|e| e.to_string())?;
    req.headers_mut().insert("x-alias", alias.parse().map_err(|_| "header".to_string())?);
    let (ws, _resp) = tokio_tungstenite::client_async(req, stream).await.map_err(|e| e.to_string())?;
    Ok(ws)
}

/// Number of 1 MiB responses that cannot fit into the kernel's socket buffers.
fn big_count() -> u64 {
    let wmem = std::fs::read_to_string("/proc/sys/net/ipv4/tcp_wmem")
        .ok()
        .and_then(|s| s.split_whitespace().nth(2).and_then(|x| x.parse::<u64>().ok()))
        .unwrap_or(4 << 20);
    (2 * wmem >> 20) + 8
}
const BIG: u64 = 1 << 20;

struct TcpConn {
    idx: usize,
    client: Option<Ws>,
    /// kept open for a stalled handshake
    raw: Option<TcpStream>,
    wire: Vec<Got>,
    read_done: bool,
    bigs: u64,
}

/// What the harness-owned accept loop keeps per accepted TCP stream (in accept order,
/// which is the scenario's connection order: connections are made one at a time).
struct Slot {
    token: ShutdownToken,
    abort: AbortHandle,
}
type Slots = Arc<Mutex<Vec<Slot>>>;

struct Run<'a> {
    w: &'a Arc<World>,
    sc: &'a TcpScenario,
    out: &'a mut Outcome,
    addr: SocketAddr,
    /// the handshake-aware connect hook is the last connect hook to run
    has_handshake: bool,
    slots: Slots,
}

impl Run<'_> {
    fn stuck(&mut self, idx: usize, what: &str) {
        self.out.stuck.push(format!("{what} [tcp conn {idx} of {}]", self.sc.to_json()));
    }
    async fn send(&mut self, c: &mut TcpConn, m: WsMessage) {
        let r = match c.client.as_mut() {
            Some(cl) => cl.send(m).await.map_err(|e| e.to_string()),
            None => Err("client already dropped".into()),
        };
        if let Err(e) = r {
            self.stuck(c.idx, &format!("client send failed: {e}"));
        }
    }
    async fn read_until_response(&mut self, c: &mut TcpConn, id: u64) -> bool {
        if c.wire.iter().any(|g| matches!(g, Got::Frame(f) if f.h.notify == 0 && f.h.id == id)) {
            return true;
        }
        loop {
            let Some(cl) = c.client.as_mut() else { return false };
            let g = next_msg(cl, WATCHDOG).await;
            let done = matches!(&g, Got::Frame(f) if f.h.notify == 0 && f.h.id == id);
            let over = matches!(&g, Got::Nothing | Got::End(_));
            if !matches!(g, Got::Nothing) {
                c.wire.push(g);
            }
            if done {
                return true;
            }
            if over {
                c.read_done = true;
                return false;
            }
        }
    }
    async fn read_to_end(&mut self, c: &mut TcpConn) {
        if c.read_done {
            return;
        }
        while let Some(cl) = c.client.as_mut() {
            let g = next_msg(cl, WATCHDOG).await;
            let over = matches!(&g, Got::Nothing | Got::End(_));
            if matches!(g, Got::Nothing) {
                self.stuck(c.idx, "client never saw the end of the stream");
            } else {
                // keep 1 MiB bodies out of the log
                c.wire.push(match g {
                    Got::Frame(mut f) => {
                        f.body.truncate(16);
                        Got::Frame(f)
                    }
                    g => g,
                });
            }
            if over {
                break;
            }
        }
        c.read_done = true;
    }

    async fn fail_handshake(&mut self, idx: usize, kind: Fail) -> TcpConn {
        let w = self.w.clone();
        let before = w.count(|e| matches!(e, Ev::Error { kind: "handshake" }));
        w.set_starting(Some(idx));
        let mut c = TcpConn { idx, client: None, raw: None, wire: Vec::new(), read_done: true, bigs: 0 };
        match kind {
            Fail::WrongPath => {
                if ws_connect(self.addr, "/nope", "nobody", false).await.is_ok() {
                    self.stuck(idx, "upgrade for a wrong path was accepted");
                }
            }
            Fail::NotUpgrade | Fail::Garbage => match tcp_connect(self.addr).await {
                Ok(mut s) => {
                    let bytes: Vec<u8> = if kind == Fail::NotUpgrade {
                        b"GET /repe HTTP/1.1\r\nHost: localhost\r\nAccept: */*\r\n\r\n".to_vec()
                    } else {
                        let mut b = vec![0xFFu8; 64];
                        b.extend_from_slice(b"\r\n\r\n");
                        b
                    };
                    let _ = s.write_all(&bytes).await;
                    let mut sink = Vec::new();
                    let _ = tokio::time::timeout(WATCHDOG, s.read_to_end(&mut sink)).await;
                }
                Err(e) => self.stuck(idx, &format!("tcp connect: {e}")),
            },
            Fail::EarlyClose => match tcp_connect(self.addr).await {
                Ok(s) => drop(s),
                Err(e) => self.stuck(idx, &format!("tcp connect: {e}")),
            },
            Fail::Stalled => match tcp_connect(self.addr).await {
                Ok(s) => c.raw = Some(s),
                Err(e) => self.stuck(idx, &format!("tcp connect: {e}")),
            },
        }
        if kind != Fail::Stalled {
            if !w.wait(WATCHDOG, |l| l.iter().filter(|e| matches!(e, Ev::Error { kind: "handshake" })).count() > before) {
                self.stuck(idx, "handshake failure was never reported through on_error");
            }
            // a hook that (wrongly) fires for this connection would have bound itself by now
        }
        c
    }

    async fn bring(&mut self, idx: usize, cell: Cell) -> TcpConn {
        let w = self.w.clone();
        let plan = &w.plans[idx];
        let mut c = TcpConn { idx, client: None, raw: None, wire: Vec::new(), read_done: false, bigs: 0 };
        if cell.cause == Cause::ConnPanic1 {
            w.push(Ev::Ending { conn: idx });
        }
        w.set_starting(Some(idx));
        match ws_connect(self.addr, "/repe", &plan.alias, cell.phase == Phase::Outbound).await {
            Ok(ws) => c.client = Some(ws),
            Err(e) => {
                self.stuck(idx, &format!("websocket connect failed: {e}"));
                return c;
            }
        }
        if matches!(cell.phase, Phase::Idle | Phase::Inline | Phase::Off) {
            // first request right behind the upgrade, without waiting for the hooks
            self.send(&mut c, request(1, "/probe", 1)).await;
        }
        if !w.wait(WATCHDOG, |l| l.iter().any(|e| matches!(e, Ev::C1 { conn, .. } if *conn == idx))) {
            self.stuck(idx, "first connect hook never ran");
            return c;
        }
        if cell.phase == Phase::Connect {
            if cell.cause != Cause::ConnPanic1 && !w.wait(WATCHDOG, |l| l.iter().any(|e| matches!(e, Ev::C2Parked { conn } if *conn == idx))) {
                self.stuck(idx, "second connect hook never parked");
            }
            return c;
        }
        let last_connect_hook = self.has_handshake;
        let connected = w.wait(WATCHDOG, |l| {
            l.iter().any(|e| match e {
                Ev::H { conn, .. } => *conn == idx && last_connect_hook,
                Ev::C2 { conn, .. } => *conn == idx && !last_connect_hook,
                _ => false,
            })
        });
        if !connected {
            self.stuck(idx, "connect hooks did not complete");
            return c;
        }
        match cell.phase {
            Phase::Idle | Phase::Inline | Phase::Off => {
                if !self.read_until_response(&mut c, 1).await {
                    self.stuck(idx, "no response to the first request");
                    return c;
                }
                if cell.phase == Phase::Inline {
                    self.send(&mut c, request(2, "/park_inline", 2)).await;
                    if !w.wait(WATCHDOG, |l| l.iter().any(|e| matches!(e, Ev::ParkedInline { conn } if *conn == idx))) {
                        self.stuck(idx, "inline handler never parked");
                    }
                }
                if cell.phase == Phase::Off {
                    self.send(&mut c, request(3, "/park_off", 3)).await;
                    if !w.wait(WATCHDOG, |l| l.iter().any(|e| matches!(e, Ev::ParkedOff { conn } if *conn == idx))) {
                        self.stuck(idx, "off-reader handler never parked");
                    }
                }
            }
            Phase::Outbound => {
                // the peer stops reading; more response bytes than the kernel can buffer
                c.bigs = big_count();
                for n in 0..c.bigs {
                    let m = WsMessage::Binary(crate::frames::Frame::request(1000 + n, "/big", format!("{{\"bytes\":{BIG},\"n\":{}}}", 1000 + n).as_bytes(), 2, false).to_bytes());
                    self.send(&mut c, m).await;
                }
                let want = c.bigs as usize;
                if !w.wait(WATCHDOG, |l| l.iter().filter(|e| matches!(e, Ev::Probe { conn, n, .. } if *conn == idx && *n >= 1000)).count() >= want) {
                    self.stuck(idx, "the big requests were not all handled");
                } else {
                    self.out.counters.queue_nonempty_at_exit += 1;
                }
            }
            Phase::Connect => unreachable!(),
        }
        c
    }

    /// `serve_listener` rows: end one good connection by its own cause.
    async fn finish_own(&mut self, c: &mut TcpConn, cell: Cell) {
        let idx = c.idx;
        let w = self.w.clone();
        let plan = &w.plans[idx];
        if c.client.is_none() {
            return;
        }
        match cell.phase {
            Phase::Inline if w.has(|e| matches!(e, Ev::ParkedInline { conn } if *conn == idx)) && plan.inline_gate.await_waiting(1) => self.out.counters.inline_parked_at_trigger += 1,
            Phase::Connect if w.has(|e| matches!(e, Ev::C2Parked { conn } if *conn == idx)) && plan.hook_gate.await_waiting(1) => self.out.counters.hook_parked_at_trigger += 1,
            _ => {}
        }
        if cell.cause != Cause::OffPanic && cell.cause != Cause::ConnPanic1 {
            w.push(Ev::Ending { conn: idx });
        }
        let panics_before = w.count(|e| matches!(e, Ev::Error { kind: "handler-panic" }));
        match cell.cause {
            Cause::Close | Cause::Text | Cause::BadHdr | Cause::Trailing | Cause::OffPanic => {
                self.send(c, cause_frame(cell.cause).expect("frame")).await;
            }
            Cause::InlinePanic => {
                if cell.phase == Phase::Inline {
                    plan.wake_panics.store(true, Ordering::SeqCst);
                } else {
                    self.send(c, cause_frame(cell.cause).expect("frame")).await;
                }
            }
            Cause::Drop => c.client = None,
            Cause::Cut => {
                // RST instead of FIN
                if let Some(cl) = c.client.take() {
                    let _ = cl.get_ref().set_linger(Some(Duration::ZERO));
                    drop(cl);
                }
            }
            // (only in the harness-owned accept loop: the embedder's token / JoinHandle)
            Cause::Cancel | Cause::Abort => {
                let t0 = Instant::now();
                while self.slots.lock().unwrap().len() <= idx && t0.elapsed() < WATCHDOG {
                    std::thread::yield_now();
                }
                match self.slots.lock().unwrap().get(idx) {
                    Some(slot) if cell.cause == Cause::Cancel => slot.token.cancel(),
                    Some(slot) => slot.abort.abort(),
                    None => self.out.stuck.push(format!("the accept loop holds no token / abort handle for tcp conn {idx}")),
                }
            }
            _ => {}
        }
        if cell.phase == Phase::Inline {
            plan.inline_gate.open();
        }
        if cell.phase == Phase::Connect {
            plan.hook_gate.open();
        }
        if cell.cause == Cause::OffPanic {
            let seen = w.wait(WATCHDOG, |l| {
                l.iter().any(|e| matches!(e, Ev::D2 { conn, .. } if *conn == idx))
                    || (l.iter().any(|e| matches!(e, Ev::OffPanicking { conn } if *conn == idx))
                        && l.iter().filter(|e| matches!(e, Ev::Error { kind: "handler-panic" })).count() > panics_before)
            });
            if !seen {
                self.stuck(idx, "off-reader panic was never reported");
            }
            self.send(c, request(71, "/probe", 71)).await;
            if !self.read_until_response(c, 71).await && !c.read_done {
                self.stuck(idx, "request after the off-reader panic was not answered");
            }
            if !c.read_done {
                self.read_until_response(c, 70).await;
            }
            w.push(Ev::Ending { conn: idx });
            if !c.read_done {
                self.send(c, WsMessage::Close(None)).await;
            }
        }
        // the server closes the socket after the hooks have run
        self.read_to_end(c).await;
        if !w.wait(SHORT_WATCHDOG, |l| l.iter().any(|e| matches!(e, Ev::D2 { conn, .. } if *conn == idx))) {
            // the oracle decides (zero disconnect hooks)
        }
        w.sample_after(idx);
        if w.has(|e| matches!(e, Ev::ParkedOff { conn } if *conn == idx)) {
            plan.off_gate.open();
            if !w.wait(WATCHDOG, |l| l.iter().any(|e| matches!(e, Ev::WokeOff { conn, .. } if *conn == idx))) {
                self.stuck(idx, "parked off-reader handler never woke");
            }
        }
    }

    /// Address-taking rows: wait until the server listens. A TCP connection that is
    /// closed at once is a failed handshake, which OUR server reports through `on_error`
    /// (a positive event; a foreign listener on the port would never produce it). The
    /// server thread announces another address when its bind failed.
    async fn wait_listening(&mut self, addr_rx: &std::sync::mpsc::Receiver<Result<SocketAddr, String>>) -> bool {
        let w = self.w.clone();
        let t0 = Instant::now();
        loop {
            let mut again = false;
            while let Ok(m) = addr_rx.try_recv() {
                match m {
                    Ok(a) => {
                        self.addr = a;
                        self.out.counters.addr_bind_retries += 1;
                    }
                    Err(e) => {
                        self.stuck(NOCONN, &format!("the server could not bind any reserved port: {e}"));
                        return false;
                    }
                }
            }
            if t0.elapsed() > WATCHDOG {
                self.stuck(NOCONN, "the address-taking server never listened on its reserved port");
                return false;
            }
            match tcp_connect(self.addr).await {
                Ok(s) => {
                    drop(s);
                    self.out.counters.addr_probe_connects += 1;
                    while !again {
                        if w.wait(Duration::from_millis(20), |l| l.iter().any(|e| matches!(e, Ev::Error { kind: "handshake" }))) {
                            return true;
                        }
                        if let Ok(m) = addr_rx.try_recv() {
                            match m {
                                Ok(a) => {
                                    self.addr = a;
                                    self.out.counters.addr_bind_retries += 1;
                                    again = true;
                                }
                                Err(e) => {
                                    self.stuck(NOCONN, &format!("the server could not bind any reserved port: {e}"));
                                    return false;
                                }
                            }
                        }
                        if t0.elapsed() > WATCHDOG {
                            self.stuck(NOCONN, "the probe connection was never reported by the server");
                            return false;
                        }
                    }
                }
                Err(_) => {
                    self.out.counters.addr_connect_retries += 1;
                    tokio::time::sleep(Duration::from_millis(1)).await;
                }
            }
        }
    }

    /// A connection attempt (a complete, valid upgrade request) after the accept loop returned.
    async fn attempt_after_return(&mut self, idx: usize) {
        let w = self.w.clone();
        w.set_starting(Some(idx));
        self.out.counters.attempts_after_loop_returned += 1;
        match tokio::time::timeout(WATCHDOG, tcp_connect(self.addr)).await {
            Ok(Err(_)) => self.out.counters.attempts_after_loop_returned_refused += 1,
            Ok(Ok(stream)) => {
                let req = format!("ws://{}/repe", self.addr).into_client_request();
                let up = match req {
                    Ok(mut req) => {
                        if let Ok(v) = w.plans[idx].alias.parse() {
                            req.headers_mut().insert("x-alias", v);
                        }
                        tokio::time::timeout(SHORT_WATCHDOG, tokio_tungstenite::client_async(req, stream)).await
                    }
                    Err(e) => {
                        self.stuck(idx, &format!("request: {e}"));
                        return;
                    }
                };
                match up {
                    Ok(Ok(_)) => self.stuck(idx, "a WebSocket upgrade was answered after the accept loop had returned (the listener is supposed to be closed)"),
                    _ => self.out.counters.attempts_after_loop_returned_refused += 1,
                }
            }
            Err(_) => self.stuck(idx, "tcp connect after the loop returned neither succeeded nor failed"),
        }
        w.set_starting(None);
    }

    /// `serve*_with_shutdown` rows: the shutdown future resolves while every connection is
    /// in its phase; the loop returns; the connections keep being served.
    async fn shutdown_midlife(&mut self, conns: &mut [TcpConn], stop1: &tokio::sync::watch::Sender<bool>) {
        let w = self.w.clone();
        let sc = self.sc;
        // (a connection whose first connect hook panics ends itself while it is being accepted;
        // its disconnect hooks may or may not have been logged yet, so it is never counted)
        let live = |w: &World, i: usize| {
            w.plans[i].cause != Cause::ConnPanic1
                && w.has(|e| matches!(e, Ev::C1 { conn, .. } if *conn == i))
                && !w.has(|e| matches!(e, Ev::D1 { conn, .. } | Ev::D2 { conn, .. } if *conn == i))
        };
        // measured facts at the moment the shutdown future resolves
        for (i, c) in sc.conns.iter().enumerate() {
            if let TConn::Good(cell) = c {
                let plan = &w.plans[i];
                match cell.phase {
                    Phase::Inline if w.has(|e| matches!(e, Ev::ParkedInline { conn } if *conn == i)) && plan.inline_gate.await_waiting(1) => self.out.counters.shutdown_with_inline_parked += 1,
                    Phase::Connect if w.has(|e| matches!(e, Ev::C2Parked { conn } if *conn == i)) && plan.hook_gate.await_waiting(1) => self.out.counters.shutdown_with_hook_parked += 1,
                    Phase::Off if w.has(|e| matches!(e, Ev::ParkedOff { conn } if *conn == i)) && plan.off_gate.await_waiting(1) => self.out.counters.shutdown_with_off_parked += 1,
                    Phase::Idle if live(&w, i) => self.out.counters.shutdown_with_idle += 1,
                    _ => {}
                }
            }
        }
        let _ = stop1.send(true);
        if !w.wait(WATCHDOG, |l| l.iter().any(|e| matches!(e, Ev::ShutdownResolved))) {
            self.stuck(NOCONN, "shutdown future was never polled to completion");
        }
        if !w.wait(WATCHDOG, |l| l.iter().any(|e| matches!(e, Ev::LoopReturned))) {
            self.stuck(NOCONN, "the accept loop did not return after its shutdown future resolved");
            return;
        }
        self.out.counters.shutdown_loops_returned += 1;
        for (i, c) in sc.conns.iter().enumerate() {
            if matches!(c, TConn::Good(_)) && live(&w, i) {
                self.out.counters.live_when_loop_returned += 1;
            }
        }
        self.attempt_after_return(sc.conns.len()).await;
        // connections whose reader is free answer one more request after the loop returned
        for (i, c) in sc.conns.iter().enumerate() {
            if let TConn::Good(cell) = c {
                if matches!(cell.phase, Phase::Idle | Phase::Off) && conns[i].client.is_some() {
                    let mut c = std::mem::replace(&mut conns[i], TcpConn::none(i));
                    self.send(&mut c, request(81, "/probe", 81)).await;
                    if self.read_until_response(&mut c, 81).await {
                        self.out.counters.served_after_loop_returned += 1;
                    } else if live(&w, i) {
                        self.stuck(i, "a live connection did not answer a request after the accept loop returned");
                    }
                    conns[i] = c;
                }
            }
        }
    }
}

impl TcpConn {
    fn none(idx: usize) -> TcpConn {
        TcpConn { idx, client: None, raw: None, wire: Vec::new(), read_done: true, bigs: 0 }
    }
}

pub(crate) fn run(sc: &TcpScenario) -> Outcome {
    let mut out = Outcome::default();
    let mut plans: Vec<Plan> = sc
        .conns
        .iter()
        .enumerate()
        .map(|(i, c)| match c {
            TConn::Good(cell) => Plan::new(i, cell.cause, cell.phase),
            TConn::Fail(_) => Plan::new(i, Cause::Close, Phase::Idle),
        })
        .collect();
    // the connection attempt made after a `*_with_shutdown` loop returned is one more
    // (never accepted) connection of the scenario
    let after_idx = sc.conns.len();
    if sc.lp.shutdown_midlife() {
        plans.push(Plan::new(after_idx, Cause::Close, Phase::Idle));
    }
    let w = World::new(plans);
    let via = sc.lp.via(sc.workers);
    out.counters.scenarios += 1;
    out.counters.connections += sc.conns.len() as u64;
    for c in &sc.conns {
        bump(&mut out.counters.via, via.clone());
        if let TConn::Good(cell) = c {
            bump(&mut out.counters.cells, format!("{:?}x{:?}", cell.cause, cell.phase));
        }
    }
    // ---- the server, on its own runtime thread
    let (addr_tx, addr_rx) = std::sync::mpsc::channel::<Result<SocketAddr, String>>();
    // first stop signal: ends the accept loop (abort of its task / its shutdown future);
    // second one (rows whose loop returns while connections live): lets the runtime go
    let (stop1, stop1_rx) = tokio::sync::watch::channel(false);
    let (stop2, stop2_rx) = tokio::sync::watch::channel(false);
    let slots: Slots = Arc::new(Mutex::new(Vec::new()));
    let server_thread = {
        let w = w.clone();
        let lp = sc.lp;
        let workers = sc.workers;
        let slots = slots.clone();
        std::thread::Builder::new()
            .name("c15-tcp-server".into())
            .spawn(move || {
                let rt = if workers == 0 {
                    tokio::runtime::Builder::new_current_thread().enable_all().build()
                } else {
                    tokio::runtime::Builder::new_multi_thread().worker_threads(workers).enable_all().build()
                }
                .expect("runtime");
                rt.block_on(serve_loop(w, lp, addr_tx, stop1_rx, stop2_rx, slots));
                drop(rt); // waits for parked off-reader handlers
            })
            .expect("thread")
    };
    let addr = match addr_rx.recv_timeout(WATCHDOG) {
        Ok(Ok(a)) => a,
        other => {
            out.stuck.push(format!("listener setup failed: {other:?}"));
            let _ = stop1.send(true);
            let _ = stop2.send(true);
            return out;
        }
    };
    let hrt = tokio::runtime::Builder::new_current_thread().enable_all().build().expect("runtime");
    let mut conns: Vec<TcpConn> = Vec::new();
    {
        let mut run = Run { w: &w, sc, out: &mut out, addr, has_handshake: sc.lp.has_handshake(), slots: slots.clone() };
        hrt.block_on(async {
            if sc.lp.by_addr() && !run.wait_listening(&addr_rx).await {
                return;
            }
            for (i, c) in sc.conns.iter().enumerate() {
                let tc = match c {
                    TConn::Good(cell) => run.bring(i, *cell).await,
                    TConn::Fail(k) => run.fail_handshake(i, *k).await,
                };
                conns.push(tc);
            }
            w.set_starting(None);
            if sc.lp.drain().is_none() {
                // ---- every good connection ends by its own cause
                if sc.lp.shutdown_midlife() {
                    run.shutdown_midlife(&mut conns, &stop1).await;
                }
                let order: Vec<usize> = if sc.reverse_end { (0..sc.conns.len()).rev().collect() } else { (0..sc.conns.len()).collect() };
                for i in order {
                    if let TConn::Good(cell) = sc.conns[i] {
                        let mut c = std::mem::replace(&mut conns[i], TcpConn::none(i));
                        run.finish_own(&mut c, cell).await;
                        conns[i] = c;
                    }
                }
                let _ = stop1.send(true);
                if !w.wait(WATCHDOG, |l| l.iter().any(|e| matches!(e, Ev::LoopReturned))) {
                    run.stuck(NOCONN, "accept loop task did not stop");
                }
            } else {
                for (i, c) in sc.conns.iter().enumerate() {
                    if let TConn::Good(cell) = c {
                        let plan = &w.plans[i];
                        match cell.phase {
                            Phase::Inline if w.has(|e| matches!(e, Ev::ParkedInline { conn } if *conn == i)) && plan.inline_gate.await_waiting(1) => run.out.counters.inline_parked_at_trigger += 1,
                            Phase::Connect if w.has(|e| matches!(e, Ev::C2Parked { conn } if *conn == i)) && plan.hook_gate.await_waiting(1) => run.out.counters.hook_parked_at_trigger += 1,
                            _ => {}
                        }
                        w.push(Ev::Ending { conn: i });
                    }
                }
                let _ = stop1.send(true);
                if !w.wait(WATCHDOG, |l| l.iter().any(|e| matches!(e, Ev::ShutdownResolved))) {
                    run.stuck(NOCONN, "shutdown future was never polled to completion");
                }
                // callbacks that occupy a connection task must return for the drain to finish
                for (i, c) in sc.conns.iter().enumerate() {
                    if let TConn::Good(cell) = c {
                        if cell.phase == Phase::Inline {
                            w.plans[i].inline_gate.open();
                        }
                        if cell.phase == Phase::Connect {
                            w.plans[i].hook_gate.open();
                        }
                    }
                }
                if !w.wait(WATCHDOG, |l| l.iter().any(|e| matches!(e, Ev::LoopReturned))) {
                    run.stuck(NOCONN, "graceful drain never returned");
                }
                let parked = w.count(|e| matches!(e, Ev::ParkedOff { .. })) - w.count(|e| matches!(e, Ev::WokeOff { .. }));
                if parked > 0 {
                    run.out.counters.drain_returned_with_parked_handler += 1;
                }
                for (i, c) in sc.conns.iter().enumerate() {
                    if let TConn::Good(_) = c {
                        w.sample_after(i);
                    }
                }
                for (i, c) in sc.conns.iter().enumerate() {
                    if let TConn::Good(_) = c {
                        if w.has(|e| matches!(e, Ev::ParkedOff { conn } if *conn == i)) {
                            w.plans[i].off_gate.open();
                            if !w.wait(WATCHDOG, |l| l.iter().any(|e| matches!(e, Ev::WokeOff { conn, .. } if *conn == i))) {
                                run.stuck(i, "parked off-reader handler never woke");
                            }
                        }
                    }
                }
                for i in 0..conns.len() {
                    let mut c = std::mem::replace(&mut conns[i], TcpConn::none(i));
                    run.read_to_end(&mut c).await;
                    conns[i] = c;
                }
            }
        });
    }
    // make sure nothing keeps the server runtime from shutting down
    for p in &w.plans {
        p.off_gate.open();
        p.inline_gate.open();
        p.hook_gate.open();
    }
    let _ = stop1.send(true);
    let _ = stop2.send(true);
    let _ = server_thread.join();
    if conns.len() != sc.conns.len() {
        // the server never came up (already reported as harness trouble)
        return out;
    }
    let mut facts = Vec::new();
    for (c, tc) in sc.conns.iter().zip(conns.iter()) {
        match c {
            TConn::Good(cell) => {
                if let Some(d) = sc.lp.drain() {
                    // aborted stragglers never get the writer's Close frame
                    let got_close = tc.wire.iter().any(|g| matches!(g, Got::Close));
                    // (counted only where the abort cannot race a graceful finish: the
                    // writer is blocked on a peer that does not read)
                    if !got_close && d != Deadline::Generous && cell.phase == Phase::Outbound {
                        out.counters.drain_aborted_stragglers += 1;
                    }
                    if cell.phase == Phase::Outbound {
                        let delivered = tc.wire.iter().filter(|g| matches!(g, Got::Frame(f) if f.h.notify == 0 && f.h.id >= 1000)).count() as u64;
                        if delivered < tc.bigs {
                            out.counters.undelivered_at_abort += 1;
                        }
                    }
                }
                facts.push(ConnFacts { cause: cell.cause, phase: cell.phase, accepted: true, has_handshake: sc.lp.has_handshake(), wire: tc.wire.clone(), via: via.clone() });
            }
            TConn::Fail(_) => facts.push(ConnFacts { cause: Cause::Close, phase: Phase::Idle, accepted: false, has_handshake: true, wire: Vec::new(), via: via.clone() }),
        }
    }
    if let Loop::Accept(_) = sc.lp {
        // what the helpers returned, as seen by the harness-owned accept loop
        out.counters.accept_helper_returned_ok += w.count(|e| matches!(e, Ev::C1 { .. })) as u64;
        out.counters.accept_helper_returned_err += w.count(|e| matches!(e, Ev::Error { kind: "handshake" })) as u64;
    }
    evaluate(&w, &facts, sc.lp.drain().is_some(), &mut out);
    if sc.lp.shutdown_midlife() {
        // "never for a connection whose handshake failed": the attempt made after the loop
        // returned was never accepted, whatever the listener did with it
        let log = w.snapshot();
        let d = log.iter().filter(|e| e.conn() == after_idx && matches!(e, Ev::D1 { .. } | Ev::D2 { .. })).count();
        let c = log.iter().filter(|e| e.conn() == after_idx && matches!(e, Ev::C1 { .. } | Ev::C2 { .. } | Ev::H { .. })).count();
        if d > 0 {
            out.bad.push(Bad {
                key: "C15:disconnect-hook-ran-for-connection-refused-after-loop-returned".into(),
                what: format!("{d} disconnect hook call(s) for a connection attempt made after the accept loop had returned, which no client ever saw accepted [via={via}]"),
            });
        }
        if c > 0 {
            bump(&mut out.counters.notes, "connect hook ran for a connection attempt made after the accept loop returned");
        }
    }
    out
}

fn is_bind_failure(e: &std::io::Error) -> bool {
    matches!(e.kind(), std::io::ErrorKind::AddrInUse | std::io::ErrorKind::AddrNotAvailable | std::io::ErrorKind::PermissionDenied)
}

async fn stopped(mut rx: tokio::sync::watch::Receiver<bool>) {
    let _ = rx.wait_for(|v| *v).await;
}

/// Everything that runs on the server runtime.
async fn serve_loop(
    w: Arc<World>,
    lp: Loop,
    addr_tx: std::sync::mpsc::Sender<Result<SocketAddr, String>>,
    stop1: tokio::sync::watch::Receiver<bool>,
    stop2: tokio::sync::watch::Receiver<bool>,
    slots: Slots,
) {
    let ip = own_loopback_address();
    let timeout_of = |d: Deadline| match d {
        Deadline::Generous => Duration::from_secs(30),
        Deadline::Zero => Duration::ZERO,
        Deadline::Short => Duration::from_millis(150),
    };
    let shutdown_future = |w: &Arc<World>| {
        let (w2, stop) = (w.clone(), stop1.clone());
        async move {
            stopped(stop).await;
            w2.push(Ev::ShutdownResolved);
        }
    };
    if lp.by_addr() {
        // reserve a free port (bind port 0, read it, drop the listener); a bind failure of
        // the server is a machinery condition: another port is reserved and announced
        let mut attempt = 0;
        loop {
            attempt += 1;
            let port = match std::net::TcpListener::bind((ip, 0)).and_then(|l| l.local_addr()) {
                Ok(a) => a.port(),
                Err(e) => {
                    let _ = addr_tx.send(Err(e.to_string()));
                    return;
                }
            };
            let addr = SocketAddr::from((ip, port));
            let _ = addr_tx.send(Ok(addr));
            let server = build_server(&w);
            let res: std::io::Result<()> = match lp {
                Loop::Addr => {
                    // run the accept loop as its own task, as `serve` users do
                    let mut h = tokio::spawn(async move { server.serve(addr, "/repe").await });
                    tokio::select! {
                        r = &mut h => r.unwrap_or(Ok(())),
                        _ = stopped(stop1.clone()) => {
                            h.abort();
                            let _ = h.await;
                            Ok(())
                        }
                    }
                }
                Loop::AddrShutdown => {
                    let fut = shutdown_future(&w);
                    tokio::spawn(async move { server.serve_with_shutdown(addr, "/repe", fut).await }).await.unwrap_or(Ok(()))
                }
                Loop::AddrDrain(d) => {
                    let fut = shutdown_future(&w);
                    tokio::spawn(async move { server.serve_with_graceful_drain(addr, "/repe", fut, timeout_of(d)).await }).await.unwrap_or(Ok(()))
                }
                _ => unreachable!(),
            };
            match res {
                Err(e) if is_bind_failure(&e) && attempt < 8 && !*stop1.borrow() => continue,
                Err(e) if is_bind_failure(&e) => {
                    let _ = addr_tx.send(Err(e.to_string()));
                    return;
                }
                _ => break,
            }
        }
    } else {
        let listener = match tokio::net::TcpListener::bind((ip, 0)).await {
            Ok(l) => l,
            Err(e) => {
                let _ = addr_tx.send(Err(e.to_string()));
                return;
            }
        };
        let _ = addr_tx.send(listener.local_addr().map_err(|e| e.to_string()));
        match lp {
            Loop::Listener => {
                let server = build_server(&w);
                // run the accept loop as its own task, as `serve` users do
                let h = tokio::spawn(async move { server.serve_listener(listener, "/repe").await });
                stopped(stop1.clone()).await;
                h.abort();
                let _ = h.await;
            }
            Loop::Drain(d) => {
                let server = build_server(&w);
                let fut = shutdown_future(&w);
                let h = tokio::spawn(async move { server.serve_listener_with_graceful_drain(listener, "/repe", fut, timeout_of(d)).await });
                let _ = h.await;
            }
            Loop::ListenerShutdown => {
                let server = build_server(&w);
                let fut = shutdown_future(&w);
                let h = tokio::spawn(async move { server.serve_listener_with_shutdown(listener, "/repe", fut).await });
                let _ = h.await;
            }
            Loop::Accept(helper) => {
                // the embedder's own accept loop (one-port co-hosting shape)
                let shared = build_server(&w).into_shared();
                loop {
                    tokio::select! {
                        acc = listener.accept() => {
                            let Ok((stream, _)) = acc else { break };
                            let token = ShutdownToken::new();
                            let (sh, w2, tk) = (shared.clone(), w.clone(), token.clone());
                            let h = tokio::spawn(async move {
                                let limits = sh.limits();
                                // None: the helper returned Err (no serve_connection* call follows)
                                let served = match helper {
                                    Helper::Accept => match WebSocketServer::accept(stream, "/repe").await {
                                        Ok(ws) => Some(sh.serve_connection(ws).await),
                                        Err(_) => None,
                                    },
                                    Helper::AcceptWithLimits => match WebSocketServer::accept_with_limits(stream, "/repe", limits).await {
                                        Ok(ws) => Some(sh.serve_connection_with_cancel(ws, &tk).await),
                                        Err(_) => None,
                                    },
                                    Helper::AcceptWithHandshake => match WebSocketServer::accept_with_handshake(stream, "/repe").await {
                                        Ok((ws, hs)) => Some(sh.serve_connection_with_handshake(ws, hs).await),
                                        Err(_) => None,
                                    },
                                    Helper::AcceptWithHandshakeAndLimits => match WebSocketServer::accept_with_handshake_and_limits(stream, "/repe", limits).await {
                                        Ok((ws, hs)) => Some(sh.serve_connection_with_cancel_and_handshake(ws, hs, &tk).await),
                                        Err(_) => None,
                                    },
                                    Helper::SharedAccept => match sh.accept(stream, "/repe").await {
                                        Ok(ws) => Some(sh.serve_connection_with_cancel(ws, &tk).await),
                                        Err(_) => None,
                                    },
                                    Helper::SharedAcceptWithHandshake => match sh.accept_with_handshake(stream, "/repe").await {
                                        Ok((ws, hs)) => Some(sh.serve_connection_with_handshake(ws, hs).await),
                                        Err(_) => None,
                                    },
                                };
                                if served.is_none() {
                                    w2.push(Ev::Error { kind: "handshake" });
                                }
                            });
                            slots.lock().unwrap().push(Slot { token, abort: h.abort_handle() });
                        }
                        _ = stopped(stop1.clone()) => break,
                    }
                }
            }
            _ => unreachable!(),
        }
    }
    w.push(Ev::LoopReturned);
    if lp.shutdown_midlife() {
        // the accepted connections are detached tasks of this runtime: keep it alive
        // until the harness has ended each of them
        stopped(stop2).await;
    }
}
