//! C15 — connection lifecycle hooks fire once, in order, on every exit path.
//!
//! Exhaustive exit-cause enumeration (E3) against the real
//! `SharedWebSocketServer`: every exit cause x connection phase x entry point x
//! {1,2,3,N} concurrent connections is executed on the real code; a small
//! reference model (the event log grammar below) decides every execution.
//!
//! In-memory part (`c15_mem.rs`): every connection is served on its own
//! current-thread runtime (its own OS thread) over a `memstream` pipe, so an
//! inline handler parked on a gate blocks exactly its own connection; the
//! harness is the raw tungstenite peer, the owner of the `ShutdownToken`s and of
//! the serving tasks' abort handles. Real-TCP part (`c15_tcp.rs`): the built-in
//! accept loops (`serve_listener`, `serve_listener_with_graceful_drain`) for the
//! handshake-failure, drain and drain-deadline-abort rows.
//!
//! Further entry points of src/websocket_server.rs driven by the same machinery:
//! `adopt_upgraded_partially_read` (in memory, the client's pipelined bytes split
//! between `buffered` and the stream), `serve_listener_with_shutdown` /
//! `serve_with_shutdown` whose shutdown future resolves while connections live,
//! `serve` / `serve_with_graceful_drain` by address, and the co-hosting accept
//! helpers followed by their `serve_connection*` (all in `c15_tcp.rs`).
//!
//! Registry traffic from OUTSIDE the connection (`c15_ext.rs`): the harness as embedder calls the
//! public `PeerRegistry` / `PeerHandle` API (broadcasts, targeted sends through `get` / `get_by`,
//! lookups) against healthy connections in every phase, against connections whose writer died of a
//! one-directional write fault while their reader is still serving (`WriteCut`), and against two
//! such connections sharing the registry; the registry is sampled after each call (`Ev::Ext`).
//!
//! Every wait is for a predicted positive event (a log entry, a frame, a task
//! completion) under a watchdog; nothing is synchronised by sleeping.
//!
//! Oracle (`evaluate`), per accepted connection, from the shared event log:
//!  * both disconnect hooks ran exactly once, in registration order, after the
//!    last connect hook, and not before the harness started ending the connection
//!    (an off-reader panic does not end it: the next request is served with the
//!    peer still registered); zero times for a failed handshake, and zero times
//!    for a connection attempt made after a `*_with_shutdown` loop returned;
//!  * `PeerRegistry::get` / `get_by(alias)` find the peer inside every handler
//!    that runs before the disconnect hooks, and no longer after the serving
//!    future finished nor inside a handler that outlived the connection;
//!  * the same lookups (and `aliases_for`) made by the embedder right after each of its own calls
//!    find the peer and its alias as long as no disconnect hook of that connection has been logged
//!    (what the calls return -- Ok / Full / Disconnected -- is recorded, not judged);
//!  * on the wire the two notifies queued by a connect hook precede the first
//!    response (the first request is pipelined with the upgrade);
//!  * an off-reader handler still parked when the connection ended reads
//!    `ctx.is_cancelled() == true` when it polls afterwards.
//! Samples taken inside connect/disconnect hooks are model-specific: notes only.

use crate::ctx::{Ctx, Samples, Tier};
use crate::par;
use crate::wsh::{Gate, Got};
use repe::websocket_server::{HandshakeContext, WebSocketServer};
use repe::{ConnectionError, NotifyBody, PeerHandle, PeerId, PeerRegistry, Router};
use serde_json::{Value, json};
use std::collections::BTreeMap;
use std::sync::atomic::{AtomicBool, AtomicU64, Ordering};
use std::sync::{Arc, Condvar, Mutex};
use std::time::{Duration, Instant};

#[path = "c15_ext.rs"]
mod ext;
#[path = "c15_mem.rs"]
mod mem;
#[path = "c15_pre.rs"]
mod pre;
#[path = "c15_tcp.rs"]
mod tcp;

pub(crate) const WATCHDOG: Duration = Duration::from_secs(10);
/// used only where a *mutant* can make the awaited event impossible and the
/// harness can make progress without it (the final oracle then decides)
pub(crate) const SHORT_WATCHDOG: Duration = Duration::from_secs(4);
pub(crate) const NOCONN: usize = usize::MAX;

// ------------------------------------------------------------------ alphabet

#[derive(Clone, Copy, Debug, PartialEq, Eq, PartialOrd, Ord, Hash)]
pub(crate) enum Cause {
    /// client sends a WebSocket Close frame
    Close,
    /// client end dropped abruptly (EOF without closing handshake)
    Drop,
    /// transport cut: the server's next read/write fails with an I/O error
    Cut,
    /// Text frame (protocol violation for REPE)
    Text,
    /// binary frame whose 48-byte header carries a wrong magic
    BadHdr,
    /// well-formed REPE frame followed by one trailing byte
    Trailing,
    /// inline handler panics (unwinds through the serving task)
    InlinePanic,
    /// off-reader handler panics: the connection must survive; it is then
    /// ended by a client Close
    OffPanic,
    /// first connect hook panics (before the registry insert)
    ConnPanic1,
    /// second plain connect hook panics (after the registry insert and after
    /// queueing its notifies)
    ConnPanic2,
    /// handshake-aware connect hook panics (after setting the alias)
    ConnPanicH,
    /// embedder cancellation: `ShutdownToken::cancel`
    Cancel,
    /// `JoinHandle::abort` of the serving task without prior cancellation
    Abort,
    /// what a graceful drain does: cancel, then abort the serving task once the
    /// disconnect hooks have been observed (or the task finished)
    Drain,
}

pub(crate) const CAUSES: [Cause; 14] = [
    Cause::Close,
    Cause::Drop,
    Cause::Cut,
    Cause::Text,
    Cause::BadHdr,
    Cause::Trailing,
    Cause::InlinePanic,
    Cause::OffPanic,
    Cause::ConnPanic1,
    Cause::ConnPanic2,
    Cause::ConnPanicH,
    Cause::Cancel,
    Cause::Abort,
    Cause::Drain,
];

#[derive(Clone, Copy, Debug, PartialEq, Eq, PartialOrd, Ord, Hash)]
pub(crate) enum Phase {
    /// connect hooks done, one request answered, nothing in flight
    Idle,
    /// an inline handler is parked on a gate (the reader task is inside it)
    Inline,
    /// an off-reader handler is parked on a gate; the reader is free
    Off,
    /// peer not reading (write credit 0): connect notifies + 3 responses queued
    Outbound,
    /// the second connect hook is parked on a gate (connect callbacks running)
    Connect,
}

pub(crate) const PHASES: [Phase; 5] = [Phase::Idle, Phase::Inline, Phase::Off, Phase::Outbound, Phase::Connect];

#[derive(Clone, Copy, Debug, PartialEq, Eq, PartialOrd, Ord, Hash)]
pub(crate) enum Variant {
    /// `serve_connection`
    Plain,
    /// `serve_connection_with_handshake`
    Handshake,
    /// `serve_connection_with_cancel`
    Cancel,
    /// `serve_connection_with_cancel_and_handshake`
    CancelHandshake,
}

pub(crate) const VARIANTS: [Variant; 4] = [Variant::Plain, Variant::Handshake, Variant::Cancel, Variant::CancelHandshake];

impl Variant {
    pub(crate) fn has_token(self) -> bool {
        matches!(self, Variant::Cancel | Variant::CancelHandshake)
    }
    pub(crate) fn has_handshake(self) -> bool {
        matches!(self, Variant::Handshake | Variant::CancelHandshake)
    }
}

fn name<T: std::fmt::Debug>(t: T) -> String {
    format!("{t:?}")
}

fn parse_cause(s: &str) -> Option<Cause> {
    CAUSES.iter().copied().find(|c| name(c) == s)
}
fn parse_phase(s: &str) -> Option<Phase> {
    PHASES.iter().copied().find(|c| name(c) == s)
}
fn parse_variant(s: &str) -> Option<Variant> {
    VARIANTS.iter().copied().find(|c| name(c) == s)
}

/// Why a (cause, phase, entry point) cell cannot be executed, if so.
pub(crate) fn skip_reason(cause: Cause, phase: Phase, has_token: bool, has_handshake: bool) -> Option<&'static str> {
    match cause {
        Cause::ConnPanic1 | Cause::ConnPanic2 | Cause::ConnPanicH if phase != Phase::Connect => {
            Some("a connect-callback panic can only happen during the connect callbacks")
        }
        Cause::ConnPanicH if !has_handshake => Some("handshake-aware hooks do not fire on this entry point"),
        Cause::Cancel | Cause::Drain if !has_token => Some("this entry point takes no ShutdownToken"),
        _ => None,
    }
}

#[derive(Clone, Copy, Debug, PartialEq, Eq, PartialOrd, Ord, Hash)]
pub(crate) struct Cell {
    pub cause: Cause,
    pub phase: Phase,
}

/// All executable cells for an entry point, in canonical order.
pub(crate) fn cells(has_token: bool, has_handshake: bool) -> Vec<Cell> {
    let mut v = Vec::new();
    for &cause in &CAUSES {
        for &phase in &PHASES {
            if skip_reason(cause, phase, has_token, has_handshake).is_none() {
                v.push(Cell { cause, phase });
            }
        }
    }
    v
}

// ----------------------------------------------------------------- event log

#[derive(Clone, Debug, PartialEq)]
pub(crate) enum Ev {
    C1 { conn: usize, present: bool },
    C2 { conn: usize, present: bool, notify_ok: bool },
    C2Parked { conn: usize },
    H { conn: usize, attached: bool, by_alias: bool },
    Probe { conn: usize, n: u64, present: bool, alias: bool, cancelled: bool },
    ParkedInline { conn: usize },
    WokeInline { conn: usize, present: bool, alias: bool, cancelled: bool },
    ParkedOff { conn: usize },
    WokeOff { conn: usize, present: bool, alias: bool, cancelled: bool },
    OffPanicking { conn: usize },
    D1 { conn: usize, present: bool, alias: bool },
    D2 { conn: usize, present: bool, alias: bool },
    /// harness marker: from here on the connection is being ended
    Ending { conn: usize },
    /// harness marker (Outbound phase): from here on the peer reads again (the write credit is unlimited)
    PeerReadsAgain { conn: usize },
    /// the serving future finished (ok / err / panicked / aborted)
    Served { conn: usize, outcome: &'static str },
    /// the connection's runtime (and its blocking pool) is gone
    Gone { conn: usize },
    /// harness sample after the serving future finished
    After { conn: usize, present: bool, alias: bool },
    /// `on_error` hook
    Error { kind: &'static str },
    /// built-in accept loop returned
    LoopReturned,
    ShutdownResolved,
    GateTimeout { conn: usize },
    /// a second registry, attached to the server BEFORE the main one, disagrees with the main one about this
    /// connection's peer at a moment when the serving task itself looks (never pushed when they agree)
    FirstRegistry { conn: usize, site: &'static str, main: bool, first: bool },
    // ---- rows of c15_ext.rs (registry traffic from outside the connection)
    /// harness: from here on every write of the server on this connection fails
    /// (its reads stay open and silent)
    WriteCut { conn: usize },
    /// harness: the connection's outbound sink reports closed (`PeerHandle::is_connected()
    /// == false` on a handle kept from the first connect hook): its writer task is gone
    WriterDead { conn: usize },
    /// harness, embedder side: one public `PeerRegistry` / `PeerHandle` call (`op`, with its
    /// result for this connection's peer in `res`) followed by a registry sample for this
    /// connection: `get(id)`, `get_by(alias)`, `aliases_for(id)` lists the alias
    Ext { conn: usize, op: &'static str, stage: &'static str, res: String, present: bool, alias: bool, listed: bool },
}

impl Ev {
    pub(crate) fn conn(&self) -> usize {
        match self {
            Ev::C1 { conn, .. }
            | Ev::C2 { conn, .. }
            | Ev::C2Parked { conn }
            | Ev::H { conn, .. }
            | Ev::Probe { conn, .. }
            | Ev::ParkedInline { conn }
            | Ev::WokeInline { conn, .. }
            | Ev::ParkedOff { conn }
            | Ev::WokeOff { conn, .. }
            | Ev::OffPanicking { conn }
            | Ev::D1 { conn, .. }
            | Ev::D2 { conn, .. }
            | Ev::Ending { conn }
            | Ev::PeerReadsAgain { conn }
            | Ev::Served { conn, .. }
            | Ev::Gone { conn }
            | Ev::After { conn, .. }
            | Ev::WriteCut { conn }
            | Ev::WriterDead { conn }
            | Ev::Ext { conn, .. }
            | Ev::FirstRegistry { conn, .. }
            | Ev::GateTimeout { conn } => *conn,
            Ev::Error { .. } | Ev::LoopReturned | Ev::ShutdownResolved => NOCONN,
        }
    }
}

pub(crate) struct Plan {
    pub cause: Cause,
    pub phase: Phase,
    pub alias: String,
    pub hook_gate: Gate,
    pub inline_gate: Gate,
    pub off_gate: Gate,
    /// the parked inline handler panics when it wakes
    pub wake_panics: AtomicBool,
}

impl Plan {
    pub(crate) fn new(idx: usize, cause: Cause, phase: Phase) -> Plan {
        Plan {
            cause,
            phase,
            alias: format!("alias-{idx}"),
            hook_gate: Gate::new(),
            inline_gate: Gate::new(),
            off_gate: Gate::new(),
            wake_panics: AtomicBool::new(false),
        }
    }
}

#[derive(Default)]
struct Bind {
    starting: Option<usize>,
    peers: BTreeMap<u64, usize>,
}

/// Everything the hooks, the handlers and the harness share in one scenario.
pub(crate) struct World {
    log: Mutex<Vec<Ev>>,
    cv: Condvar,
    pub reg: PeerRegistry,
    /// attached to the server before `reg` (a server may carry several registries): must hold the same peers
    pub reg_first: PeerRegistry,
    first_checks: std::sync::atomic::AtomicU64,
    bind: Mutex<Bind>,
    pub plans: Vec<Plan>,
    /// rows of c15_ext.rs: the first connect hook keeps a clone of the connection's
    /// `PeerHandle` here (the harness watches `is_connected()` on it)
    keep_handles: bool,
    handles: Mutex<BTreeMap<usize, PeerHandle>>,
    /// the router carries a middleware that REWRITES the query of the requests it forwards ("/v1/x" -> "/x"),
    /// and the parked handlers are reached through it: they must observe cancellation all the same
    pub rewrite: bool,
    /// the server's per-connection outbound queue holds ONE message (`with_outbound_capacity(1)`): with a peer
    /// that does not read, the serving task itself ends up parked handing a response to the full queue
    pub outbound1: bool,
}

impl World {
    pub(crate) fn new(plans: Vec<Plan>) -> Arc<World> {
        Arc::new(World {
            log: Mutex::new(Vec::new()),
            cv: Condvar::new(),
            reg: PeerRegistry::new(),
            reg_first: PeerRegistry::new(),
            first_checks: std::sync::atomic::AtomicU64::new(0),
            bind: Mutex::new(Bind::default()),
            plans,
            keep_handles: false,
            handles: Mutex::new(BTreeMap::new()),
            rewrite: false,
            outbound1: false,
        })
    }
    /// The same, with an outbound queue of one message.
    pub(crate) fn new_outbound1(plans: Vec<Plan>) -> Arc<World> {
        let mut w = World::new(plans);
        Arc::get_mut(&mut w).expect("fresh").outbound1 = true;
        w
    }
    /// The same, with the query-rewriting middleware in front of the handlers.
    pub(crate) fn new_rewriting(plans: Vec<Plan>) -> Arc<World> {
        let mut w = World::new(plans);
        Arc::get_mut(&mut w).expect("fresh").rewrite = true;
        w
    }
    /// Path under which the harness requests the parked handler `route` in this scenario.
    pub(crate) fn park_path(&self, route: &'static str) -> String {
        if self.rewrite { format!("/v1{route}") } else { route.to_string() }
    }
    /// The same, and the first connect hook hands a clone of every `PeerHandle` to the harness.
    pub(crate) fn new_keeping_handles(plans: Vec<Plan>) -> Arc<World> {
        let mut w = World::new(plans);
        Arc::get_mut(&mut w).expect("fresh").keep_handles = true;
        w
    }
    pub(crate) fn handle_of(&self, conn: usize) -> Option<PeerHandle> {
        self.handles.lock().unwrap_or_else(|p| p.into_inner()).get(&conn).cloned()
    }
    pub(crate) fn forget_handles(&self) {
        self.handles.lock().unwrap_or_else(|p| p.into_inner()).clear();
    }
    pub(crate) fn push(&self, e: Ev) {
        let mut g = self.log.lock().unwrap_or_else(|p| p.into_inner());
        g.push(e);
        self.cv.notify_all();
    }
    pub(crate) fn snapshot(&self) -> Vec<Ev> {
        self.log.lock().unwrap_or_else(|p| p.into_inner()).clone()
    }
    /// Wait until `pred(log)` holds; false on watchdog expiry.
    pub(crate) fn wait(&self, timeout: Duration, pred: impl Fn(&[Ev]) -> bool) -> bool {
        let deadline = Instant::now() + timeout;
        let mut g = self.log.lock().unwrap_or_else(|p| p.into_inner());
        loop {
            if pred(&g) {
                return true;
            }
            let now = Instant::now();
            if now >= deadline {
                return false;
            }
            g = self.cv.wait_timeout(g, deadline - now).unwrap_or_else(|p| p.into_inner()).0;
        }
    }
    pub(crate) fn has(&self, pred: impl Fn(&Ev) -> bool) -> bool {
        self.log.lock().unwrap_or_else(|p| p.into_inner()).iter().any(pred)
    }
    pub(crate) fn count(&self, pred: impl Fn(&Ev) -> bool) -> usize {
        self.log.lock().unwrap_or_else(|p| p.into_inner()).iter().filter(|e| pred(e)).count()
    }
    /// The harness announces which connection is being accepted next; the first
    /// connect hook binds the fresh peer id to it.
    pub(crate) fn set_starting(&self, idx: Option<usize>) {
        self.bind.lock().unwrap_or_else(|p| p.into_inner()).starting = idx;
    }
    /// The connection a peer id belongs to. An id seen for the first time (by
    /// whichever hook or handler runs first) is bound to the connection that is
    /// being accepted right now.
    pub(crate) fn conn_of(&self, id: PeerId) -> usize {
        let mut b = self.bind.lock().unwrap_or_else(|p| p.into_inner());
        if let Some(c) = b.peers.get(&id.0) {
            return *c;
        }
        if id == PeerId::DETACHED {
            return NOCONN;
        }
        match b.starting.take() {
            Some(i) => {
                b.peers.insert(id.0, i);
                i
            }
            None => NOCONN,
        }
    }
    pub(crate) fn peer_of(&self, conn: usize) -> Option<PeerId> {
        let b = self.bind.lock().unwrap_or_else(|p| p.into_inner());
        b.peers.iter().find(|(_, c)| **c == conn).map(|(p, _)| PeerId(*p))
    }
    pub(crate) fn sample(&self, conn: usize, id: PeerId) -> (bool, bool) {
        let present = self.reg.get(id).is_some_and(|h| h.peer_id() == id);
        let alias = match self.plans.get(conn) {
            Some(p) => self.reg.get_by(p.alias.as_str()).is_some_and(|h| h.peer_id() == id),
            None => false,
        };
        (present, alias)
    }
    /// Compare the two attached registries for this peer (only from the serving task's own hooks and inline
    /// handlers, and after the connection has ended: the two insert / remove closures run back to back there).
    pub(crate) fn check_first(&self, conn: usize, id: PeerId, site: &'static str) {
        let main = self.reg.get(id).is_some();
        let first = self.reg_first.get(id).is_some();
        self.first_checks.fetch_add(1, Ordering::SeqCst);
        if main != first {
            self.push(Ev::FirstRegistry { conn, site, main, first });
        }
    }
    pub(crate) fn first_checks(&self) -> u64 {
        self.first_checks.load(Ordering::SeqCst)
    }
    pub(crate) fn sample_after(&self, conn: usize) {
        if let Some(id) = self.peer_of(conn) {
            self.check_first(conn, id, "after-the-connection-ended");
        }
        let (present, alias) = match self.peer_of(conn) {
            Some(id) => self.sample(conn, id),
            None => (false, self.plans.get(conn).is_some_and(|p| self.reg.get_by(p.alias.as_str()).is_some())),
        };
        self.push(Ev::After { conn, present, alias });
    }
}

/// The server under test with the full hook set. Registration order:
/// C1, D1, registry(insert/remove), C2, H, D2.
/// Forwards "/v1/<rest>" as "/<rest>" (a new request message with the rewritten query), anything else unchanged.
struct StripV1;
impl repe::server::Middleware for StripV1 {
    fn handle(&self, req: &repe::Message, next: repe::server::Next<'_>) -> Result<repe::Message, repe::RepeError> {
        match req.query.strip_prefix(b"/v1") {
            Some(rest) if rest.first() == Some(&b'/') => {
                let mut m = req.clone();
                m.query = rest.to_vec();
                m.header.query_length = m.query.len() as u64;
                m.header.length = 48 + m.header.query_length + m.header.body_length;
                next.run(&m)
            }
            _ => next.run(req),
        }
    }
}

pub(crate) fn build_server(w: &Arc<World>) -> WebSocketServer {
    let mut router = Router::new();
    if w.rewrite {
        router = router.with_middleware(StripV1);
    }
    for pre in if w.rewrite { vec!["", "/v1"] } else { vec![""] } {
        router = add_routes(router, w, pre);
    }
    build_server_with(w, router)
}

fn add_routes(router: Router, w: &Arc<World>, pre: &str) -> Router {
    router
        .with_json_ctx(&format!("{pre}/probe"), {
            let w = w.clone();
            move |ctx, v| {
                let id = ctx.peer().map(|p| p.peer_id()).unwrap_or(PeerId::DETACHED);
                let conn = w.conn_of(id);
                let (present, alias) = w.sample(conn, id);
                w.check_first(conn, id, "inline-handler");
                w.push(Ev::Probe { conn, n: v.get("n").and_then(|n| n.as_u64()).unwrap_or(0), present, alias, cancelled: ctx.is_cancelled() });
                Ok(json!({"probe": true}))
            }
        })
        .with_json_ctx(&format!("{pre}/park_inline"), {
            let w = w.clone();
            move |ctx, _v| {
                let id = ctx.peer().map(|p| p.peer_id()).unwrap_or(PeerId::DETACHED);
                let conn = w.conn_of(id);
                w.push(Ev::ParkedInline { conn });
                let mut panics = false;
                if let Some(p) = w.plans.get(conn) {
                    if !park(&p.inline_gate) {
                        w.push(Ev::GateTimeout { conn });
                    }
                    panics = p.wake_panics.load(Ordering::SeqCst);
                }
                let (present, alias) = w.sample(conn, id);
                w.push(Ev::WokeInline { conn, present, alias, cancelled: ctx.is_cancelled() });
                if panics {
                    panic!("C15: parked inline handler panics on wake-up");
                }
                Ok(json!({"parked": "inline"}))
            }
        })
        .with_json_ctx_blocking(&format!("{pre}/park_off"), {
            let w = w.clone();
            move |ctx, _v| {
                let id = ctx.peer().map(|p| p.peer_id()).unwrap_or(PeerId::DETACHED);
                let conn = w.conn_of(id);
                w.push(Ev::ParkedOff { conn });
                if let Some(p) = w.plans.get(conn) {
                    if !p.off_gate.wait() {
                        w.push(Ev::GateTimeout { conn });
                    }
                }
                let cancelled = ctx.is_cancelled();
                let (present, alias) = w.sample(conn, id);
                w.push(Ev::WokeOff { conn, present, alias, cancelled });
                Ok(json!({"parked": "off"}))
            }
        })
        .with_json_ctx(&format!("{pre}/panic_inline"), |_ctx, _v| -> Result<Value, (repe::ErrorCode, String)> { panic!("C15: inline handler panic") })
        .with_json_ctx_blocking(&format!("{pre}/panic_off"), {
            let w = w.clone();
            move |ctx, _v| -> Result<Value, (repe::ErrorCode, String)> {
                let id = ctx.peer().map(|p| p.peer_id()).unwrap_or(PeerId::DETACHED);
                w.push(Ev::OffPanicking { conn: w.conn_of(id) });
                panic!("C15: off-reader handler panic")
            }
        })
        .with_json_ctx(&format!("{pre}/big"), {
            let w = w.clone();
            move |ctx, v| {
                let id = ctx.peer().map(|p| p.peer_id()).unwrap_or(PeerId::DETACHED);
                let conn = w.conn_of(id);
                let (present, alias) = w.sample(conn, id);
                w.push(Ev::Probe { conn, n: v.get("n").and_then(|n| n.as_u64()).unwrap_or(0), present, alias, cancelled: ctx.is_cancelled() });
                let n = v.get("bytes").and_then(|n| n.as_u64()).unwrap_or(0) as usize;
                Ok(Value::String("x".repeat(n)))
            }
        })
}

fn build_server_with(w: &Arc<World>, router: Router) -> WebSocketServer {
    let base = WebSocketServer::new(router);
    let base = if w.outbound1 { base.with_outbound_capacity(1) } else { base };
    base
        .on_error({
            let w = w.clone();
            move |e: &ConnectionError| {
                let kind = match e {
                    ConnectionError::Handshake(_) => "handshake",
                    ConnectionError::Connection(_) => "connection",
                    ConnectionError::HandlerPanic { .. } => "handler-panic",
                    ConnectionError::Saturation { .. } => "saturation",
                    ConnectionError::OutboundTooLarge { .. } => "outbound-too-large",
                    _ => "other",
                };
                w.push(Ev::Error { kind });
            }
        })
        .on_peer_connect({
            let w = w.clone();
            move |peer| {
                let id = peer.peer_id();
                let conn = w.conn_of(id);
                let (present, _) = w.sample(conn, id);
                if w.keep_handles {
                    w.handles.lock().unwrap_or_else(|p| p.into_inner()).insert(conn, peer.clone());
                }
                w.push(Ev::C1 { conn, present });
                if w.plans.get(conn).is_some_and(|p| p.cause == Cause::ConnPanic1) {
                    panic!("C15: first connect hook panics");
                }
            }
        })
        .on_peer_disconnect({
            let w = w.clone();
            move |id| {
                let conn = w.conn_of(id);
                let (present, alias) = w.sample(conn, id);
                w.check_first(conn, id, "first-disconnect-hook");
                w.push(Ev::D1 { conn, present, alias });
            }
        })
        .with_peer_registry(w.reg_first.clone())
        .with_peer_registry(w.reg.clone())
        .on_peer_connect({
            let w = w.clone();
            move |peer| {
                let id = peer.peer_id();
                let conn = w.conn_of(id);
                let (present, _) = w.sample(conn, id);
                w.check_first(conn, id, "connect-hook-after-the-registries");
                let a = peer.send_notify("/hello/1", NotifyBody::Json(b"1".to_vec())).is_ok();
                let b = peer.send_notify("/hello/2", NotifyBody::Json(b"2".to_vec())).is_ok();
                w.push(Ev::C2 { conn, present, notify_ok: a && b });
                if let Some(p) = w.plans.get(conn) {
                    if p.phase == Phase::Connect && p.cause != Cause::ConnPanic1 {
                        w.push(Ev::C2Parked { conn });
                        if !park(&p.hook_gate) {
                            w.push(Ev::GateTimeout { conn });
                        }
                    }
                    if p.cause == Cause::ConnPanic2 {
                        panic!("C15: second connect hook panics");
                    }
                }
            }
        })
        .on_peer_connect_with_handshake({
            let w = w.clone();
            move |peer, hs: &HandshakeContext| {
                let id = peer.peer_id();
                let conn = w.conn_of(id);
                let attached = match hs.header("x-alias") {
                    Some(a) => w.reg.alias(id, a),
                    None => false,
                };
                let (_, by_alias) = w.sample(conn, id);
                w.push(Ev::H { conn, attached, by_alias });
                if w.plans.get(conn).is_some_and(|p| p.cause == Cause::ConnPanicH) {
                    panic!("C15: handshake-aware connect hook panics");
                }
            }
        })
        .on_peer_disconnect({
            let w = w.clone();
            move |id| {
                let conn = w.conn_of(id);
                let (present, alias) = w.sample(conn, id);
                w.check_first(conn, id, "last-disconnect-hook");
                w.push(Ev::D2 { conn, present, alias });
            }
        })
}

/// Park on a gate. On a multi-thread runtime the worker hands its duties (I/O
/// driver included) to another thread first, so that one parked callback does
/// not stall unrelated connections of the same runtime.
fn park(g: &Gate) -> bool {
    match tokio::runtime::Handle::try_current() {
        Ok(h) if h.runtime_flavor() == tokio::runtime::RuntimeFlavor::MultiThread => tokio::task::block_in_place(|| g.wait()),
        _ => g.wait(),
    }
}

// -------------------------------------------------------------------- oracle

#[derive(Clone, Debug)]
pub(crate) struct Bad {
    pub key: String,
    pub what: String,
}

/// What the harness knows about one connection when the scenario is over.
#[derive(Clone, Debug)]
pub(crate) struct ConnFacts {
    pub cause: Cause,
    pub phase: Phase,
    /// the WebSocket handshake succeeded (always true in memory)
    pub accepted: bool,
    /// handshake-aware hooks are expected to fire and set the alias
    pub has_handshake: bool,
    /// messages seen by the raw client, in wire order
    pub wire: Vec<Got>,
    /// label for reports ("mem:Plain", "tcp:drain", ...)
    pub via: String,
}

#[derive(Default, Clone, Debug)]
pub(crate) struct Counters {
    pub scenarios: u64,
    pub connections: u64,
    pub cells: BTreeMap<String, u64>,
    pub via: BTreeMap<String, u64>,
    pub served: BTreeMap<String, u64>,
    pub skipped_cells: BTreeMap<String, u64>,
    pub off_parked_at_exit: u64,
    pub off_woke_cancelled: u64,
    pub inline_parked_at_trigger: u64,
    pub inline_saw_cancel: u64,
    pub queue_nonempty_at_exit: u64,
    pub hook_parked_at_trigger: u64,
    pub wire_order_checked: u64,
    pub notifies_on_wire: u64,
    pub registry_samples_connected: u64,
    pub registry_samples_after: u64,
    pub first_registry_comparisons: u64,
    pub disconnect_pairs_checked: u64,
    pub handshake_failures: u64,
    pub offpanic_survived: u64,
    pub hooks_ran_while_peer_blocked: u64,
    pub drain_returned_with_parked_handler: u64,
    pub drain_aborted_stragglers: u64,
    pub undelivered_at_abort: u64,
    pub log_shapes: BTreeMap<String, u64>,
    pub notes: BTreeMap<String, u64>,
    pub events: u64,
    /// the same three counters for the loopback-TCP rows (kernel timing and the
    /// multi-thread scheduler make them vary by a few between runs)
    pub tcp_events: u64,
    pub tcp_wire_order_checked: u64,
    pub tcp_notifies_on_wire: u64,
    // ---- entry points added later (partially-read adoption, *_with_shutdown resolving
    //      mid-life, address-taking loops, co-hosting accept helpers)
    /// prefix kind -> connections adopted through `adopt_upgraded_partially_read`
    pub partial_prefix: BTreeMap<String, u64>,
    pub partial_adoptions: u64,
    pub partial_bytes_handed_over: u64,
    pub partial_bytes_left_on_stream: u64,
    pub partial_prefix_ends_inside_a_frame: u64,
    pub addr_bind_retries: u64,
    pub addr_probe_connects: u64,
    pub addr_connect_retries: u64,
    pub attempts_after_loop_returned: u64,
    pub attempts_after_loop_returned_refused: u64,
    pub shutdown_with_inline_parked: u64,
    pub shutdown_with_hook_parked: u64,
    pub shutdown_with_off_parked: u64,
    pub shutdown_with_idle: u64,
    pub shutdown_loops_returned: u64,
    pub live_when_loop_returned: u64,
    pub served_after_loop_returned: u64,
    pub accept_helper_returned_ok: u64,
    pub accept_helper_returned_err: u64,
    // ---- rows of c15_ext.rs (registry traffic from outside the connection, one-directional write fault)
    pub ext_scenarios: u64,
    /// "family:phase:trigger:end" -> connections
    pub ext_rows: BTreeMap<String, u64>,
    /// public call -> executions
    pub ext_ops: BTreeMap<String, u64>,
    /// "stage:call:result class" -> executions
    pub ext_results: BTreeMap<String, u64>,
    /// stage -> registry samples taken after an external call and logged before the first disconnect hook (judged)
    pub ext_samples_by_stage: BTreeMap<String, u64>,
    /// of which the alias was expected (a handshake hook had attached it before)
    pub ext_alias_samples: u64,
    /// samples logged after a disconnect hook of the same connection (not judged)
    pub ext_samples_unjudged: u64,
    pub ext_write_cuts: u64,
    pub ext_writer_deaths_observed: u64,
    /// connections still served (no disconnect hook logged) when their writer was seen dead
    pub ext_served_with_dead_writer: u64,
    pub ext_sends_disconnected: u64,
    pub ext_sends_full: u64,
    pub ext_sends_ok: u64,
    pub ext_fill_sends: u64,
    pub ext_notifies_on_wire: u64,
    /// external calls made while the connection's own thread was parked in a callback
    pub ext_calls_while_callback_parked: u64,
    pub ext_two_connection_scenarios: u64,
    pub ext_second_accepted_after_cut: u64,
    pub ext_samples_after_other_peer_ended: u64,
    pub ext_ended_by_request_to_dead_writer: u64,
}

pub(crate) fn bump(m: &mut BTreeMap<String, u64>, k: impl Into<String>) {
    *m.entry(k.into()).or_insert(0) += 1;
}

impl Counters {
    pub(crate) fn merge(&mut self, o: &Counters) {
        fn mm(a: &mut BTreeMap<String, u64>, b: &BTreeMap<String, u64>) {
            for (k, v) in b {
                *a.entry(k.clone()).or_insert(0) += v;
            }
        }
        self.scenarios += o.scenarios;
        self.connections += o.connections;
        mm(&mut self.cells, &o.cells);
        mm(&mut self.via, &o.via);
        mm(&mut self.served, &o.served);
        mm(&mut self.skipped_cells, &o.skipped_cells);
        mm(&mut self.log_shapes, &o.log_shapes);
        mm(&mut self.notes, &o.notes);
        self.off_parked_at_exit += o.off_parked_at_exit;
        self.off_woke_cancelled += o.off_woke_cancelled;
        self.inline_parked_at_trigger += o.inline_parked_at_trigger;
        self.inline_saw_cancel += o.inline_saw_cancel;
        self.queue_nonempty_at_exit += o.queue_nonempty_at_exit;
        self.hook_parked_at_trigger += o.hook_parked_at_trigger;
        self.wire_order_checked += o.wire_order_checked;
        self.notifies_on_wire += o.notifies_on_wire;
        self.registry_samples_connected += o.registry_samples_connected;
        self.registry_samples_after += o.registry_samples_after;
        self.first_registry_comparisons += o.first_registry_comparisons;
        self.disconnect_pairs_checked += o.disconnect_pairs_checked;
        self.handshake_failures += o.handshake_failures;
        self.offpanic_survived += o.offpanic_survived;
        self.hooks_ran_while_peer_blocked += o.hooks_ran_while_peer_blocked;
        self.drain_returned_with_parked_handler += o.drain_returned_with_parked_handler;
        self.drain_aborted_stragglers += o.drain_aborted_stragglers;
        self.undelivered_at_abort += o.undelivered_at_abort;
        self.events += o.events;
        self.tcp_events += o.tcp_events;
        self.tcp_wire_order_checked += o.tcp_wire_order_checked;
        self.tcp_notifies_on_wire += o.tcp_notifies_on_wire;
        mm(&mut self.partial_prefix, &o.partial_prefix);
        self.partial_adoptions += o.partial_adoptions;
        self.partial_bytes_handed_over += o.partial_bytes_handed_over;
        self.partial_bytes_left_on_stream += o.partial_bytes_left_on_stream;
        self.partial_prefix_ends_inside_a_frame += o.partial_prefix_ends_inside_a_frame;
        self.addr_bind_retries += o.addr_bind_retries;
        self.addr_probe_connects += o.addr_probe_connects;
        self.addr_connect_retries += o.addr_connect_retries;
        self.attempts_after_loop_returned += o.attempts_after_loop_returned;
        self.attempts_after_loop_returned_refused += o.attempts_after_loop_returned_refused;
        self.shutdown_with_inline_parked += o.shutdown_with_inline_parked;
        self.shutdown_with_hook_parked += o.shutdown_with_hook_parked;
        self.shutdown_with_off_parked += o.shutdown_with_off_parked;
        self.shutdown_with_idle += o.shutdown_with_idle;
        self.shutdown_loops_returned += o.shutdown_loops_returned;
        self.live_when_loop_returned += o.live_when_loop_returned;
        self.served_after_loop_returned += o.served_after_loop_returned;
        self.accept_helper_returned_ok += o.accept_helper_returned_ok;
        self.accept_helper_returned_err += o.accept_helper_returned_err;
        self.ext_scenarios += o.ext_scenarios;
        mm(&mut self.ext_rows, &o.ext_rows);
        mm(&mut self.ext_ops, &o.ext_ops);
        mm(&mut self.ext_results, &o.ext_results);
        mm(&mut self.ext_samples_by_stage, &o.ext_samples_by_stage);
        self.ext_alias_samples += o.ext_alias_samples;
        self.ext_samples_unjudged += o.ext_samples_unjudged;
        self.ext_write_cuts += o.ext_write_cuts;
        self.ext_writer_deaths_observed += o.ext_writer_deaths_observed;
        self.ext_served_with_dead_writer += o.ext_served_with_dead_writer;
        self.ext_sends_disconnected += o.ext_sends_disconnected;
        self.ext_sends_full += o.ext_sends_full;
        self.ext_sends_ok += o.ext_sends_ok;
        self.ext_fill_sends += o.ext_fill_sends;
        self.ext_notifies_on_wire += o.ext_notifies_on_wire;
        self.ext_calls_while_callback_parked += o.ext_calls_while_callback_parked;
        self.ext_two_connection_scenarios += o.ext_two_connection_scenarios;
        self.ext_second_accepted_after_cut += o.ext_second_accepted_after_cut;
        self.ext_samples_after_other_peer_ended += o.ext_samples_after_other_peer_ended;
        self.ext_ended_by_request_to_dead_writer += o.ext_ended_by_request_to_dead_writer;
    }
}

/// Result of one scenario.
#[derive(Default, Clone, Debug)]
pub(crate) struct Outcome {
    pub bad: Vec<Bad>,
    /// watchdog expiries / harness trouble that is not a property clause
    pub stuck: Vec<String>,
    pub counters: Counters,
    /// per-connection event shapes (for samples and the determinism re-run)
    pub shapes: Vec<String>,
}

fn short(e: &Ev) -> &'static str {
    match e {
        Ev::FirstRegistry { .. } => "REG-DISAGREE",
        Ev::C1 { .. } => "c1",
        Ev::C2 { .. } => "c2",
        Ev::C2Parked { .. } => "c2park",
        Ev::H { .. } => "h",
        Ev::Probe { .. } => "probe",
        Ev::ParkedInline { .. } => "in-park",
        Ev::WokeInline { .. } => "in-woke",
        Ev::ParkedOff { .. } => "off-park",
        Ev::WokeOff { .. } => "off-woke",
        Ev::OffPanicking { .. } => "off-panic",
        Ev::D1 { .. } => "D1",
        Ev::D2 { .. } => "D2",
        Ev::Ending { .. } => "|end|",
        Ev::PeerReadsAgain { .. } => "|peer-reads|",
        Ev::Served { outcome, .. } => outcome,
        Ev::Gone { .. } => "gone",
        Ev::After { .. } => "after",
        Ev::Error { .. } => "err",
        Ev::LoopReturned => "loop-ret",
        Ev::ShutdownResolved => "shutdown",
        Ev::GateTimeout { .. } => "GATE-TIMEOUT",
        Ev::WriteCut { .. } => "|write-cut|",
        Ev::WriterDead { .. } => "|writer-dead|",
        Ev::Ext { op, .. } => op,
    }
}

/// The reference model: decide one scenario from its event log and the wire
/// views. `shared_end` = the connections share one ShutdownToken / one accept
/// loop, so the first `Ending` marker may legitimately end all of them.
pub(crate) fn evaluate(w: &World, facts: &[ConnFacts], shared_end: bool, out: &mut Outcome) {
    let log = w.snapshot();
    let in_memory = facts.iter().all(|f| f.via.starts_with("mem"));
    if in_memory {
        out.counters.events += log.len() as u64;
    } else {
        out.counters.tcp_events += log.len() as u64;
    }
    let first_shared_end = log.iter().position(|e| matches!(e, Ev::Ending { .. }));
    out.counters.first_registry_comparisons += w.first_checks();
    for e in &log {
        if let Ev::FirstRegistry { conn, site, main, first } = e {
            out.bad.push(Bad {
                key: format!("C15:registries-disagree:{site}"),
                what: format!("two registries are attached to the server; at {site} the one attached last {} the peer of connection {conn} while the one attached first {}", if *main { "holds" } else { "does not hold" }, if *first { "holds it" } else { "does not" }),
            });
        }
    }
    for (conn, f) in facts.iter().enumerate() {
        let evs: Vec<(usize, &Ev)> = log.iter().enumerate().filter(|(_, e)| e.conn() == conn).collect();
        let shape: Vec<&str> = evs.iter().map(|(_, e)| short(e)).collect();
        let shape = shape.join(" ");
        let tag = format!("cause={:?} phase={:?} via={} conn={}", f.cause, f.phase, f.via, conn);
        let cause = name(f.cause);
        let mut fail = |key: String, what: String| {
            out.bad.push(Bad { key, what: format!("{what} [{tag}] log: {shape}") });
        };
        let pos = |p: &dyn Fn(&Ev) -> bool| evs.iter().filter(|(_, e)| p(e)).map(|(i, _)| *i).collect::<Vec<_>>();
        let d1 = pos(&|e| matches!(e, Ev::D1 { .. }));
        let d2 = pos(&|e| matches!(e, Ev::D2 { .. }));
        let connects = pos(&|e| matches!(e, Ev::C1 { .. } | Ev::C2 { .. } | Ev::H { .. }));
        if evs.iter().any(|(_, e)| matches!(e, Ev::GateTimeout { .. })) {
            out.stuck.push(format!("a gate timed out [{tag}]"));
        }

        if !f.accepted {
            // "never for a connection whose handshake failed"
            out.counters.handshake_failures += 1;
            if !d1.is_empty() || !d2.is_empty() {
                fail("C15:disconnect-hook-ran-for-failed-handshake".into(), format!("disconnect hooks ran {}+{} times for a connection whose handshake failed", d1.len(), d2.len()));
            }
            if !connects.is_empty() {
                out.counters.notes.entry("connect hook ran for a failed handshake".into()).and_modify(|n| *n += 1).or_insert(1);
            }
            out.shapes.push(format!("{:?}/{:?}: {}", f.cause, f.phase, shape));
            continue;
        }

        // ---- "the disconnect callbacks run exactly once" (each of the two)
        out.counters.disconnect_pairs_checked += 1;
        if d1.len() != 1 || d2.len() != 1 {
            fail(
                format!("C15:disconnect-hooks-ran-{}+{}-times:{cause}", d1.len(), d2.len()),
                format!("disconnect hooks ran {} (first) and {} (second) times instead of exactly once each", d1.len(), d2.len()),
            );
        }
        // ---- registration order
        if let (Some(a), Some(b)) = (d1.first(), d2.first()) {
            if a > b {
                fail("C15:disconnect-hooks-out-of-registration-order".into(), "second-registered disconnect hook ran before the first-registered one".into());
            }
        }
        // ---- after the connect hooks
        if let (Some(first_d), Some(last_c)) = (d1.iter().chain(d2.iter()).min(), connects.iter().max()) {
            if first_d < last_c {
                fail("C15:disconnect-hook-before-connect-hook".into(), "a disconnect hook ran before the last connect hook of the same connection".into());
            }
        }
        // ---- not before the connection is being ended
        let own_end = evs.iter().find(|(_, e)| matches!(e, Ev::Ending { .. })).map(|(i, _)| *i);
        let end_at = if shared_end { first_shared_end.or(own_end) } else { own_end };
        if let (Some(first_d), Some(end_at)) = (d1.iter().chain(d2.iter()).min(), end_at) {
            if *first_d < end_at {
                fail(format!("C15:disconnect-hook-on-live-connection:{cause}"), "a disconnect hook ran while the connection was alive (before its exit cause)".into());
            }
        }

        // ---- registry: present (with alias) while connected
        let first_d = d1.iter().chain(d2.iter()).min().copied().unwrap_or(usize::MAX);
        // ---- an exit cause the embedder controls ends the connection by itself, also while the peer does not
        //      read and the outbound queue is full: the disconnect hooks have run by the time the harness lets
        //      the peer read again (several seconds later)
        if f.phase == Phase::Outbound && matches!(f.cause, Cause::Cancel | Cause::Drain | Cause::Abort) {
            if let Some(reads) = evs.iter().find(|(_, e)| matches!(e, Ev::PeerReadsAgain { .. })).map(|(i, _)| *i) {
                let last_d = d1.iter().chain(d2.iter()).max().copied().unwrap_or(usize::MAX);
                if last_d > reads {
                    fail(
                        format!("C15:exit-waited-for-the-peer-to-read:{:?}", f.cause),
                        format!("{:?} with the peer not reading and responses queued: the disconnect hooks had not (all) run {} s later, when the harness let the peer read again", f.cause, SHORT_WATCHDOG.as_secs()),
                    );
                } else {
                    out.counters.hooks_ran_while_peer_blocked += 1;
                }
            }
        }
        let insert_ran = evs.iter().any(|(_, e)| matches!(e, Ev::C2 { .. })) || f.cause != Cause::ConnPanic1;
        let alias_set = evs.iter().any(|(_, e)| matches!(e, Ev::H { attached: true, .. }));
        for (i, e) in &evs {
            match e {
                Ev::Probe { present, alias, .. } | Ev::WokeInline { present, alias, .. } if *i < first_d => {
                    out.counters.registry_samples_connected += 1;
                    if !*present {
                        fail("C15:peer-absent-from-registry-while-connected".into(), format!("PeerRegistry::get returned None inside a handler of a live connection ({})", short(e)));
                    }
                    if f.has_handshake && !*alias {
                        fail("C15:alias-absent-from-registry-while-connected".into(), format!("PeerRegistry::get_by(alias) returned None inside a handler of a live connection ({})", short(e)));
                    }
                }
                // ---- rows of c15_ext.rs: sampled by the harness (embedder side) right after a public
                //      registry call, while no disconnect hook of this connection has been logged: "the
                //      peer and its aliases are present from connect until [the disconnect callbacks ran]"
                Ev::Ext { op, stage, present, alias, listed, .. } if *i < first_d => {
                    let inserted = evs.iter().any(|(j, e)| j < i && matches!(e, Ev::C2 { .. }));
                    let alias_attached = evs.iter().any(|(j, e)| j < i && matches!(e, Ev::H { attached: true, .. }));
                    if inserted {
                        bump(&mut out.counters.ext_samples_by_stage, *stage);
                        if *stage == "other-peer-ended" {
                            out.counters.ext_samples_after_other_peer_ended += 1;
                        }
                        if !*present {
                            fail(
                                format!("C15:peer-absent-from-registry-while-served:{stage}:after-{op}"),
                                format!("PeerRegistry::get returned None for a connection that is still being served (no disconnect callback has run), sampled by the embedder right after {op} in stage '{stage}'"),
                            );
                        }
                        if alias_attached {
                            out.counters.ext_alias_samples += 1;
                            if !*alias {
                                fail(
                                    format!("C15:alias-absent-from-registry-while-served:{stage}:after-{op}"),
                                    format!("PeerRegistry::get_by(alias) returned None for a connection that is still being served (no disconnect callback has run), sampled by the embedder right after {op} in stage '{stage}'"),
                                );
                            }
                            if !*listed {
                                fail(
                                    format!("C15:alias-absent-from-registry-while-served:{stage}:after-{op}:aliases_for"),
                                    format!("PeerRegistry::aliases_for(id) no longer lists the alias of a connection that is still being served (no disconnect callback has run), sampled by the embedder right after {op} in stage '{stage}'"),
                                );
                            }
                        }
                    }
                }
                Ev::Ext { .. } => out.counters.ext_samples_unjudged += 1,
                Ev::WriterDead { .. } => {
                    out.counters.ext_writer_deaths_observed += 1;
                    if *i < first_d {
                        out.counters.ext_served_with_dead_writer += 1;
                    }
                }
                Ev::C2 { present, notify_ok, .. } => {
                    if !*present {
                        bump(&mut out.counters.notes, "second connect hook did not see the peer in the registry");
                    }
                    if !*notify_ok && !w.outbound1 {
                        out.stuck.push(format!("send_notify from the connect hook failed [{tag}]"));
                    }
                }
                Ev::H { attached, by_alias, .. } => {
                    if !*attached || !*by_alias {
                        bump(&mut out.counters.notes, "alias not attachable from the handshake hook");
                    }
                }
                Ev::D1 { present, alias, .. } => {
                    // sampled in the first disconnect hook, before the registry's own
                    // remove hook: model-specific, so a divergence is a note
                    if *present != insert_ran || *alias != alias_set {
                        bump(&mut out.counters.notes, "first disconnect hook: registry content differs from the model");
                    }
                }
                Ev::D2 { present, alias, .. } => {
                    if *present || *alias {
                        bump(&mut out.counters.notes, "last disconnect hook still sees the peer in the registry");
                    }
                }
                _ => {}
            }
        }
        // ---- registry: absent afterwards
        for (i, e) in &evs {
            match e {
                Ev::After { present, alias, .. } => {
                    out.counters.registry_samples_after += 1;
                    if *present {
                        fail(format!("C15:peer-left-in-registry:{cause}"), "PeerRegistry::get still returns the peer after the serving future finished".into());
                    }
                    if *alias {
                        fail(format!("C15:alias-left-in-registry:{cause}"), "PeerRegistry::get_by(alias) still returns the peer after the serving future finished".into());
                    }
                }
                Ev::WokeOff { present, alias, cancelled, .. } => {
                    let served_at = evs.iter().find(|(_, e)| matches!(e, Ev::Served { .. } | Ev::After { .. })).map(|(j, _)| *j);
                    if served_at.is_some_and(|s| s < *i) {
                        out.counters.off_parked_at_exit += 1;
                        out.counters.registry_samples_after += 1;
                        // ---- "handlers still running when the connection ends observe cancellation"
                        if *cancelled {
                            out.counters.off_woke_cancelled += 1;
                        } else {
                            fail(format!("C15:parked-handler-not-cancelled:{cause}"), "an off-reader handler still parked when the connection ended read ctx.is_cancelled() == false afterwards".into());
                        }
                        if *present || *alias {
                            fail(format!("C15:peer-left-in-registry:{cause}"), "a handler that outlived the connection still finds the peer (or its alias) in the registry".into());
                        }
                    }
                }
                Ev::WokeInline { cancelled, .. } => {
                    // (over TCP the harness cannot order the wake-up after the accept
                    // loop's internal cancel, so only the in-memory rows are looked at)
                    if matches!(f.cause, Cause::Cancel | Cause::Drain) && f.via.starts_with("mem") {
                        if *cancelled {
                            out.counters.inline_saw_cancel += 1;
                        } else {
                            // the embedder's cancellation is what ends this connection and the handler is
                            // still running (it is woken only after the cancel): it must observe it
                            fail(
                                format!("C15:running-inline-handler-not-cancelled:{cause}"),
                                "an inline context handler that was still running when the embedder cancelled the connection read ctx.is_cancelled() == false afterwards".into(),
                            );
                        }
                    }
                }
                _ => {}
            }
        }

        // ---- off-reader panic: the connection survives (peer stays registered,
        //      later requests are served, no disconnect hook yet)
        if f.cause == Cause::OffPanic {
            let panicked = evs.iter().find(|(_, e)| matches!(e, Ev::OffPanicking { .. })).map(|(i, _)| *i);
            let survived = evs.iter().any(|(i, e)| matches!(e, Ev::Probe { n: 71, present: true, .. }) && panicked.is_some_and(|p| p < *i) && *i < first_d);
            if survived {
                out.counters.offpanic_survived += 1;
            } else {
                fail("C15:offreader-panic-ended-connection".into(), "after an off-reader handler panic the connection did not serve the next request with the peer still registered".into());
            }
        }

        // ---- wire order: connect notifies before any response
        let mut hello = 0;
        let mut decided = false;
        for g in &f.wire {
            if let Got::Frame(fr) = g {
                if fr.h.notify != 0 && fr.query.starts_with(b"/hello/") {
                    hello += 1;
                } else if fr.h.notify == 0 {
                    decided = true;
                    // (with an outbound queue of one message the hook's second notify is refused by the full
                    // queue: there is no second notify to overtake)
                    if hello < 2 && !w.outbound1 {
                        fail(
                            "C15:response-overtook-connect-notify".into(),
                            format!("a response (id {}) reached the wire after only {hello} of the 2 notifies queued by the connect hook", fr.h.id),
                        );
                    }
                    break;
                }
            }
        }
        if decided {
            if in_memory {
                out.counters.wire_order_checked += 1;
            } else {
                out.counters.tcp_wire_order_checked += 1;
            }
        }
        if hello >= 2 {
            if in_memory {
                out.counters.notifies_on_wire += 1;
            } else {
                out.counters.tcp_notifies_on_wire += 1;
            }
        }
        for (_, e) in &evs {
            if let Ev::Served { outcome, .. } = e {
                bump(&mut out.counters.served, format!("{:?}:{outcome}", f.cause));
            }
        }
        bump(&mut out.counters.log_shapes, shape.clone());
        out.shapes.push(format!("{:?}/{:?}: {}", f.cause, f.phase, shape));
    }
    // hooks that could not be attributed to any connection of the scenario
    if facts.iter().any(|f| !f.accepted) && log.iter().any(|e| e.conn() == NOCONN && matches!(e, Ev::D1 { .. } | Ev::D2 { .. })) {
        out.bad.push(Bad {
            key: "C15:disconnect-hook-ran-for-failed-handshake".into(),
            what: "a disconnect hook ran for a peer id that no accepted connection owns, in a scenario with a failed handshake".into(),
        });
    } else if log.iter().any(|e| e.conn() == NOCONN && !matches!(e, Ev::Error { .. } | Ev::LoopReturned | Ev::ShutdownResolved)) {
        out.bad.push(Bad {
            key: "C15:hook-for-unknown-connection".into(),
            what: format!("a lifecycle hook or handler ran for a peer id no accepted connection owns: {:?}", log.iter().filter(|e| e.conn() == NOCONN).take(4).collect::<Vec<_>>()),
        });
    }
    // scenario end: nothing may be left in the registry
    if w.reg.len() != 0 && !out.bad.iter().any(|b| b.key.starts_with("C15:peer-left-in-registry")) {
        out.bad.push(Bad { key: "C15:peer-left-in-registry:end".into(), what: format!("{} peers left in the registry when every connection of the scenario had ended", w.reg.len()) });
    }
}

// ------------------------------------------------------------------ scenarios

#[derive(Clone, Debug)]
pub(crate) enum Scenario {
    Mem(mem::MemScenario),
    Tcp(tcp::TcpScenario),
    /// serving starts after the embedder's token was cancelled
    Pre(pre::PreScenario),
    /// registry traffic from outside the connection (healthy, or with a dead writer)
    Ext(ext::ExtScenario),
}

impl Scenario {
    fn to_json(&self) -> Value {
        match self {
            Scenario::Mem(m) => m.to_json(),
            Scenario::Tcp(t) => t.to_json(),
            Scenario::Pre(p) => p.to_json(),
            Scenario::Ext(x) => x.to_json(),
        }
    }
    fn from_json(v: &Value) -> Result<Scenario, String> {
        match v["kind"].as_str() {
            Some("mem") => Ok(Scenario::Mem(mem::MemScenario::from_json(v)?)),
            Some("tcp") => Ok(Scenario::Tcp(tcp::TcpScenario::from_json(v)?)),
            Some("pre-cancelled") => Ok(Scenario::Pre(pre::PreScenario::from_json(v)?)),
            Some("ext") => Ok(Scenario::Ext(ext::ExtScenario::from_json(v)?)),
            _ => Err("unknown scenario kind".into()),
        }
    }
    fn run(&self) -> Outcome {
        match self {
            Scenario::Mem(m) => mem::run(m),
            Scenario::Tcp(t) => tcp::run(t),
            Scenario::Pre(p) => pre::run(p),
            Scenario::Ext(x) => ext::run(x),
        }
    }
}

pub(crate) fn cell_json(c: &Cell) -> Value {
    json!({"cause": name(c.cause), "phase": name(c.phase)})
}
pub(crate) fn cell_from_json(v: &Value) -> Result<Cell, String> {
    Ok(Cell {
        cause: v["cause"].as_str().and_then(parse_cause).ok_or("cause")?,
        phase: v["phase"].as_str().and_then(parse_phase).ok_or("phase")?,
    })
}
pub(crate) fn variant_from_json(v: &Value) -> Result<Variant, String> {
    v.as_str().and_then(parse_variant).ok_or_else(|| "variant".to_string())
}

fn mem_sc(variant: Variant, conns: Vec<Cell>, shared_token: bool, reverse_end: bool) -> Scenario {
    Scenario::Mem(mem::MemScenario { prefix: None, variant, conns, shared_token, reverse_end, rewrite: false, outbound1: false })
}

/// the same with the query-rewriting middleware in front of the parked handlers
fn mem_rewriting(variant: Variant, conns: Vec<Cell>, shared_token: bool, reverse_end: bool) -> Scenario {
    Scenario::Mem(mem::MemScenario { prefix: None, variant, conns, shared_token, reverse_end, rewrite: true, outbound1: false })
}

/// outbound queue of one message (the reader parks on the full queue in the Outbound phase)
fn mem_outbound1(variant: Variant, conns: Vec<Cell>, shared_token: bool, reverse_end: bool) -> Scenario {
    Scenario::Mem(mem::MemScenario { prefix: None, variant, conns, shared_token, reverse_end, rewrite: false, outbound1: true })
}

/// the same, adopted through `adopt_upgraded_partially_read`
fn mem_partial(prefix: mem::Prefix, variant: Variant, conns: Vec<Cell>, reverse_end: bool) -> Scenario {
    Scenario::Mem(mem::MemScenario { prefix: Some(prefix), variant, conns, shared_token: false, reverse_end, rewrite: false, outbound1: false })
}

fn enumerate(tier: Tier, skipped: &mut BTreeMap<String, u64>) -> Vec<Scenario> {
    let mut v = Vec::new();
    // (0) serving begins under an already cancelled token
    for variant in [Variant::Cancel, Variant::CancelHandshake] {
        for n in 1..=3 {
            v.push(Scenario::Pre(pre::PreScenario { variant, n }));
        }
    }
    // (1) one connection: every cell on every entry point
    for &variant in &VARIANTS {
        for &cause in &CAUSES {
            for &phase in &PHASES {
                match skip_reason(cause, phase, variant.has_token(), variant.has_handshake()) {
                    Some(r) => bump(skipped, format!("{cause:?}x{phase:?}@{variant:?}: {r}")),
                    None => v.push(mem_sc(variant, vec![Cell { cause, phase }], false, false)),
                }
            }
        }
    }
    // (2) two connections: every ordered pair of cells (the first-listed is
    //     accepted first); ended in acceptance order and in reverse order
    let full = cells(true, true);
    for (i, a) in full.iter().enumerate() {
        for (j, b) in full.iter().enumerate() {
            let variant = if (i + j) % 2 == 0 { Variant::CancelHandshake } else { Variant::Cancel };
            let ok = |c: &Cell| skip_reason(c.cause, c.phase, variant.has_token(), variant.has_handshake()).is_none();
            let variant = if ok(a) && ok(b) { variant } else { Variant::CancelHandshake };
            for rev in [false, true] {
                if tier == Tier::Quick && rev && a.cause != b.cause && (i + j) % 3 != 0 {
                    continue; // quick: reverse ending order for a third of the mixed pairs
                }
                v.push(mem_sc(variant, vec![*a, *b], false, rev));
            }
        }
    }
    // (3) three connections. quick: every triple of causes, phases assigned by a
    //     fixed covering rule; thorough: every triple of cells
    match tier {
        Tier::Quick => {
            let exec: Vec<Cause> = CAUSES.to_vec();
            for (i, &a) in exec.iter().enumerate() {
                for (j, &b) in exec.iter().enumerate() {
                    for (k, &c) in exec.iter().enumerate() {
                        let ph = |cause: Cause, salt: usize| -> Phase {
                            if matches!(cause, Cause::ConnPanic1 | Cause::ConnPanic2 | Cause::ConnPanicH) {
                                Phase::Connect
                            } else {
                                PHASES[(i + 2 * j + 3 * k + salt) % PHASES.len()]
                            }
                        };
                        v.push(mem_sc(
                            Variant::CancelHandshake,
                            vec![Cell { cause: a, phase: ph(a, 0) }, Cell { cause: b, phase: ph(b, 1) }, Cell { cause: c, phase: ph(c, 2) }],
                            false,
                            (i + j + k) % 2 == 1,
                        ));
                    }
                }
            }
        }
        Tier::Thorough => {
            for (i, a) in full.iter().enumerate() {
                for (j, b) in full.iter().enumerate() {
                    for (k, c) in full.iter().enumerate() {
                        v.push(mem_sc(Variant::CancelHandshake, vec![*a, *b, *c], false, (i + j + k) % 2 == 1));
                    }
                }
            }
        }
    }
    // (4) N connections with the same cell, one shared ShutdownToken
    let ns: &[usize] = tier.pick(&[4], &[8, 32]);
    for &n in ns {
        for c in &full {
            v.push(mem_sc(Variant::CancelHandshake, vec![*c; n], true, false));
        }
    }
    // (4b) `adopt_upgraded_partially_read` as the adopting call: the first k bytes the client
    //      pipelined with the upgrade are handed over as `buffered`, the rest stays on the stream
    {
        use mem::PREFIXES;
        // every cell x every prefix on the entry point that has every cell
        for c in &full {
            for &p in &PREFIXES {
                v.push(mem_partial(p, Variant::CancelHandshake, vec![*c], false));
            }
        }
        // the other serve_connection* variants: quick rotates the prefix over the cells
        for &variant in &[Variant::Plain, Variant::Handshake, Variant::Cancel] {
            for (i, c) in cells(variant.has_token(), variant.has_handshake()).iter().enumerate() {
                match tier {
                    Tier::Quick => v.push(mem_partial(PREFIXES[i % PREFIXES.len()], variant, vec![*c], false)),
                    Tier::Thorough => {
                        for &p in &PREFIXES {
                            v.push(mem_partial(p, variant, vec![*c], false));
                        }
                    }
                }
            }
        }
        // two connections: quick a covering selection of ordered pairs, thorough every ordered pair
        for (i, a) in full.iter().enumerate() {
            match tier {
                Tier::Quick => {
                    let j = (i * 7 + 3) % full.len();
                    v.push(mem_partial(PREFIXES[(i + 1) % PREFIXES.len()], Variant::CancelHandshake, vec![*a, full[j]], i % 2 == 1));
                }
                Tier::Thorough => {
                    for (j, b) in full.iter().enumerate() {
                        v.push(mem_partial(PREFIXES[(i + 2 * j) % PREFIXES.len()], Variant::CancelHandshake, vec![*a, *b], (i + j) % 2 == 1));
                    }
                }
            }
        }
    }
    // (4c) registry traffic from outside the connection: healthy connections in every phase, connections
    //     whose writer died of a one-directional write fault and that are still being served, and two
    //     connections (one of each kind) sharing the registry (in memory; enumerated before the TCP rows so
    //     that those still form the tail of the sweep)
    for x in ext::enumerate(tier) {
        v.push(Scenario::Ext(x));
    }
    // (4d) a middleware that rewrites the query of what it forwards sits in front of the parked handlers: every
    //     cause with a handler parked inline / off the reader, on every entry point; two connections (quick: a
    //     covering selection of ordered pairs, thorough: every ordered pair of such cells)
    {
        let parked: Vec<Cell> = cells(true, true).into_iter().filter(|c| matches!(c.phase, Phase::Inline | Phase::Off)).collect();
        for &variant in &VARIANTS {
            for c in &parked {
                if skip_reason(c.cause, c.phase, variant.has_token(), variant.has_handshake()).is_none() {
                    v.push(mem_rewriting(variant, vec![*c], false, false));
                }
            }
        }
        for (i, a) in parked.iter().enumerate() {
            for (j, b) in parked.iter().enumerate() {
                if tier == Tier::Quick && (i * 5 + 1) % parked.len() != j {
                    continue;
                }
                // (each connection under its own token, as in (2): a shared token would let one cell's cause end the other)
                v.push(mem_rewriting(Variant::CancelHandshake, vec![*a, *b], false, (i + j) % 3 == 0));
            }
        }
    }
    // (4e) an outbound queue of ONE message and a peer that does not read: the serving task is parked handing a
    //     response to the full queue when the connection ends (every cause, every entry point; pairs)
    {
        // (not the off-reader panic cell: its survival probe needs a reader that reads)
        let full: Vec<Cell> = cells(true, true).into_iter().filter(|c| c.phase == Phase::Outbound && c.cause != Cause::OffPanic).collect();
        for &variant in &VARIANTS {
            for c in &full {
                if skip_reason(c.cause, c.phase, variant.has_token(), variant.has_handshake()).is_none() {
                    v.push(mem_outbound1(variant, vec![*c], false, false));
                }
            }
        }
        for (i, a) in full.iter().enumerate() {
            for (j, b) in full.iter().enumerate() {
                if tier == Tier::Quick && (i * 3 + 1) % full.len() != j {
                    continue;
                }
                v.push(mem_outbound1(Variant::CancelHandshake, vec![*a, *b], false, (i + j) % 3 == 0));
            }
        }
    }
    // (5) the built-in accept loops over loopback TCP
    for t in tcp::enumerate(tier, skipped) {
        v.push(Scenario::Tcp(t));
    }
    v
}

struct WorkerState {
    samples: Vec<(u64, Value)>,
    counters: Counters,
    stuck: Vec<(u64, String)>,
    nondeterministic: Vec<String>,
}

pub fn run(tier: Tier) -> ! {
    let ctx = Ctx::new("C15", tier);
    let mut skipped = BTreeMap::new();
    let scenarios = enumerate(tier, &mut skipped);
    let samples = Samples::new(8);
    let total = scenarios.len() as u64;
    // fixed sample positions: first and last scenario of the sweep and six evenly spaced ones
    let sample_at: Vec<u64> = (0..8u64).map(|k| (k * total.saturating_sub(1)) / 7).collect();
    let stop = AtomicBool::new(false);
    let executed = AtomicU64::new(0);
    let prev_hook = std::panic::take_hook();
    std::panic::set_hook(Box::new(|_| {}));
    let t0 = Instant::now();
    let states = par::for_each_index(
        scenarios.len() as u64,
        1,
        |_| WorkerState { samples: Vec::new(), counters: Counters::default(), stuck: Vec::new(), nondeterministic: Vec::new() },
        |st, i| {
            if stop.load(Ordering::Relaxed) {
                return;
            }
            let sc = &scenarios[i as usize];
            let t_sc = Instant::now();
            let o = sc.run();
            if t_sc.elapsed() > Duration::from_millis(800) && std::env::var_os("C15_DEBUG").is_some() {
                eprintln!("[C15] slow scenario {i} ({:.1}s): {}", t_sc.elapsed().as_secs_f64(), sc.to_json());
            }
            executed.fetch_add(1, Ordering::Relaxed);
            st.counters.merge(&o.counters);
            for s in &o.stuck {
                st.stuck.push((i, s.clone()));
            }
            if !o.bad.is_empty() {
                // re-execute twice from the recorded scenario before reporting
                let keys = |o: &Outcome| {
                    let mut k: Vec<String> = o.bad.iter().map(|b| b.key.clone()).collect();
                    k.sort();
                    k.dedup();
                    k
                };
                let k0 = keys(&o);
                let k1 = keys(&sc.run());
                let k2 = keys(&sc.run());
                if k0 != k1 || k0 != k2 {
                    st.nondeterministic.push(format!("scenario {i} {}: {k0:?} vs {k1:?} vs {k2:?}", sc.to_json()));
                }
                for b in &o.bad {
                    if k1.contains(&b.key) && k2.contains(&b.key) {
                        ctx.violation(b.key.clone(), b.what.clone(), sc.to_json());
                    }
                }
                if ctx.violation_count() >= 40 {
                    stop.store(true, Ordering::Relaxed);
                }
            } else if sample_at.contains(&i) {
                st.samples.push((i, json!({"scenario": sc.to_json(), "per_connection_event_shapes": o.shapes})));
            }
        },
    );
    std::panic::set_hook(prev_hook);
    let wall = t0.elapsed().as_secs_f64();
    let mut c = Counters::default();
    let mut stuck = Vec::new();
    let mut nondet = Vec::new();
    let mut picked: Vec<(u64, Value)> = Vec::new();
    for s in states {
        picked.extend(s.samples.iter().cloned());
        c.merge(&s.counters);
        stuck.extend(s.stuck);
        nondet.extend(s.nondeterministic);
    }
    stuck.sort();
    picked.sort_by_key(|(i, _)| *i);
    for (_, v) in picked {
        samples.offer(|| v);
    }
    if std::env::var_os("C15_DEBUG").is_some() {
        for (i, s) in &stuck {
            eprintln!("[C15] stuck: scenario {i}: {s}");
        }
        eprintln!("[C15] sweep wall {wall:.1}s, {} scenarios", scenarios.len());
    }
    let stopped = stop.load(Ordering::Relaxed);
    let executed = executed.load(Ordering::Relaxed);
    for (k, n) in &c.notes {
        ctx.note(format!("{k} ({n}x)"));
    }
    if !ctx.has_violation() {
        if !nondet.is_empty() {
            ctx.machinery(format!("nondeterministic verdict on re-execution: {}", nondet[0]));
        }
        if !stuck.is_empty() {
            ctx.machinery(format!("{} watchdog expiries / harness failures, first: scenario {} {}: {}", stuck.len(), stuck[0].0, scenarios[stuck[0].0 as usize].to_json(), stuck[0].1));
        }
        // non-vacuity: every executable cell ran, every mechanism was really reached
        for cell in cells(true, true) {
            let k = format!("{:?}x{:?}", cell.cause, cell.phase);
            if c.cells.get(&k).copied().unwrap_or(0) == 0 {
                ctx.machinery(format!("vacuous: cell {k} never executed"));
            }
        }
        let need = [
            ("off_parked_at_exit", c.off_parked_at_exit),
            ("off_woke_cancelled", c.off_woke_cancelled),
            ("inline_parked_at_trigger", c.inline_parked_at_trigger),
            ("queue_nonempty_at_exit", c.queue_nonempty_at_exit),
            ("hook_parked_at_trigger", c.hook_parked_at_trigger),
            ("wire_order_checked", c.wire_order_checked),
            ("registry_samples_connected", c.registry_samples_connected),
            ("registry_samples_after", c.registry_samples_after),
            ("handshake_failures", c.handshake_failures),
            ("offpanic_survived", c.offpanic_survived),
            ("drain_returned_with_parked_handler", c.drain_returned_with_parked_handler),
            ("drain_aborted_stragglers", c.drain_aborted_stragglers),
            ("partial_adoptions", c.partial_adoptions),
            ("partial_bytes_handed_over", c.partial_bytes_handed_over),
            ("partial_bytes_left_on_stream", c.partial_bytes_left_on_stream),
            ("partial_prefix_ends_inside_a_frame", c.partial_prefix_ends_inside_a_frame),
            ("shutdown_loops_returned", c.shutdown_loops_returned),
            ("live_when_loop_returned", c.live_when_loop_returned),
            ("served_after_loop_returned", c.served_after_loop_returned),
            ("shutdown_with_idle", c.shutdown_with_idle),
            ("shutdown_with_inline_parked", c.shutdown_with_inline_parked),
            ("shutdown_with_off_parked", c.shutdown_with_off_parked),
            ("shutdown_with_hook_parked", c.shutdown_with_hook_parked),
            ("attempts_after_loop_returned_refused", c.attempts_after_loop_returned_refused),
            ("addr_probe_connects", c.addr_probe_connects),
            ("accept_helper_returned_ok", c.accept_helper_returned_ok),
            ("accept_helper_returned_err", c.accept_helper_returned_err),
        ];
        for (k, n) in need {
            if n == 0 {
                ctx.machinery(format!("vacuous: counter {k} is 0"));
            }
        }
        for p in mem::PREFIXES {
            if c.partial_prefix.get(&format!("{p:?}")).copied().unwrap_or(0) == 0 {
                ctx.machinery(format!("vacuous: no connection was adopted with prefix {p:?}"));
            }
        }
        for ep in tcp::entry_points() {
            if !c.via.keys().any(|k| k.contains(ep.as_str())) {
                ctx.machinery(format!("vacuous: entry point {ep} never served a connection"));
            }
        }
        if c.attempts_after_loop_returned != c.shutdown_loops_returned {
            ctx.machinery(format!("{} accept loops returned on their shutdown future but {} connection attempts were made afterwards", c.shutdown_loops_returned, c.attempts_after_loop_returned));
        }
        for (k, n) in ext::vacuity(&c) {
            if n == 0 {
                ctx.machinery(format!("vacuous: {k}"));
            }
        }
        for outcome in ["ok", "err", "panicked", "aborted"] {
            if !c.served.keys().any(|k| k.ends_with(outcome)) {
                ctx.machinery(format!("vacuous: no serving future ended as '{outcome}'"));
            }
        }
    }
    let mut shapes: Vec<(&String, &u64)> = c.log_shapes.iter().collect();
    shapes.sort_by(|a, b| b.1.cmp(a.1).then(a.0.cmp(b.0)));
    let nv_partial = json!({
        "connections": c.partial_adoptions,
        "by_prefix": c.partial_prefix,
        "bytes_handed_over_as_buffered": c.partial_bytes_handed_over,
        "bytes_left_on_the_stream": c.partial_bytes_left_on_stream,
        "prefix_ended_inside_a_websocket_frame": c.partial_prefix_ends_inside_a_frame,
    });
    let nv_shutdown = json!({
        "accept_loops_returned": c.shutdown_loops_returned,
        "connections_idle_at_that_moment": c.shutdown_with_idle,
        "with_inline_handler_parked": c.shutdown_with_inline_parked,
        "with_off_reader_handler_parked": c.shutdown_with_off_parked,
        "with_connect_hook_parked": c.shutdown_with_hook_parked,
        "connections_alive_when_the_loop_returned": c.live_when_loop_returned,
        "requests_answered_after_the_loop_returned": c.served_after_loop_returned,
        "connection_attempts_after_the_loop_returned": c.attempts_after_loop_returned,
        "of_which_not_upgraded": c.attempts_after_loop_returned_refused,
    });
    let nv_addr = json!({"servers_found_listening_by_probe_connection": c.addr_probe_connects});
    let nv_accept = json!({"returned_ok_and_served": c.accept_helper_returned_ok, "returned_err_nothing_served": c.accept_helper_returned_err});
    let nv_timing = json!({"events_logged": c.tcp_events, "wire_order_decided": c.tcp_wire_order_checked, "both_connect_notifies_seen_on_wire": c.tcp_notifies_on_wire, "addr_rows_connect_retries_before_the_server_listened": c.addr_connect_retries, "addr_rows_bind_failures_retried_on_another_port": c.addr_bind_retries});
    let coverage = json!({
        "evaluations": c.connections,
        "distinct_nontrivial": c.log_shapes.len(),
        "scenarios_enumerated": scenarios.len(),
        "scenarios_executed": executed,
        "connections_decided": c.connections,
        "events_logged": c.events,
        "exhaustive": !stopped && executed == scenarios.len() as u64,
        "stopped_early_after_violations": stopped,
        "rule": format!("every exit cause x connection phase cell on each of the four in-memory entry points (1 connection), every ordered pair of cells (2 connections, both ending orders), triples (quick: every triple of causes with phases from a fixed covering rule; thorough: every triple of cells), N same-cell connections under one shared ShutdownToken, plus the built-in accept loops over loopback TCP (handshake failures x good connections, graceful drain with generous / zero / short deadline x phases x 1..3 connections); the same cells adopted through adopt_upgraded_partially_read with the first k bytes of the client's pipelined frames (k = 0, 1, 2, the whole first frame, the first frame and half of the second) handed over as `buffered` and the rest left on the stream; serve_listener_with_shutdown / serve_with_shutdown(addr) whose shutdown future resolves while 1..3 accepted connections are in their phases (the loop returns, one more connection attempt is made, connections with a free reader answer one more request, then every connection is ended by its own cause while the server runtime is kept alive by a second stop signal); serve(addr) and serve_with_graceful_drain(addr) as their listener twins on a port reserved by bind(0)+drop; the six co-hosting accept helpers inside a harness-owned accept loop, each followed by its serve_connection* call, for good handshakes (own-cause cells incl. the embedder's cancel and abort) and every failing handshake kind; {}; each scenario is executed on the real server and decided against the event-log model", ext::RULE),
        "alphabet": {
            "causes": CAUSES.iter().map(name).collect::<Vec<_>>(),
            "phases": PHASES.iter().map(name).collect::<Vec<_>>(),
            "entry_points": ["adopt_upgraded", "adopt_upgraded_partially_read", "serve_connection", "serve_connection_with_handshake", "serve_connection_with_cancel", "serve_connection_with_cancel_and_handshake", "serve_listener (TCP)", "serve_listener_with_graceful_drain (TCP)", "serve_listener_with_shutdown (TCP)", "serve (TCP, addr)", "serve_with_shutdown (TCP, addr)", "serve_with_graceful_drain (TCP, addr)", "WebSocketServer::accept / accept_with_limits / accept_with_handshake / accept_with_handshake_and_limits (TCP)", "SharedWebSocketServer::accept / accept_with_handshake (TCP)"],
            "partially_read_prefixes": mem::PREFIXES.iter().map(name).collect::<Vec<_>>(),
            "hooks": "C1, D1, with_peer_registry (a second registry first, then the main one), C2 (queues 2 notifies), H (alias from the handshake), D2",
            "registry_traffic_from_outside_the_connection": ext::alphabet_json(),
        },
        "bound": {"connections_per_scenario": tier.pick(json!([1, 2, 3, 4]), json!([1, 2, 3, 8, 32])), "tcp": tcp::bound(tier), "registry_traffic_from_outside_the_connection": ext::bound_json(tier)},
        "cells_executed": c.cells,
        "cells_skipped_not_meaningful": skipped,
        "served_through": c.via,
        "serving_future_outcomes": c.served,
        "nonvacuity": {
            "off_reader_handler_still_parked_when_connection_ended": c.off_parked_at_exit,
            "of_which_observed_is_cancelled_true": c.off_woke_cancelled,
            "inline_handler_parked_when_cause_fired": c.inline_parked_at_trigger,
            "inline_handler_saw_embedder_cancel": c.inline_saw_cancel,
            "outbound_queue_nonempty_when_cause_fired": c.queue_nonempty_at_exit,
            "connect_hook_parked_when_cause_fired": c.hook_parked_at_trigger,
            "wire_order_decided_by_a_response_on_the_wire": c.wire_order_checked,
            "both_connect_notifies_seen_on_wire": c.notifies_on_wire,
            "registry_samples_while_connected": c.registry_samples_connected,
            "registry_samples_after_end": c.registry_samples_after,
            "comparisons_with_a_second_registry_attached_first": c.first_registry_comparisons,
            "disconnect_hook_pairs_checked": c.disconnect_pairs_checked,
            "failed_handshakes": c.handshake_failures,
            "offreader_panic_survived": c.offpanic_survived,
            "embedder_exit_causes_whose_hooks_ran_while_the_peer_was_not_reading": c.hooks_ran_while_peer_blocked,
            "drain_returned_while_a_handler_was_parked": c.drain_returned_with_parked_handler,
            "drain_deadline_aborted_stragglers": c.drain_aborted_stragglers,
            "connections_with_responses_undelivered_at_drain_abort": c.undelivered_at_abort,
            "distinct_per_connection_event_shapes": c.log_shapes.len(),
            "tcp_rows_timing_dependent": nv_timing,
            "partially_read_adoptions": nv_partial,
            "shutdown_future_resolved_mid_life": nv_shutdown,
            "address_taking_loops": nv_addr,
            "accept_helpers": nv_accept,
            "registry_traffic_from_outside_the_connection": ext::nonvacuity_json(&c),
        },
        "most_common_event_shapes": shapes.iter().take(8).map(|(k, n)| json!({"shape": k, "connections": n})).collect::<Vec<_>>(),
        "sweep_wall_s": (wall * 1000.0).round() / 1000.0,
        "samples": samples.take(),
    });
    ctx.finish(
        "fault_enumeration",
        coverage,
        &[
            "connections of one scenario are accepted one after the other (the next one starts when the previous one's first connect hook has run); they then live and end concurrently",
            "each in-memory connection is served on its own current-thread runtime; scheduling inside tokio's multi-thread scheduler is not enumerated",
            "registry samples taken inside connect/disconnect hooks are model-specific and only produce notes; samples inside handlers and after the serving future decide",
            "an inline handler can never be running when its own connection's disconnect hooks fire (it occupies the reader task), so the cancellation clause is decided on off-reader handlers; inline observations of an embedder cancel are reported as a counter/note",
            "TCP rows: a zero drain deadline is one timer tick (<= 1 ms), so only connections that cannot finish at once (blocked writer, parked inline callback) are aborted by the accept loop; the short-deadline rows assume cancel processing (microseconds) finishes within 150 ms, and the outbound rows assume the kernel cannot buffer 2 x tcp_wmem_max + 8 MiB of responses for a peer with a 4 KiB receive buffer; no verdict depends on these, only which path is taken",
            "an abort that lands while the serving future is idle in its reader select is reachable only for an embedder that aborts its own serve_connection task; that row is decided in memory (cause Abort) and in the harness-owned accept loop of the accept-helper rows",
            "partially-read rows: the split point is computed from the byte offsets after each pipelined client frame; while the connect hook is parked the pipelined frames are WebSocket Pings (no handler runs, so no handler races the exit cause)",
            "the rows added for serve_listener_with_shutdown, the address-taking loops and the accept helpers listen on a loopback address of their own (127.x.y.z per scenario); the connection attempt after a loop returned is a complete valid upgrade request; a listener that still answered it would be reported as harness trouble, its hooks are judged only by 'never for a connection whose handshake failed'",
            "rows with registry traffic from outside the connection: the embedder's calls are made from the harness thread at moments at which the connection's own tasks are quiescent or parked (after a predicted event: a handler parked on its gate, the writer's sink reported closed), never concurrently with a step of the connection; interleavings of registry calls with the connection's own insert/remove are the loom part's. A connection whose writes fail is considered 'being ended' from the moment of the fault (a server may tear it down on its own); the presence clause is judged on samples logged before its first disconnect hook, whenever that runs",
            "address-taking rows: the port is reserved by bind(0)+drop; the server is awaited by a connect-retry probe whose early close our server reports through on_error; a bind failure makes the server thread reserve and announce another port (never a verdict)",
        ],
    )
}

pub fn replay(case: &Value) -> Result<(), String> {
    let sc = Scenario::from_json(case)?;
    let prev_hook = std::panic::take_hook();
    std::panic::set_hook(Box::new(|_| {}));
    let o = sc.run();
    std::panic::set_hook(prev_hook);
    for s in &o.shapes {
        println!("  {s}");
    }
    println!("  counters: {}", json!({"drain_aborted_stragglers": o.counters.drain_aborted_stragglers, "off_parked_at_exit": o.counters.off_parked_at_exit, "queue_nonempty": o.counters.queue_nonempty_at_exit, "undelivered_at_abort": o.counters.undelivered_at_abort, "wire_order_checked": o.counters.wire_order_checked + o.counters.tcp_wire_order_checked, "ext_samples_judged_by_stage": o.counters.ext_samples_by_stage, "ext_results": o.counters.ext_results}));
    if !o.stuck.is_empty() {
        println!("  harness trouble: {:?}", o.stuck);
    }
    if o.bad.is_empty() {
        Ok(())
    } else {
        Err(o.bad.iter().map(|b| format!("{}: {}", b.key, b.what)).collect::<Vec<_>>().join("\n"))
    }
}
